"""C20 — Key-level diff and keyed lookup respect both files' orders."""
import itertools
import os

from lib import common as C
from lib.runner import Outcome

ID = "C20"
LEAN_TARGETS = ["CLModel.Props.C20"]
M = "CLModel.Props.C20"
THEOREMS = [
    (M, "C20.addRemove_eq_spec", "diff of duplicate-free sequences = closed form (left order kept, right-only keys after their anchor)"),
    (M, "C20.ar_anchor", "right-only keys follow the last key preceding them in the second sequence that is also in the first"),
    (M, "C20.ar_keys_perm", "every key of either side occurs exactly once"),
    (M, "C20.ar_keys_nodup", "no key is yielded twice, for ALL inputs (duplicates allowed)"),
    (M, "C20.ar_keys_mem", "the yielded keys are exactly the keys of either side, for ALL inputs"),
    (M, "C20.ar_labels", "labels are decided by membership only, for ALL inputs"),
    (M, "C20.ar_left_order", "the first sequence's order is kept (duplicate-free left, ANY right)"),
    (M, "C20.keyed_last", "keyed lookup returns the last entity with the key"),
    (M, "C20.keyed_contains", "key membership = some entity has the key"),
    # round 4
    (M, "C20.ar_eq_specD", "AddRemove.__iter__ on ANY two sequences (duplicates on either side) = closed form specD: left keys once in "
                           "last-occurrence order, right-only keys once after the anchor of their first occurrence"),
    (M, "C20.specD_nodup", "on duplicate-free sequences the closed form with duplicates is the old closed form"),
    (M, "C20.ar_left_order_dup", "with duplicates on the left, the non-add keys are the left keys once each in last-occurrence order"),
    (M, "C20.ar_anchor_dup", "placement rule on the keys alone for ALL inputs (repeated right-only keys re-activate their first anchor)"),
    (M, "C20.ar_dup_left_only", "if no right-only key is repeated, the diff is the duplicate-free closed form against the left side "
                                "reduced to its last occurrences"),
    (M, "C20.obj_iterate_pure", "AddRemove.__iter__ does not change the object (state = left, right)"),
    (M, "C20.obj_state", "after any history of set_left/set_right/iterate the state is (last set_left arg, last set_right arg)"),
    (M, "C20.obj_trace_spec", "on ONE instance every iteration in every operation sequence yields the closed form of the CURRENT "
                              "left/right (TypeError while a side is None) - history independence"),
    (M, "C20.obj_trace_setter", "set_left/set_right yield nothing"),
    (M, "C20.obj_iterate_repeat", "iterating twice in a row gives the same result twice"),
    (M, "C20.ar_hash_independent", "renaming the keys injectively (hash slot, id, other PYTHONHASHSEED, str->tuple) renames the result "
                                   "and changes neither labels nor order"),
    (M, "C20.kt_immutable", "no KeyedTuple query changes the object"),
    (M, "C20.kt_answers", "every answer in every query sequence on one KeyedTuple = closed form over the entity list alone"),
    (M, "C20.kt_order", "keys(), values() and iteration preserve file order, duplicates included"),
    (M, "C20.kt_items_zip", "items() = zip(keys(), values()) positionally, duplicates included"),
    (M, "C20.kt_items_getElem", "the i-th item is (key of the i-th entity, the i-th entity) - never the last entity with that key"),
    (M, "C20.kt_lookup_last", "kt[key] is e iff e has the key, is in the file, and no later entity has the key"),
    (M, "C20.kt_lookup_missing", "kt[key] for an absent key raises TypeError (tuple.__getitem__(str))"),
    (M, "C20.kt_contains_iff", "key in kt iff some entity has the key"),
    (M, "C20.kt_contains_other", "unhashable / int / slice are never members (lines 34-35 swallow the dict's TypeError); an entity "
                                 "object is a member iff it is an element"),
    (M, "C20.kt_index_slice", "int indexing and slicing bypass the map; slices and sums are plain tuples"),
    # round 5: interaction histories over a heap of objects with explicit aliasing
    (M, "C20.keys_fresh", "the list made of kt.keys() is a NEW cell holding the keys in file order; no AddRemove refers to it and "
                          "the call leaves every other object as it was"),
    (M, "C20.keys_fresh_each_call", "two calls of keys() give two different lists with the same contents"),
    (M, "C20.set_left_keys_fresh", "the list set_left(kt.keys()) stores is a new one: only that attribute refers to it"),
    (M, "C20.set_aliases", "set_left(list)/set_right(list) keep the caller's list BY REFERENCE (no copy) - recorded behaviour"),
    (M, "C20.addremove_readonly", "AddRemove(), set_left, set_right and iteration never change the contents of any list, entity list "
                                  "or KeyedTuple"),
    (M, "C20.heap_cell_spec", "after ANY history a list holds its old contents with exactly the caller's own mutations of it applied"),
    (M, "C20.heap_iterate_spec", "iterating yields the closed form of the CURRENT contents of the two lists referred to (TypeError "
                                 "while a side is None) and leaves the heap unchanged"),
    (M, "C20.heap_iterate_history", "at any point of any history an iteration observes the closed form of what the two lists referred "
                                    "to hold at that moment"),
    (M, "C20.heap_reachable_wf", "every heap reachable from the empty one is well formed (no dangling attribute; every KeyedTuple is "
                                 "the KeyedTuple of its own elements)"),
    (M, "C20.heap_newkt_spec", "KeyedTuple(...) creates a new object from the elements its argument has NOW and changes nothing else"),
    (M, "C20.heap_newkt_copies", "what the caller does to its list after KeyedTuple(list) never reaches the object"),
    (M, "C20.heap_kt_forever", "in every interaction history every query on a KeyedTuple answers the closed form over the elements it "
                               "was built from - whatever was handed to an AddRemove, mutated, iterated or built in between"),
    (M, "C20.heap_kt_lists_forever", "the same for list(kt.keys()) / values() / items() taken at any later point"),
    (M, "C20.heap_content_flow", "ar.set_left(ref.keys()); ar.set_right(l10n.keys()); list(ar); then a query on either file: the diff is "
                                 "the closed form of the two key sequences and the queries are answered as if nothing had happened"),
]
PARTIAL = []
LEVEL_TEXT = ("Lean 4 theorems over an executable transliteration of the AddRemove object (set_left/set_right/__iter__ as a state "
              "machine) and of KeyedTuple (with its __map): for ALL key sequences, duplicates included, the diff equals a closed form; "
              "on ONE instance every iteration of every operation sequence yields the closed form of the current sides; every "
              "KeyedTuple answer in every query sequence equals a closed form over the entity list (lookup = last entity, items = "
              "zip(keys, values)); the result is equivariant under injective key renamings (hash independence); the model is tied "
              "to the Python by exhaustive small + random differential runs of single diffs, operation histories and query "
              "sequences, and an independent oracle checks the property on the implementation, also under other PYTHONHASHSEEDs; "
              "round 5: a heap model with explicit references (list = cell, AddRemove attribute = reference, KeyedTuple = values) in "
              "which 'keys() hands out a fresh list', 'AddRemove never changes a list', 'a list changes only by its owner's "
              "mutations' and 'every KeyedTuple answer in every interaction history is the closed form over the elements it was "
              "built from' are theorems, tied by interaction histories on the real objects")
LEVEL_NOTE = ("trusted: Lean kernel; hand-written model of dict/sorted (association list + merge sort) validated by correspondence; "
              "the duplicate-free closed form `spec` needs Nodup (negation witnesses), the general one `specD` does not; "
              "tuple.__getitem__/__contains__/slicing and generator laziness are builtin behaviour, modelled and tied by "
              "correspondence only")
TECHNIQUE = "Lean 4 proof (closed form of the key diff) + differential correspondence with the Python implementation"
TRUSTED = [
    "hand-written model CLModel/Compare/AddRemove.lean of AddRemove.__iter__ and KeyedTuple (tied by the `ar`/`keyed` correspondence)",
    "hand-written models CLModel/Compare/AddRemoveObj.lean (object state machine, tied by `c20.sm`; closed form, tied by `c20.specd`) "
    "and CLModel/Compare/KeyedTuple.lean (object with __map, tuple primitives; tied by `c20.kt`)",
    "Python dict/sorted modelled as association list + stable merge sort",
    "hand-written model CLModel/Compare/C20Heap.lean of the references between caller lists, KeyedTuples and AddRemoves (list = heap "
    "cell, AddRemove attribute = reference, KeyedTuple = values only; tied by `c20.heap`)",
]
ASSUMPTIONS = ["keys are hashable values with value equality (str or tuple), as produced by the parsers",
               "keys are never ints, slices or entity objects (KeyedTuple model)",
               "set_left(list)/set_right(list) alias the caller's list: a caller who mutates it afterwards changes the next diff "
               "(modelled since round 5: Src.ref, theorem set_aliases; the oracle accepts the diff of the current OR of the "
               "handed-over contents, the correspondence pins the current ones)"]


def impl_ar(left, right):
    from compare_locales.compare.utils import AddRemove
    ar = AddRemove()
    ar.set_left(left)
    ar.set_right(right)
    return list(ar)


def oracle_ar(left, right, res):
    """property oracle for duplicate-free sequences; returns None or a message"""
    keys = [k for _, k in res]
    L, R = set(left), set(right)
    if sorted(keys, key=repr) != sorted(L | R, key=repr) or len(keys) != len(set(keys)):
        return "keys not exactly once"
    for lab, k in res:
        exp = "equal" if (k in L and k in R) else ("delete" if k in L else "add")
        if lab != exp:
            return "label of %r is %s, expected %s" % (k, lab, exp)
    if [k for k in keys if k in L] != list(left):
        return "left order not kept"
    # each right-only key sits after its anchor and before the next left key
    pos = {k: i for i, k in enumerate(keys)}
    anchor = None
    prev_same_anchor = None
    for k in right:
        if k in L:
            anchor = k
            prev_same_anchor = None
            continue
        lo = pos[anchor] if anchor is not None else -1
        if not pos[k] > lo:
            return "right-only %r placed before its anchor %r" % (k, anchor)
        # nothing from left may sit between the anchor and k
        between = keys[lo + 1:pos[k]]
        if any(b in L for b in between):
            return "right-only %r not adjacent to its anchor group" % (k,)
        if prev_same_anchor is not None and pos[prev_same_anchor] > pos[k]:
            return "right-only keys with the same anchor out of order"
        prev_same_anchor = k
    return None


class E:
    def __init__(self, key, n):
        self.key = key
        self.n = n


def mk_key(i, kind):
    if kind == "str":
        return "k%d" % i
    return ("id%d" % i, None if i % 2 else "ctx")


# ===================================================================== round 4
LAB = {"equal": "e", "delete": "d", "add": "a"}


def key_id(k):
    """inverse of mk_key"""
    return int(k[1:]) if isinstance(k, str) else int(k[0][2:])


def dedup_last(seq):
    """each element once, at the position of its LAST occurrence"""
    return list(reversed(list(dict.fromkeys(reversed(list(seq))))))


def oracle_any(left, right, res):
    """what the property demands of ONE diff for ANY two sequences (duplicates allowed): every key of either side
    exactly once, labelled by membership, first sequence's order kept; returns None or a message"""
    keys = [k for _, k in res]
    L, R = set(left), set(right)
    if len(keys) != len(set(keys)):
        return "a key is yielded more than once"
    if set(keys) != (L | R):
        return "yielded keys are not the keys of either side"
    for lab, k in res:
        exp = "equal" if (k in L and k in R) else ("delete" if k in L else "add")
        if lab != exp:
            return "label of %r is %s, expected %s" % (k, lab, exp)
    kept = [k for k in keys if k in L]
    if kept != dedup_last(left) and kept != list(dict.fromkeys(left)):
        # the property only says "keeps the first sequence's order": for a repeated left key either occurrence may stand
        # for it (the code uses the last one - pinned by the correspondence with the model, theorem ar_left_order_dup)
        return "left order not kept"
    return None


def oracle_diff(left, right, res):
    bad = oracle_any(left, right, res)
    if bad is None and len(set(left)) == len(left) and len(set(right)) == len(right):
        bad = oracle_ar(left, right, res)
    return bad


def canon_diff(res):
    if isinstance(res, str):
        return res
    return "[" + ",".join(LAB.get(a, "?" + str(a)) + str(key_id(k)) for a, k in res) + "]"


def wrap_arg(keys, how):
    """the object handed to set_left / set_right"""
    if how == "list":
        return list(keys)
    if how == "tuple":
        return tuple(keys)
    if how == "gen":
        return (k for k in keys)
    from compare_locales.keyedtuple import KeyedTuple       # "keys": what ContentComparer / merge pass
    return KeyedTuple([E(k, i) for i, k in enumerate(keys)]).keys()


def impl_sm(ops, kind):
    """ops on ONE AddRemove instance: ["L", ids, how] | ["R", ids, how] | ["I"]; returns what every I observed"""
    from compare_locales.compare.utils import AddRemove
    ar = AddRemove()
    obs = []
    for op in ops:
        if op[0] == "I":
            try:
                obs.append(list(ar))
            except Exception as e:      # noqa
                obs.append(type(e).__name__)
        elif op[0] == "L":
            ar.set_left(wrap_arg([mk_key(i, kind) for i in op[1]], op[2]))
        else:
            ar.set_right(wrap_arg([mk_key(i, kind) for i in op[1]], op[2]))
    return obs


def oracle_sm(ops, kind, obs):
    """history independence: every iteration = a FRESH object given the current sides, and satisfies the property;
    returns None or (position of the iteration, message)"""
    cur = {"L": None, "R": None}
    j = 0
    for pos, op in enumerate(ops):
        if op[0] != "I":
            cur[op[0]] = [mk_key(i, kind) for i in op[1]]
            continue
        got = obs[j]
        j += 1
        if cur["L"] is None or cur["R"] is None:
            if got != "TypeError":
                return pos, "iteration with an unset side gave %r instead of raising TypeError" % (got,)
            continue
        if isinstance(got, str):
            return pos, "iteration raised %s" % got
        bad = oracle_diff(cur["L"], cur["R"], got)
        if bad:
            return pos, bad
        fresh = impl_ar(list(cur["L"]), list(cur["R"]))
        if got != fresh:
            return pos, "iteration on the used instance differs from a fresh instance with the same sides: %s vs %s" % (
                canon_diff(got), canon_diff(fresh))
    return None


def sm_line(ops):
    toks = []
    for op in ops:
        toks.append("I" if op[0] == "I" else "%s:%s" % (op[0], ",".join(map(str, op[1]))))
    return "c20.sm " + " ".join(toks)


def gen_sm_cases(ctx, rng):
    hows = ["list", "tuple", "gen", "keys"]
    cases = []
    # exhaustive: all histories up to length 4 over 7 operations (both sides have duplicates and right-only keys)
    alphabet = [["L", [0, 1]], ["L", [1, 0, 1]], ["L", []], ["R", [2, 0, 3]], ["R", [3, 1, 3, 2]], ["R", [0]], ["I"]]
    maxlen = 4 if ctx.tier == "quick" else 5
    for n in range(1, maxlen + 1):
        for seq in itertools.product(range(len(alphabet)), repeat=n):
            if 6 not in seq:
                continue
            cases.append([list(alphabet[i]) + ([hows[(i + j) % 4]] if i != 6 else []) for j, i in enumerate(seq)])
    for _ in range(ctx.n(2500, 40000)):
        nsym = rng.choice([3, 5, 8])
        ops = []
        for _ in range(rng.randrange(2, 13)):
            x = rng.random()
            if x < 0.4:
                ops.append(["I"])
            elif x < 0.5 and ops and ops[-1][0] != "I":
                ops.append([("R" if ops[-1][0] == "L" else "L"), list(ops[-1][1]), rng.choice(hows)])   # the other side, identical
            else:
                if rng.random() < 0.5:
                    seq = rng.sample(range(nsym), rng.randrange(0, nsym + 1))
                else:
                    seq = [rng.randrange(nsym) for _ in range(rng.randrange(0, 9))]
                ops.append(["L" if x < 0.7 else "R", seq, rng.choice(hows)])
        if not any(o[0] == "I" for o in ops):
            ops.append(["I"])
        cases.append(ops)
    return cases


# ------------------------------------------------------------------ KeyedTuple as an object
UNHASHABLE = [lambda: [1], lambda: {}, lambda: set()]


def kt_build(ks, kind, how):
    from compare_locales.keyedtuple import KeyedTuple
    ents = [E(mk_key(k, kind), i) for i, k in enumerate(ks)]
    if how == "list":
        kt = KeyedTuple(list(ents))
    elif how == "tuple":
        kt = KeyedTuple(tuple(ents))
    elif how == "gen":
        kt = KeyedTuple(e for e in ents)
    else:
        kt = KeyedTuple(KeyedTuple(ents))
    return kt, ents


def show_val(r):
    if isinstance(r, E):
        return "E%d" % r.n
    if isinstance(r, (tuple, list)):
        try:
            return "%s[%s]" % (type(r).__name__, ",".join(str(e.n) for e in r))
        except AttributeError:
            return "%s[?]" % type(r).__name__
    return "?%s" % type(r).__name__


def kt_arg(body, ents, kind, salt):
    c = body[0]
    if c == "k":
        return mk_key(int(body[1:]), kind)
    if c == "i":
        return int(body[1:])
    if c == "u":
        return UNHASHABLE[salt % 3]()
    if c == "s":
        lo, hi = body[1:].split(":")
        return slice(int(lo) if lo else None, int(hi) if hi else None)
    k, i = body[1:].split(":")
    k, i = int(k), int(i)
    if i < len(ents) and key_id(ents[i].key) == k:
        return ents[i]                      # the member object itself
    return E(mk_key(k, kind), i)            # some other entity object


def kt_ask(kt, ents, tok, kind, salt=0):
    from compare_locales.keyedtuple import KeyedTuple
    c = tok[0]
    try:
        if c == "g":
            return show_val(kt[kt_arg(tok[1:], ents, kind, salt)])
        if c == "c":
            return "true" if (kt_arg(tok[1:], ents, kind, salt) in kt) else "false"
        if c == "K":
            return "keys[%s]" % ",".join(str(key_id(k)) for k in kt.keys())
        if c == "V":
            return show_val(kt.values())
        if c == "I":
            return "items[%s]" % ",".join("%d:%d" % (key_id(k), v.n) for k, v in kt.items())
        if c == "T":
            return "tuple[%s]" % ",".join(str(e.n) for e in iter(kt))
        if c == "N":
            return str(len(kt))
        if c == "A":
            body = tok[2:]
            other = KeyedTuple([E(mk_key(int(k), kind), 100 + i) for i, k in enumerate(body.split(",") if body else [])])
            return show_val(kt + other)
    except Exception as e:      # noqa
        return type(e).__name__
    return "?"


def impl_kt(ks, qs, kind, how):
    kt, ents = kt_build(ks, kind, how)
    return [kt_ask(kt, ents, q, kind, j) for j, q in enumerate(qs)]


def oracle_kt(ks, qs, ans):
    """the property on one KeyedTuple queried by a sequence; returns None or (position, message)"""
    n = len(ks)
    first = {}
    for pos, (q, a) in enumerate(zip(qs, ans)):
        if q in first and first[q] != a:
            return pos, "query %s answered %s, earlier on the same instance %s" % (q, a, first[q])
        first.setdefault(q, a)
        exp = None
        if q.startswith("gk"):
            idx = [i for i, k in enumerate(ks) if k == int(q[2:])]
            if idx:
                exp = "E%d" % idx[-1]
            elif a[:1] == "E" and a[1:].isdigit() or "[" in a:
                return pos, "lookup of an absent key returned %s" % a
        elif q.startswith("ck"):
            exp = "true" if int(q[2:]) in ks else "false"
        elif q.startswith("gi"):
            i = int(q[2:])
            exp = "E%d" % (i % n) if -n <= i < n else "IndexError"
        elif q == "K":
            exp = "keys[%s]" % ",".join(map(str, ks))
        elif q == "I":
            exp = "items[%s]" % ",".join("%d:%d" % (k, i) for i, k in enumerate(ks))
        elif q == "T":
            exp = "tuple[%s]" % ",".join(map(str, range(n)))
        elif q == "V":
            if a[a.find("["):] != "[%s]" % ",".join(map(str, range(n))):
                return pos, "values() gave %s" % a
        elif q == "N":
            exp = str(n)
        if exp is not None and a != exp:
            return pos, "%s gave %s, expected %s" % (q, a, exp)
    return None


def kt_base_queries(n, nkeys):
    qs = []
    for k in range(nkeys + 1):
        qs += ["gk%d" % k, "ck%d" % k]
    qs += ["gi%d" % i for i in range(-n - 1, n + 2)]
    qs += ["gs:", "gs1:", "gs:-1", "gs1:3", "gs-2:", "gs3:1", "gs-9:9", "gu", "cu", "ci0", "cs:", "ge0:0", "ce0:0", "ce1:0",
           "ce%d:%d" % (nkeys, n), "K", "V", "I", "T", "N", "A:", "A:0,%d" % nkeys]
    return qs


def gen_kt_cases(ctx, rng):
    hows = ["list", "tuple", "gen", "kt"]
    cases = []
    maxn = 4 if ctx.tier == "quick" else 5
    for n in range(maxn + 1):
        for ks in itertools.product(range(3), repeat=n):
            base = kt_base_queries(n, 3)
            again = list(base)
            rng.shuffle(again)
            cases.append((list(ks), base + again))
    for _ in range(ctx.n(300, 6000)):
        nk = rng.choice([2, 4, 6])
        ks = [rng.randrange(nk) for _ in range(rng.randrange(0, 11))]
        base = kt_base_queries(len(ks), nk)
        qs = [rng.choice(base) for _ in range(rng.randrange(5, 40))]
        cases.append((ks, qs))
    # round 5: the FIRST queries on a fresh instance - every ordered pair (thorough: triple) of queries of every kind, then a
    # lookup and a membership test of every key and the order questions (an index filled on demand must not depend on what
    # was asked first, e.g. a membership test before the first keyed lookup)
    firsts = ["ck0", "ck1", "ck2", "gk0", "gk1", "gk2", "K", "I", "V", "gi0", "cu", "ce0:0"]
    tail = ["gk0", "gk1", "gk2", "gk3", "ck0", "ck1", "ck2", "ck3", "K", "I"]
    small = [ks for n in range(1, 4) for ks in itertools.product(range(3), repeat=n)] + list(itertools.product(range(2), repeat=4))
    for ks in small:
        for pre in itertools.product(firsts, repeat=2):
            cases.append((list(ks), list(pre) + tail))
    if ctx.tier != "quick":
        for ks in small:
            if len(set(ks)) < len(ks):
                for pre in itertools.product(firsts, repeat=3):
                    cases.append((list(ks), list(pre) + tail))
    return [(ks, qs, hows[i % 4]) for i, (ks, qs) in enumerate(cases)]


# ------------------------------------------------------------------ other PYTHONHASHSEEDs (runs in a worker)
def hs_eval(batch):
    """canonical outputs of a batch of cases; executed in worker processes started with another PYTHONHASHSEED"""
    out = []
    for c in batch:
        if c[0] == "ar":
            _, l, r, kind = c
            out.append(canon_diff(impl_ar([mk_key(i, kind) for i in l], [mk_key(i, kind) for i in r])))
        elif c[0] == "sm":
            _, ops, kind = c
            out.append(" ".join(canon_diff(o) for o in impl_sm(ops, kind)))
        elif c[0] == "hp":
            _, toks, kind = c
            out.append(" ".join(o for _, o in impl_heap(toks, kind)))
        else:
            _, ks, qs, kind, how = c
            out.append(" ".join(impl_kt(ks, qs, kind, how)))
    return out


HASHSEEDS = ["1", "2", "4242", "random"]


# ===================================================================== round 5: interaction histories over a heap of objects
# Token language (shared with the driver op `c20.heap`, see lean/CLModel/Ops/C20.lean).  Objects are numbered per kind in
# order of creation: key lists L (nl, kl, and the list an AddRemove made of a non-list argument = ar.left / ar.right),
# entity lists M (ne, vl, il), KeyedTuples T (kt:...), AddRemoves A (ar).
OBSERVING = ("kl", "vl", "il", "it", "rl", "re")


def _as_list(x):
    """the idiom of AddRemove.set_left itself: keep a list, copy anything else"""
    return x if isinstance(x, list) else list(x)


def _show_keys(L):
    return "keys[%s]" % ",".join(str(key_id(k)) for k in L)


def _show_ents(M, pairs):
    return "ents[%s]" % ",".join(str((v[1] if pairs else v).n) for v in M)


def impl_heap(toks, kind):
    """one interaction history on the REAL objects; returns [(position, observation)] for the observing operations
    (and for any operation that raised)"""
    from compare_locales.keyedtuple import KeyedTuple
    from compare_locales.compare.utils import AddRemove
    Ls, Ms, Ts, As, ents = [], [], [], [], []

    def new_ent(k):
        e = E(mk_key(int(k), kind), len(ents))
        ents.append(e)
        return e

    def keys_of(body):
        return [int(x) for x in body.split(",")] if body else []

    def mutate(lst, m, mk):
        if m[0] == "a":
            lst.append(mk(m[1:]))
        elif m[0] == "i":
            lst.insert(0, mk(m[1:]))
        elif m == "p":
            if lst:
                lst.pop()
        elif m == "r":
            lst.reverse()
        else:
            lst.clear()

    obs = []
    for pos, tok in enumerate(toks):
        try:
            h = tok[:2]
            if tok == "ar":
                As.append(AddRemove())
            elif h == "nl":
                Ls.append([mk_key(k, kind) for k in keys_of(tok[3:])])
            elif h == "ne":
                Ms.append([[new_ent(k) for k in keys_of(tok[3:])], False])
            elif h == "ml":
                r, m = tok[2:].split(":", 1)
                mutate(Ls[int(r)], m, lambda k: mk_key(int(k), kind))
            elif h == "me":
                r, m = tok[2:].split(":", 1)
                M, pairs = Ms[int(r)]
                mutate(M, m, (lambda k: (lambda e: (e.key, e))(new_ent(k))) if pairs else new_ent)
            elif h == "kt":
                body = tok[3:]
                c = body[0]
                Ts.append(None)
                if c in "ltg":
                    ks = keys_of(body[2:])
                    if c == "l":
                        kt = KeyedTuple([new_ent(k) for k in ks])
                    elif c == "t":
                        kt = KeyedTuple(tuple(new_ent(k) for k in ks))
                    else:
                        kt = KeyedTuple(new_ent(k) for k in ks)
                elif c == "m":
                    M, pairs = Ms[int(body[1:])]
                    kt = KeyedTuple(v for _, v in M) if pairs else KeyedTuple(M)
                elif c == "v":
                    kt = KeyedTuple(Ts[int(body[1:])].values())
                elif c == "i":
                    kt = KeyedTuple(v for _, v in Ts[int(body[1:])].items())
                else:
                    t, u = body[1:].split(",")
                    kt = KeyedTuple(Ts[int(t)] + Ts[int(u)])
                Ts[-1] = kt
            elif h in ("sl", "sr"):
                a, src = tok[2:].split(":", 1)
                ar = As[int(a)]
                setter = ar.set_left if h == "sl" else ar.set_right
                if src[0] == "L":
                    setter(Ls[int(src[1:])])                      # the caller's list, BY REFERENCE
                else:
                    Ls.append(None)
                    if src[0] == "K":
                        setter(Ts[int(src[1:])].keys())           # what compare/content.py and merge.py do
                    elif src[0] == "t":
                        setter(tuple(mk_key(k, kind) for k in keys_of(src[2:])))
                    else:
                        setter(mk_key(k, kind) for k in keys_of(src[2:]))
                    Ls[-1] = ar.left if h == "sl" else ar.right   # the public attribute: the list the object made
            elif h == "kl":
                Ls.append(None)
                Ls[-1] = _as_list(Ts[int(tok[2:])].keys())
                obs.append((pos, _show_keys(Ls[-1])))
            elif h == "vl":
                Ms.append([None, False])
                Ms[-1][0] = _as_list(Ts[int(tok[2:])].values())
                obs.append((pos, _show_ents(Ms[-1][0], False)))
            elif h == "il":
                Ms.append([None, True])
                Ms[-1][0] = _as_list(Ts[int(tok[2:])].items())
                obs.append((pos, "items[%s]" % ",".join("%d:%d" % (key_id(k), v.n) for k, v in Ms[-1][0])))
            elif h == "it":
                try:
                    obs.append((pos, canon_diff(list(As[int(tok[2:])]))))
                except Exception as e:      # noqa
                    obs.append((pos, type(e).__name__))
            elif h == "rl":
                obs.append((pos, _show_keys(Ls[int(tok[2:])])))
            elif h == "re":
                M, pairs = Ms[int(tok[2:])]
                obs.append((pos, _show_ents(M, pairs)))
            elif tok[0] == "q":
                t, q = tok[1:].split(":", 1)
                obs.append((pos, kt_ask(Ts[int(t)], ents, q, kind, pos)))
            else:
                raise ValueError("unknown token " + tok)
        except Exception as e:      # noqa
            obs.append((pos, "!" + type(e).__name__))
    return obs


def kt_expect(es, q):
    """what the property promises for query `q` on a KeyedTuple built from the entities `es` = [(key id, entity id)]:
    ("=", answer) | ("absent",) | ("values", ids) | None when the property does not speak"""
    n = len(es)
    if q.startswith("gk"):
        idx = [i for k, i in es if k == int(q[2:])]
        return ("=", "E%d" % idx[-1]) if idx else ("absent",)
    if q.startswith("ck"):
        return ("=", "true" if any(k == int(q[2:]) for k, _ in es) else "false")
    if q.startswith("gi"):
        i = int(q[2:])
        return ("=", "E%d" % es[i % n][1] if -n <= i < n else "IndexError")
    if q == "K":
        return ("=", "keys[%s]" % ",".join(str(k) for k, _ in es))
    if q == "I":
        return ("=", "items[%s]" % ",".join("%d:%d" % (k, i) for k, i in es))
    if q == "T":
        return ("=", "tuple[%s]" % ",".join(str(i) for _, i in es))
    if q == "V":
        return ("values", "[%s]" % ",".join(str(i) for _, i in es))
    if q == "N":
        return ("=", str(n))
    return None


def judge_answer(es, q, a):
    exp = kt_expect(es, q)
    if exp is None:
        return None
    if exp[0] == "=" and a != exp[1]:
        return "%s gave %s, expected %s" % (q, a, exp[1])
    if exp[0] == "absent" and (a[:1] == "E" and a[1:].isdigit() or "[" in a):
        return "lookup of an absent key returned %s" % a
    if exp[0] == "values" and a[a.find("["):] != exp[1]:
        return "values() gave %s, expected the entities %s" % (a, exp[1])
    return None


def parse_diff(canon):
    """inverse of canon_diff (int keys)"""
    inv = {"e": "equal", "d": "delete", "a": "add"}
    body = canon[1:-1]
    return [(inv[x[0]], int(x[1:])) for x in body.split(",")] if body else []


def oracle_heap(toks, kind, obs):
    """what the property promises in an interaction history, by construction: every KeyedTuple answer is the closed form over
    the entities the object was BUILT from (forever); every diff is the diff of the two sequences (the current contents of the
    lists referred to, or what they held when handed over - the property does not say which) and equals a fresh AddRemove's;
    returns None or (position, message)"""
    from compare_locales.keyedtuple import KeyedTuple
    seen = dict(obs)
    Ls, Ms, Ts, As = [], [], [], []     # shadow: lists of key ids / lists of (key id, entity id) / tuples of the same / dicts
    nid = [0]
    internal, touched = set(), set()    # ids of shadow lists an AddRemove made itself (ar.left of a non-list argument) / of those
    #                                     the caller mutated afterwards: what such a list holds is the object's own business, so a
    #                                     diff that depends on one is left to the correspondence

    def new_ents(ks):
        out = []
        for k in ks:
            out.append((k, nid[0]))
            nid[0] += 1
        return out

    def keys_of(body):
        return [int(x) for x in body.split(",")] if body else []

    def mutate(lst, m, mk):
        if m[0] == "a":
            lst.append(mk(m[1:]))
        elif m[0] == "i":
            lst.insert(0, mk(m[1:]))
        elif m == "p":
            if lst:
                lst.pop()
        elif m == "r":
            lst.reverse()
        else:
            lst.clear()

    for pos, tok in enumerate(toks):
        h = tok[:2]
        got = seen.get(pos)
        if tok == "ar":
            As.append({"L": None, "R": None, "L0": None, "R0": None})
        elif h == "nl":
            Ls.append(keys_of(tok[3:]))
        elif h == "ne":
            Ms.append(new_ents(keys_of(tok[3:])))
        elif h == "ml":
            r, m = tok[2:].split(":", 1)
            mutate(Ls[int(r)], m, int)
            if id(Ls[int(r)]) in internal:
                touched.add(id(Ls[int(r)]))
        elif h == "me":
            r, m = tok[2:].split(":", 1)
            mutate(Ms[int(r)], m, lambda k: new_ents([int(k)])[0])
        elif h == "kt":
            body = tok[3:]
            c = body[0]
            if c in "ltg":
                Ts.append(tuple(new_ents(keys_of(body[2:]))))
            elif c == "m":
                Ts.append(tuple(Ms[int(body[1:])]))          # the contents NOW
            elif c in "vi":
                Ts.append(Ts[int(body[1:])])
            else:
                t, u = body[1:].split(",")
                Ts.append(Ts[int(t)] + Ts[int(u)])
        elif h in ("sl", "sr"):
            a, src = tok[2:].split(":", 1)
            if src[0] == "L":
                cell = Ls[int(src[1:])]                       # alias: the very same shadow list
            else:
                cell = [k for k, _ in Ts[int(src[1:])]] if src[0] == "K" else keys_of(src[2:])
                Ls.append(cell)
                internal.add(id(cell))
            side = "L" if h == "sl" else "R"
            As[int(a)][side] = cell
            As[int(a)][side + "0"] = list(cell)
        elif h in ("kl", "vl", "il"):
            es = Ts[int(tok[2:])]
            if h == "kl":
                Ls.append([k for k, _ in es])
                exp = "keys[%s]" % ",".join(str(k) for k, _ in es)
            elif h == "vl":
                Ms.append(list(es))
                exp = "ents[%s]" % ",".join(str(i) for _, i in es)
            else:
                Ms.append(list(es))
                exp = "items[%s]" % ",".join("%d:%d" % e for e in es)
            if got != exp:
                return pos, "%s() of T%s gave %s, expected %s (file order with duplicates)" % (
                    {"kl": "keys", "vl": "values", "il": "items"}[h], tok[2:], got, exp)
        elif h == "it":
            o = As[int(tok[2:])]
            if o["L"] is None or o["R"] is None:
                if got != "TypeError":
                    return pos, "iteration with an unset side gave %r instead of raising TypeError" % (got,)
                continue
            if id(o["L"]) in touched or id(o["R"]) in touched:
                continue
            if got is None or not got.startswith("["):
                return pos, "iteration raised %s" % got
            res = parse_diff(got)
            ok, first = False, None
            # the sequences the diff may be about: what the lists hold NOW (the unchanged code keeps a list argument by
            # reference) or what they held when handed over (the property does not say which)
            for l in ([o["L"]] + ([o["L0"]] if o["L0"] != o["L"] else [])):
                for r in ([o["R"]] + ([o["R0"]] if o["R0"] != o["R"] else [])):
                    bad = oracle_diff(l, r, res)
                    if bad is None:
                        fresh = canon_diff(impl_ar([mk_key(i, kind) for i in l], [mk_key(i, kind) for i in r]))
                        if fresh != got:
                            bad = "iteration differs from a fresh AddRemove with the same sides: %s vs %s" % (got, fresh)
                    if bad is None:
                        ok = True
                        break
                    first = first or "%s (left=%s right=%s)" % (bad, l, r)
                if ok:
                    break
            if not ok:
                return pos, first
        elif tok[0] == "q":
            t, q = tok[1:].split(":", 1)
            es = Ts[int(t)]
            bad = judge_answer(es, q, got)
            if bad:
                return pos, "T%s built from entities %s: %s" % (t, list(es), bad)
            if q[1:2] != "e" and got is not None:
                ents = [E(mk_key(k, kind), i) for k, i in es]
                fresh = kt_ask(KeyedTuple(ents), [], q, kind, pos)
                if fresh != got:
                    return pos, "T%s: %s answered %s, a fresh KeyedTuple of the same entities answers %s" % (t, q, got, fresh)
    return None


HEAP_SUFFIX = ["q0:K", "q0:I", "q0:V", "q0:T", "q0:N", "q0:gk0", "q0:gk1", "q0:ck0", "q0:ck1", "q0:gi0", "q0:gi-1",
               "kl0", "vl0", "il0", "q1:K", "q1:I", "q1:gk0", "q1:gk1"]


def heap_alphabet():
    """interaction operations around T0 / T1 / A0; `*` stands for the most recently created L resp. M"""
    return ["sl0:K0", "sr0:K0", "sr0:K1", "sl0:K1", "kl0", "sl0:L*", "sr0:L*", "it0", "ml*:p", "ml*:a7", "ml*:r", "ml*:c", "ml*:i1",
            "vl0", "il0", "me*:p", "me*:a7", "me*:r", "kt:v0", "kt:i0", "kt:m*", "q0:ck0", "q0:ck1", "q0:gk0", "q0:K", "q0:I"]


def heap_instantiate(prefix, mids, with_suffix=True):
    """resolve `*`, append the closing queries (on every KeyedTuple and list that exists); None if a `*` has no referent"""
    nL = nM = 0
    nT = sum(1 for t in prefix if t.startswith("kt:"))
    toks = list(prefix)
    for t in prefix:
        if t[:2] == "nl":
            nL += 1
        elif t[:2] == "ne":
            nM += 1
    for m in mids:
        if "L*" in m or m.startswith("ml*"):
            if not nL:
                return None
            m = m.replace("*", str(nL - 1))
        elif m.startswith("me*") or m == "kt:m*":
            if not nM:
                return None
            m = m.replace("*", str(nM - 1))
        toks.append(m)
        h = m[:2]
        if h == "kl" or (h in ("sl", "sr") and ":L" not in m):
            nL += 1
        elif h in ("vl", "il"):
            nM += 1
        elif h == "kt":
            nT += 1
    if with_suffix:
        toks += ["it0"] + HEAP_SUFFIX
        for t in range(2, nT):
            toks += ["q%d:K" % t, "q%d:I" % t, "q%d:gk0" % t]
        toks += ["rl%d" % r for r in range(nL)] + ["re%d" % r for r in range(nM)] + ["it0"]
    return toks


def gen_heap_random(rng, maxlen):
    nsym = rng.choice([2, 3, 4])
    n = {"L": 0, "M": 0, "T": 0, "A": 0, "E": 0}
    toks = []
    sides = []          # per AddRemove: which sides have been set

    def ks(lo=0):
        return [rng.randrange(nsym) for _ in range(rng.randrange(lo, 6))]

    def kstr(x):
        return ",".join(map(str, x))

    def mut():
        return rng.choice(["a%d" % rng.randrange(nsym + 1), "i%d" % rng.randrange(nsym + 1), "p", "p", "r", "c"])

    def query():
        x = rng.random()
        if x < 0.45:
            return rng.choice(["K", "I", "V", "T", "N"])
        if x < 0.8:
            return rng.choice(["gk", "ck"]) + str(rng.randrange(nsym + 1))
        if x < 0.9:
            return "gi%d" % rng.randrange(-6, 7)
        return rng.choice(["gs:", "gs1:", "gs:-1", "gs-2:", "gu", "cu", "ci0", "ce%d:%d" % (rng.randrange(nsym), rng.randrange(n["E"] + 2)),
                           "ge0:0"])

    for _ in range(rng.randrange(5, maxlen + 1)):
        w = [("ktl", 2.0 if n["T"] < 4 else 0.3), ("ktd", 1.2 if n["T"] else 0), ("ktm", 1.0 if n["M"] else 0),
             ("ar", 1.5 if n["A"] < 3 else 0.1), ("nl", 0.8), ("ne", 0.6),
             ("setK", 3.0 if n["A"] and n["T"] else 0), ("setL", 2.0 if n["A"] and n["L"] else 0), ("setlit", 0.7 if n["A"] else 0),
             ("it", 3.0 if n["A"] else 0), ("kvi", 2.0 if n["T"] else 0), ("ml", 2.5 if n["L"] else 0), ("me", 1.2 if n["M"] else 0),
             ("rl", 0.8 if n["L"] else 0), ("re", 0.4 if n["M"] else 0), ("q", 6.0 if n["T"] else 0)]
        op = rng.choices([a for a, _ in w], [b for _, b in w])[0]
        if op == "ktl":
            x = ks()
            toks.append("kt:%s:%s" % (rng.choice("ltg"), kstr(x)))
            n["T"] += 1
            n["E"] += len(x)
        elif op == "ktd":
            c = rng.choice("vic")
            toks.append("kt:%s%d" % (c, rng.randrange(n["T"])) + (",%d" % rng.randrange(n["T"]) if c == "c" else ""))
            n["T"] += 1
        elif op == "ktm":
            toks.append("kt:m%d" % rng.randrange(n["M"]))
            n["T"] += 1
        elif op == "ar":
            toks.append("ar")
            n["A"] += 1
            sides.append(set())
        elif op == "nl":
            toks.append("nl:" + kstr(ks()))
            n["L"] += 1
        elif op == "ne":
            x = ks()
            toks.append("ne:" + kstr(x))
            n["M"] += 1
            n["E"] += len(x)
        elif op in ("setK", "setL", "setlit"):
            a = rng.randrange(n["A"])
            side = rng.choice(["sl", "sr"])
            if len(sides[a]) == 1 and rng.random() < 0.8:
                side = "sl" if "sr" in sides[a] else "sr"
            sides[a].add(side)
            if op == "setK":
                toks.append("%s%d:K%d" % (side, a, rng.randrange(n["T"])))
                n["L"] += 1
            elif op == "setL":
                toks.append("%s%d:L%d" % (side, a, rng.randrange(n["L"])))
            else:
                toks.append("%s%d:%s:%s" % (side, a, rng.choice("tg"), kstr(ks())))
                n["L"] += 1
        elif op == "it":
            toks.append("it%d" % rng.randrange(n["A"]))
        elif op == "kvi":
            c = rng.choice(["kl", "kl", "vl", "il"])
            toks.append("%s%d" % (c, rng.randrange(n["T"])))
            n["L" if c == "kl" else "M"] += 1
        elif op == "ml":
            toks.append("ml%d:%s" % (rng.randrange(n["L"]), mut()))
        elif op == "me":
            m = mut()
            toks.append("me%d:%s" % (rng.randrange(n["M"]), m))
            n["E"] += m[0] in "ai"
        elif op == "rl":
            toks.append("rl%d" % rng.randrange(n["L"]))
        elif op == "re":
            toks.append("re%d" % rng.randrange(n["M"]))
        else:
            toks.append("q%d:%s" % (rng.randrange(n["T"]), query()))
    # close: ask every KeyedTuple about its order and lookups, iterate every AddRemove
    for t in range(n["T"]):
        toks += ["q%d:K" % t, "q%d:I" % t, "q%d:V" % t] + ["q%d:gk%d" % (t, k) for k in range(nsym)]
    toks += ["it%d" % a for a in range(n["A"])]
    return toks


def gen_heap_cases(ctx, rng):
    cases = []
    alpha = heap_alphabet()
    # (1) every sequence of <= 2 (quick) / <= 3 (thorough, over fewer files) interaction operations after "two files and an
    #     AddRemove exist", closed by the full set of questions to everything
    files = [ks for n in range(0, 4) for ks in itertools.product(range(2), repeat=n)]
    files.sort(key=lambda ks: (len(set(ks)) == len(ks), len(ks)))      # files with a repeated key first
    second = lambda ks: list(reversed(ks)) + [2] + list(ks[:1])       # related second file: reversed, a new key, a repeat

    def prefix(ks):
        return ["kt:l:" + ",".join(map(str, ks)), "kt:t:" + ",".join(map(str, second(ks))), "ar"]
    for ks in files:
        for n in (0, 1, 2):
            for mids in itertools.product(alpha, repeat=n):
                c = heap_instantiate(prefix(ks), mids)
                if c:
                    cases.append(c)
    if ctx.tier != "quick":
        for ks in [(0, 1, 0), (1, 1), (0, 0, 1, 0)]:
            for mids in itertools.product(alpha, repeat=3):
                c = heap_instantiate(prefix(ks), mids)
                if c:
                    cases.append(c)
    # (2) random longer sequences over the same alphabet
    for _ in range(ctx.n(1500, 20000)):
        ks = [rng.randrange(3) for _ in range(rng.randrange(1, 6))]
        c = None
        while c is None:
            c = heap_instantiate(prefix(ks), [rng.choice(alpha) for _ in range(rng.randrange(3, 9))])
        cases.append(c)
    # (3) free histories: any number of objects of every kind
    for _ in range(ctx.n(2500, 40000)):
        cases.append(gen_heap_random(rng, rng.choice([10, 18, 30])))
    return cases


def run_round5(ctx, out, rng):
    cases = gen_heap_cases(ctx, rng)
    lines = ["c20.heap " + " ".join(t) for t in cases]
    model = C.run_driver_parallel(lines) if ctx.model_ok else [None] * len(lines)
    for idx, (toks, mo) in enumerate(zip(cases, model)):
        kind = "str" if idx % 2 else "tuple"
        obs = impl_heap(toks, kind)
        canon = " ".join(o for _, o in obs)
        out.evaluations += 1
        handed = [i for i, t in enumerate(toks) if t[:2] in ("sl", "sr")]
        later_q = bool(handed) and any(t[0] == "q" for t in toks[handed[0]:])
        aliased_mut = any(t[:2] == "ml" for t in toks[handed[0]:]) if handed else False
        out.count("heap.handover=%s,mutation_after=%s" % (bool(handed), aliased_mut))
        if later_q and aliased_mut:
            out.nontrivial.add(("hp", canon))
        if len([s for s in out.samples if s.get("op") == "c20.heap"]) < 2 and later_q and aliased_mut and len(toks) < 40:
            out.samples.append({"op": "c20.heap", "history": " ".join(toks), "result": canon})
        bad = oracle_heap(toks, kind, obs)
        if bad:
            out.violations.append({"what": "interaction history (operation %d = %s): %s" % (bad[0], toks[bad[0]], bad[1]),
                                   "input": {"history": toks[:bad[0] + 1], "keykind": kind}, "op": "hp"})
        elif mo is not None and mo != canon:
            out.disagreements.append({"op": "c20.heap", "history": " ".join(toks), "impl": canon, "model": mo})
    return cases


def run_round4(ctx, out, rng, ar_cases, hp_cases=()):
    from lib import pool
    # ---- the closed form with duplicates, natively, against the implementation (random pairs of the `ar` stream)
    dup_cases = [(l, r) for l, r, nodup in ar_cases if not nodup]
    # related sides (what comparing two versions of one file looks like): identical, reversed, shuffled, edited, doubled
    for _ in range(ctx.n(2000, 30000)):
        nsym = rng.choice([3, 5, 8])
        l = [rng.randrange(nsym) for _ in range(rng.randrange(1, 11))]
        mode = rng.randrange(6)
        if mode == 0:
            r = list(l)
        elif mode == 1:
            r = l[::-1]
        elif mode == 2:
            r = list(l)
            rng.shuffle(r)
        elif mode == 3:
            r = [x for x in l if rng.random() < 0.7]
        elif mode == 4:
            r = list(l)
            for _ in range(rng.randrange(1, 4)):
                r.insert(rng.randrange(len(r) + 1), rng.randrange(nsym + 2))
        else:
            r = l + l
        dup_cases.append((l, r))
    lines = ["c20.specd t:%s t:%s" % (",".join(map(str, l)), ",".join(map(str, r))) for l, r in dup_cases]
    model = C.run_driver_parallel(lines) if ctx.model_ok else [None] * len(lines)
    model_ar = C.run_driver_parallel(["ar" + ln[len("c20.specd"):] for ln in lines]) if ctx.model_ok else [None] * len(lines)
    for idx, ((l, r), mo, mo2) in enumerate(zip(dup_cases, model, model_ar)):
        kind = "str" if idx % 2 else "tuple"
        lk = [mk_key(i, kind) for i in l]
        rk = [mk_key(i, kind) for i in r]
        res = impl_ar(lk, rk)
        out.evaluations += 1
        bad = oracle_any(lk, rk, res)
        canon = canon_diff(res)
        rightonly = [x for x in r if x not in l]
        quirk = len(rightonly) != len(set(rightonly))
        out.count("specd.repeated_right_only=%s" % quirk)
        if quirk:
            out.nontrivial.add(("specd", tuple(l), tuple(r)))
        if bad:
            out.violations.append({"what": "AddRemove (duplicates): " + bad, "input": {"left": l, "right": r, "keykind": kind}, "op": "ar"})
        elif mo is not None and mo != canon:
            out.disagreements.append({"op": "c20.specd", "left": l, "right": r, "impl": canon, "model": mo})
        elif mo2 is not None and "[" + mo2.replace(" ", ",") + "]" != canon:
            out.disagreements.append({"op": "ar", "left": l, "right": r, "impl": canon, "model": mo2})
    # ---- histories on ONE AddRemove instance
    sm_cases = gen_sm_cases(ctx, rng)
    lines = [sm_line(ops) for ops in sm_cases]
    model = C.run_driver_parallel(lines) if ctx.model_ok else [None] * len(lines)
    for idx, (ops, mo) in enumerate(zip(sm_cases, model)):
        kind = "str" if idx % 2 else "tuple"
        obs = impl_sm(ops, kind)
        canon = " ".join(canon_diff(o) for o in obs)
        out.evaluations += 1
        distinct = len(set(canon.split(" ")))
        out.count("sm.distinct_observations=%d" % min(distinct, 4))
        if distinct >= 2:
            out.nontrivial.add(("sm", canon))
        if len([s for s in out.samples if s.get("op") == "c20.sm"]) < 2 and distinct >= 3:
            out.samples.append({"op": "c20.sm", "ops": sm_line(ops), "result": canon})
        bad = oracle_sm(ops, kind, obs)
        if bad:
            out.violations.append({"what": "AddRemove history (operation %d): %s" % bad,
                                   "input": {"ops": ops, "keykind": kind}, "op": "sm"})
        elif mo is not None and mo != canon:
            out.disagreements.append({"op": "c20.sm", "ops": sm_line(ops), "impl": canon, "model": mo})
    # ---- query sequences on ONE KeyedTuple instance
    kt_cases = gen_kt_cases(ctx, rng)
    lines = ["c20.kt t:%s %s" % (",".join(map(str, ks)), " ".join(qs)) for ks, qs, _ in kt_cases]
    model = C.run_driver_parallel(lines) if ctx.model_ok else [None] * len(lines)
    for idx, ((ks, qs, how), mo) in enumerate(zip(kt_cases, model)):
        kind = "str" if idx % 2 else "tuple"
        ans = impl_kt(ks, qs, kind, how)
        canon = " ".join(ans)
        out.evaluations += 1
        if len(set(ks)) < len(ks):
            out.nontrivial.add(("kt", tuple(ks), how))
        out.count("kt.built_from=%s" % how)
        if len([s for s in out.samples if s.get("op") == "c20.kt"]) < 2 and len(set(ks)) < len(ks) and len(ks) >= 3:
            out.samples.append({"op": "c20.kt", "keys": ks, "queries": " ".join(qs[:24]), "result": " ".join(ans[:24])})
        bad = oracle_kt(ks, qs, ans)
        if bad:
            out.violations.append({"what": "KeyedTuple (query %d): %s" % bad,
                                   "input": {"keys": ks, "queries": qs, "keykind": kind, "how": how}, "op": "kt"})
        elif mo is not None and mo != canon:
            out.disagreements.append({"op": "c20.kt", "keys": ks, "queries": " ".join(qs), "impl": canon, "model": mo})
    # ---- the same outputs under other PYTHONHASHSEED values (str AND tuple keys)
    batch = []
    pick = rng.sample(range(len(ar_cases)), min(len(ar_cases), ctx.n(400, 4000)))
    for i in pick:
        l, r, _ = ar_cases[i]
        for kind in ("str", "tuple"):
            batch.append(["ar", l, r, kind])
    for i in rng.sample(range(len(sm_cases)), min(len(sm_cases), ctx.n(200, 2000))):
        for kind in ("str", "tuple"):
            batch.append(["sm", sm_cases[i], kind])
    for i in rng.sample(range(len(kt_cases)), min(len(kt_cases), ctx.n(60, 600))):
        ks, qs, how = kt_cases[i]
        for kind in ("str", "tuple"):
            batch.append(["kt", ks, qs, kind, how])
    for i in rng.sample(range(len(hp_cases)), min(len(hp_cases), ctx.n(150, 1500))):
        for kind in ("str", "tuple"):
            batch.append(["hp", hp_cases[i], kind])
    here = hs_eval(batch)
    chunk = 400
    chunks = [batch[i:i + chunk] for i in range(0, len(batch), chunk)]
    for seed in HASHSEEDS:
        res = pool.pmap("props.c20", "hs_eval", [[c] for c in chunks], timeout=60.0, batch=1,
                        env={"PYTHONHASHSEED": seed})
        there = []
        for c, r in zip(chunks, res):
            if not isinstance(r, dict) or "r" not in r:
                raise RuntimeError("hashseed worker failed: %r" % (r,))
            there += r["r"]
        for c, a, b in zip(batch, here, there):
            out.evaluations += 1
            if a != b:
                out.violations.append({"what": "result depends on hashing: PYTHONHASHSEED=%s gave %s, PYTHONHASHSEED=%s gave %s" % (
                    os.environ.get("PYTHONHASHSEED", "?"), a, seed, b), "input": {"case": c, "hashseed": seed}, "op": "hashseed"})
        out.count("hashseed=%s" % seed, len(batch))


def run(ctx):
    from compare_locales.keyedtuple import KeyedTuple
    out = Outcome()
    out.rule = ("ar: all pairs of duplicate-free sequences over 5 symbols up to lengths (4,4) quick / (5,5) thorough, plus random "
                "pairs with duplicates over 8 symbols up to length 12; keyed: all key lists over 3 keys up to length 5 "
                "(str and tuple keys) x all queries. non-trivial = both sides non-empty and result contains >= 2 labels; "
                "distinct = distinct (left,right) inputs among those. Round 4: specd = the random pairs with duplicates + pairs of RELATED "
                "sides with duplicates (identical, reversed, shuffled, sub-sequence, edited, doubled) against the native closed form and the "
                "transliteration (non-trivial = a right-only key is repeated); sm = ALL histories of set_left/set_right/iterate "
                "up to length 4 (quick) / 5 (thorough) over 7 operations on ONE AddRemove instance + random histories up to length 12 "
                "(arguments passed as list/tuple/generator/KeyedTuple.keys(); non-trivial = >= 2 distinct observations); kt = every key "
                "list over 3 keys up to length 4/5, built from list/tuple/generator/KeyedTuple, queried TWICE by the full query set "
                "(keys, absent key, every index, slices, unhashable, entity objects, keys/values/items/iter/len/concat) on ONE instance "
                "+ random (non-trivial = duplicate keys); hashseed = samples of all three re-run under PYTHONHASHSEED 1, 2, 4242, random "
                "with str and tuple keys, full outputs compared. Round 5: hp = INTERACTION histories over a heap of objects (several "
                "KeyedTuples, AddRemoves, caller-owned key lists and entity lists; results handed over BY REFERENCE: "
                "ar.set_left(kt.keys()), set_left(list) then the caller mutates the list, list(kt.keys()/values()/items()) then "
                "mutated, ar.left mutated, KeyedTuple(list) then the list mutated, KeyedTuple(kt.values()/items()/kt+ku)): for every "
                "file over 2 keys up to length 3 ALL sequences of <= 2 (thorough: <= 3 on three files with a repeated key) of 26 "
                "interaction operations, each closed by every question to every object, + random sequences over the same alphabet "
                "+ free random histories (up to 4 KeyedTuples, 3 AddRemoves, any lists); oracle by construction: every KeyedTuple "
                "answer = closed form over the entities it was built from and = a fresh KeyedTuple's, every diff = the diff of the "
                "current (or handed-over) contents and = a fresh AddRemove's (non-trivial = a list is mutated after a hand-over and "
                "a KeyedTuple is queried afterwards; distinct observation strings); kt additionally: every ordered pair "
                "(thorough: triple) of first queries on a fresh instance followed by a lookup of every key")
    rng = ctx.rng("c20")
    cases = []
    maxl = 4 if ctx.tier == "quick" else 5
    syms = list(range(5))
    seqs = [p for n in range(maxl + 1) for p in itertools.permutations(syms, n)]
    if ctx.tier == "quick":
        pairs = [(l, r) for l in seqs for r in seqs if len(l) + len(r) <= 7]
    else:
        pairs = [(l, r) for l in seqs for r in seqs if len(l) + len(r) <= 8]
    for l, r in pairs:
        cases.append((list(l), list(r), True))
    for _ in range(ctx.n(3000, 60000)):
        l = [rng.randrange(8) for _ in range(rng.randrange(13))]
        r = [rng.randrange(8) for _ in range(rng.randrange(13))]
        cases.append((l, r, len(set(l)) == len(l) and len(set(r)) == len(r)))
    lines = ["ar t:%s t:%s" % (",".join(map(str, l)), ",".join(map(str, r))) for l, r, _ in cases]
    model = C.run_driver_parallel(lines) if ctx.model_ok else [None] * len(lines)
    lab = {"equal": "e", "delete": "d", "add": "a"}
    for idx, ((l, r, nodup), mo) in enumerate(zip(cases, model)):
        kind = "str" if idx % 2 else "tuple"
        lk = [mk_key(i, kind) for i in l]
        rk = [mk_key(i, kind) for i in r]
        back = {mk_key(i, kind): i for i in set(l) | set(r)}
        res = impl_ar(lk, rk)
        canon = " ".join(lab[a] + str(back[k]) for a, k in res)
        out.evaluations += 1
        labs = {a for a, _ in res}
        if l and r and len(labs) >= 2:
            out.nontrivial.add((tuple(l), tuple(r)))
        out.count("ar.labels=%d" % len(labs))
        if len(out.samples) < 4 and len(labs) == 3:
            out.samples.append({"op": "ar", "left": lk, "right": rk, "result": canon})
        bad = oracle_ar(lk, rk, res) if nodup else None
        if bad:
            out.violations.append({"what": "AddRemove: " + bad, "input": {"left": l, "right": r, "keykind": kind}, "op": "ar"})
        elif mo is not None and mo != canon:
            out.disagreements.append({"op": "ar", "left": l, "right": r, "impl": canon, "model": mo})
    # keyed lookup
    kcases = []
    maxk = 5 if ctx.tier == "quick" else 7
    for n in range(maxk + 1):
        for ks in itertools.product(range(3), repeat=n):
            for q in range(4):
                kcases.append((list(ks), q))
    klines = ["keyed t:%s %d" % (",".join(map(str, ks)), q) for ks, q in kcases]
    kmodel = C.run_driver_parallel(klines) if ctx.model_ok else [None] * len(klines)
    for idx, ((ks, q), mo) in enumerate(zip(kcases, kmodel)):
        kind = "str" if idx % 2 else "tuple"
        ents = [E(mk_key(k, kind), i) for i, k in enumerate(ks)]
        kt = KeyedTuple(ents)
        qk = mk_key(q, kind)
        contains = qk in kt
        try:
            got = kt[qk].n
        except (IndexError, TypeError, KeyError):
            got = None
        out.evaluations += 1
        canon = "%s %s" % ("none" if got is None else got, "true" if contains else "false")
        exp_idx = max([i for i, k in enumerate(ks) if k == q], default=None)
        order_ok = [e.n for e in kt] == list(range(len(ks))) and list(kt.keys()) == [e.key for e in ents] \
            and [v.n for _, v in kt.items()] == list(range(len(ks)))
        if ks.count(q) > 1:
            out.nontrivial.add(("keyed", tuple(ks), q))
        if got != exp_idx or contains != (exp_idx is not None) or not order_ok:
            out.violations.append({"what": "KeyedTuple lookup: got index %r, expected last index %r; contains=%r; order_ok=%r" % (
                got, exp_idx, contains, order_ok), "input": {"keys": ks, "query": q, "keykind": kind}, "op": "keyed"})
        elif mo is not None and mo != canon:
            out.disagreements.append({"op": "keyed", "keys": ks, "q": q, "impl": canon, "model": mo})
        if len(out.samples) < 6 and ks.count(q) > 1:
            out.samples.append({"op": "keyed", "keys": ks, "query": q, "result": canon})
    hp_cases = run_round5(ctx, out, ctx.rng("c20.round5"))
    run_round4(ctx, out, ctx.rng("c20.round4"), cases, hp_cases)
    return out


def replay(payload):
    res = []
    for v in payload.get("violations", []):
        i = v["input"]
        if v.get("op") == "ar":
            lk = [mk_key(x, i["keykind"]) for x in i["left"]]
            rk = [mk_key(x, i["keykind"]) for x in i["right"]]
            r = impl_ar(lk, rk)
            res.append({"input": i, "result": r, "oracle": oracle_diff(lk, rk, r)})
        elif v.get("op") == "sm":
            obs = impl_sm(i["ops"], i["keykind"])
            bad = oracle_sm(i["ops"], i["keykind"], obs)
            res.append({"input": i, "result": " ".join(canon_diff(o) for o in obs), "oracle": bad and "operation %d: %s" % bad})
        elif v.get("op") == "kt":
            ans = impl_kt(i["keys"], i["queries"], i["keykind"], i["how"])
            bad = oracle_kt(i["keys"], i["queries"], ans)
            res.append({"input": i, "result": " ".join(ans), "oracle": bad and "query %d: %s" % bad})
        elif v.get("op") == "hp":
            obs = impl_heap(i["history"], i["keykind"])
            bad = oracle_heap(i["history"], i["keykind"], obs)
            res.append({"input": i, "result": " ".join(o for _, o in obs), "oracle": bad and "operation %d: %s" % bad})
        elif v.get("op") == "hashseed":
            from lib import pool
            here = hs_eval([i["case"]])
            r = pool.pmap("props.c20", "hs_eval", [[[i["case"]]]], timeout=60.0, batch=1, env={"PYTHONHASHSEED": str(i["hashseed"])})
            there = r[0].get("r") if isinstance(r[0], dict) else None
            res.append({"input": i, "result": [here, there], "oracle": None if here == there else "outputs differ"})
        elif v.get("op") == "keyed":
            from compare_locales.keyedtuple import KeyedTuple
            ks, q, kind = i["keys"], i["query"], i["keykind"]
            ents = [E(mk_key(k, kind), n) for n, k in enumerate(ks)]
            kt = KeyedTuple(ents)
            qk = mk_key(q, kind)
            try:
                got = kt[qk].n
            except (IndexError, TypeError, KeyError):
                got = None
            exp = max([n for n, k in enumerate(ks) if k == q], default=None)
            ok = got == exp and (qk in kt) == (exp is not None) and [e.n for e in kt] == list(range(len(ks))) \
                and list(kt.keys()) == [e.key for e in ents] and [v.n for _, v in kt.items()] == list(range(len(ks)))
            res.append({"input": i, "result": got, "oracle": None if ok else "lookup/order wrong"})
    return {"violates": any(r["oracle"] for r in res), "cases": res}

"""C20 — Key-level diff and keyed lookup respect both files' orders."""
import itertools
import os

from lib import common as C
from lib.runner import Outcome

ID = "C20"
LEAN_TARGETS = ["CLModel.Props.C20"]
M = "CLModel.Props.C20"
THEOREMS = [
    (M, "C20.addRemove_eq_spec", "diff of duplicate-free sequences = closed form (left order kept, right-only keys after their anchor)"),
    (M, "C20.ar_anchor", "right-only keys follow the last key preceding them in the second sequence that is also in the first"),
    (M, "C20.ar_keys_perm", "every key of either side occurs exactly once"),
    (M, "C20.ar_keys_nodup", "no key is yielded twice, for ALL inputs (duplicates allowed)"),
    (M, "C20.ar_keys_mem", "the yielded keys are exactly the keys of either side, for ALL inputs"),
    (M, "C20.ar_labels", "labels are decided by membership only, for ALL inputs"),
    (M, "C20.ar_left_order", "the first sequence's order is kept (duplicate-free left, ANY right)"),
    (M, "C20.keyed_last", "keyed lookup returns the last entity with the key"),
    (M, "C20.keyed_contains", "key membership = some entity has the key"),
    # round 4
    (M, "C20.ar_eq_specD", "AddRemove.__iter__ on ANY two sequences (duplicates on either side) = closed form specD: left keys once in "
                           "last-occurrence order, right-only keys once after the anchor of their first occurrence"),
    (M, "C20.specD_nodup", "on duplicate-free sequences the closed form with duplicates is the old closed form"),
    (M, "C20.ar_left_order_dup", "with duplicates on the left, the non-add keys are the left keys once each in last-occurrence order"),
    (M, "C20.ar_anchor_dup", "placement rule on the keys alone for ALL inputs (repeated right-only keys re-activate their first anchor)"),
    (M, "C20.ar_dup_left_only", "if no right-only key is repeated, the diff is the duplicate-free closed form against the left side "
                                "reduced to its last occurrences"),
    (M, "C20.obj_iterate_pure", "AddRemove.__iter__ does not change the object (state = left, right)"),
    (M, "C20.obj_state", "after any history of set_left/set_right/iterate the state is (last set_left arg, last set_right arg)"),
    (M, "C20.obj_trace_spec", "on ONE instance every iteration in every operation sequence yields the closed form of the CURRENT "
                              "left/right (TypeError while a side is None) - history independence"),
    (M, "C20.obj_trace_setter", "set_left/set_right yield nothing"),
    (M, "C20.obj_iterate_repeat", "iterating twice in a row gives the same result twice"),
    (M, "C20.ar_hash_independent", "renaming the keys injectively (hash slot, id, other PYTHONHASHSEED, str->tuple) renames the result "
                                   "and changes neither labels nor order"),
    (M, "C20.kt_immutable", "no KeyedTuple query changes the object"),
    (M, "C20.kt_answers", "every answer in every query sequence on one KeyedTuple = closed form over the entity list alone"),
    (M, "C20.kt_order", "keys(), values() and iteration preserve file order, duplicates included"),
    (M, "C20.kt_items_zip", "items() = zip(keys(), values()) positionally, duplicates included"),
    (M, "C20.kt_items_getElem", "the i-th item is (key of the i-th entity, the i-th entity) - never the last entity with that key"),
    (M, "C20.kt_lookup_last", "kt[key] is e iff e has the key, is in the file, and no later entity has the key"),
    (M, "C20.kt_lookup_missing", "kt[key] for an absent key raises TypeError (tuple.__getitem__(str))"),
    (M, "C20.kt_contains_iff", "key in kt iff some entity has the key"),
    (M, "C20.kt_contains_other", "unhashable / int / slice are never members (lines 34-35 swallow the dict's TypeError); an entity "
                                 "object is a member iff it is an element"),
    (M, "C20.kt_index_slice", "int indexing and slicing bypass the map; slices and sums are plain tuples"),
]
PARTIAL = []
LEVEL_TEXT = ("Lean 4 theorems over an executable transliteration of the AddRemove object (set_left/set_right/__iter__ as a state "
              "machine) and of KeyedTuple (with its __map): for ALL key sequences, duplicates included, the diff equals a closed form; "
              "on ONE instance every iteration of every operation sequence yields the closed form of the current sides; every "
              "KeyedTuple answer in every query sequence equals a closed form over the entity list (lookup = last entity, items = "
              "zip(keys, values)); the result is equivariant under injective key renamings (hash independence); the model is tied "
              "to the Python by exhaustive small + random differential runs of single diffs, operation histories and query "
              "sequences, and an independent oracle checks the property on the implementation, also under other PYTHONHASHSEEDs")
LEVEL_NOTE = ("trusted: Lean kernel; hand-written model of dict/sorted (association list + merge sort) validated by correspondence; "
              "the duplicate-free closed form `spec` needs Nodup (negation witnesses), the general one `specD` does not; "
              "tuple.__getitem__/__contains__/slicing and generator laziness are builtin behaviour, modelled and tied by "
              "correspondence only")
TECHNIQUE = "Lean 4 proof (closed form of the key diff) + differential correspondence with the Python implementation"
TRUSTED = [
    "hand-written model CLModel/Compare/AddRemove.lean of AddRemove.__iter__ and KeyedTuple (tied by the `ar`/`keyed` correspondence)",
    "hand-written models CLModel/Compare/AddRemoveObj.lean (object state machine, tied by `c20.sm`; closed form, tied by `c20.specd`) "
    "and CLModel/Compare/KeyedTuple.lean (object with __map, tuple primitives; tied by `c20.kt`)",
    "Python dict/sorted modelled as association list + stable merge sort",
]
ASSUMPTIONS = ["keys are hashable values with value equality (str or tuple), as produced by the parsers",
               "keys are never ints, slices or entity objects (KeyedTuple model)",
               "callers do not mutate a list after passing it to set_left/set_right (the object aliases list arguments)"]


def impl_ar(left, right):
    from compare_locales.compare.utils import AddRemove
    ar = AddRemove()
    ar.set_left(left)
    ar.set_right(right)
    return list(ar)


def oracle_ar(left, right, res):
    """property oracle for duplicate-free sequences; returns None or a message"""
    keys = [k for _, k in res]
    L, R = set(left), set(right)
    if sorted(keys, key=repr) != sorted(L | R, key=repr) or len(keys) != len(set(keys)):
        return "keys not exactly once"
    for lab, k in res:
        exp = "equal" if (k in L and k in R) else ("delete" if k in L else "add")
        if lab != exp:
            return "label of %r is %s, expected %s" % (k, lab, exp)
    if [k for k in keys if k in L] != list(left):
        return "left order not kept"
    # each right-only key sits after its anchor and before the next left key
    pos = {k: i for i, k in enumerate(keys)}
    anchor = None
    prev_same_anchor = None
    for k in right:
        if k in L:
            anchor = k
            prev_same_anchor = None
            continue
        lo = pos[anchor] if anchor is not None else -1
        if not pos[k] > lo:
            return "right-only %r placed before its anchor %r" % (k, anchor)
        # nothing from left may sit between the anchor and k
        between = keys[lo + 1:pos[k]]
        if any(b in L for b in between):
            return "right-only %r not adjacent to its anchor group" % (k,)
        if prev_same_anchor is not None and pos[prev_same_anchor] > pos[k]:
            return "right-only keys with the same anchor out of order"
        prev_same_anchor = k
    return None


class E:
    def __init__(self, key, n):
        self.key = key
        self.n = n


def mk_key(i, kind):
    if kind == "str":
        return "k%d" % i
    return ("id%d" % i, None if i % 2 else "ctx")


# ===================================================================== round 4
LAB = {"equal": "e", "delete": "d", "add": "a"}


def key_id(k):
    """inverse of mk_key"""
    return int(k[1:]) if isinstance(k, str) else int(k[0][2:])


def dedup_last(seq):
    """each element once, at the position of its LAST occurrence"""
    return list(reversed(list(dict.fromkeys(reversed(list(seq))))))


def oracle_any(left, right, res):
    """what the property demands of ONE diff for ANY two sequences (duplicates allowed): every key of either side
    exactly once, labelled by membership, first sequence's order kept; returns None or a message"""
    keys = [k for _, k in res]
    L, R = set(left), set(right)
    if len(keys) != len(set(keys)):
        return "a key is yielded more than once"
    if set(keys) != (L | R):
        return "yielded keys are not the keys of either side"
    for lab, k in res:
        exp = "equal" if (k in L and k in R) else ("delete" if k in L else "add")
        if lab != exp:
            return "label of %r is %s, expected %s" % (k, lab, exp)
    kept = [k for k in keys if k in L]
    if kept != dedup_last(left) and kept != list(dict.fromkeys(left)):
        # the property only says "keeps the first sequence's order": for a repeated left key either occurrence may stand
        # for it (the code uses the last one - pinned by the correspondence with the model, theorem ar_left_order_dup)
        return "left order not kept"
    return None


def oracle_diff(left, right, res):
    bad = oracle_any(left, right, res)
    if bad is None and len(set(left)) == len(left) and len(set(right)) == len(right):
        bad = oracle_ar(left, right, res)
    return bad


def canon_diff(res):
    if isinstance(res, str):
        return res
    return "[" + ",".join(LAB.get(a, "?" + str(a)) + str(key_id(k)) for a, k in res) + "]"


def wrap_arg(keys, how):
    """the object handed to set_left / set_right"""
    if how == "list":
        return list(keys)
    if how == "tuple":
        return tuple(keys)
    if how == "gen":
        return (k for k in keys)
    from compare_locales.keyedtuple import KeyedTuple       # "keys": what ContentComparer / merge pass
    return KeyedTuple([E(k, i) for i, k in enumerate(keys)]).keys()


def impl_sm(ops, kind):
    """ops on ONE AddRemove instance: ["L", ids, how] | ["R", ids, how] | ["I"]; returns what every I observed"""
    from compare_locales.compare.utils import AddRemove
    ar = AddRemove()
    obs = []
    for op in ops:
        if op[0] == "I":
            try:
                obs.append(list(ar))
            except Exception as e:      # noqa
                obs.append(type(e).__name__)
        elif op[0] == "L":
            ar.set_left(wrap_arg([mk_key(i, kind) for i in op[1]], op[2]))
        else:
            ar.set_right(wrap_arg([mk_key(i, kind) for i in op[1]], op[2]))
    return obs


def oracle_sm(ops, kind, obs):
    """history independence: every iteration = a FRESH object given the current sides, and satisfies the property;
    returns None or (position of the iteration, message)"""
    cur = {"L": None, "R": None}
    j = 0
    for pos, op in enumerate(ops):
        if op[0] != "I":
            cur[op[0]] = [mk_key(i, kind) for i in op[1]]
            continue
        got = obs[j]
        j += 1
        if cur["L"] is None or cur["R"] is None:
            if got != "TypeError":
                return pos, "iteration with an unset side gave %r instead of raising TypeError" % (got,)
            continue
        if isinstance(got, str):
            return pos, "iteration raised %s" % got
        bad = oracle_diff(cur["L"], cur["R"], got)
        if bad:
            return pos, bad
        fresh = impl_ar(list(cur["L"]), list(cur["R"]))
        if got != fresh:
            return pos, "iteration on the used instance differs from a fresh instance with the same sides: %s vs %s" % (
                canon_diff(got), canon_diff(fresh))
    return None


def sm_line(ops):
    toks = []
    for op in ops:
        toks.append("I" if op[0] == "I" else "%s:%s" % (op[0], ",".join(map(str, op[1]))))
    return "c20.sm " + " ".join(toks)


def gen_sm_cases(ctx, rng):
    hows = ["list", "tuple", "gen", "keys"]
    cases = []
    # exhaustive: all histories up to length 4 over 7 operations (both sides have duplicates and right-only keys)
    alphabet = [["L", [0, 1]], ["L", [1, 0, 1]], ["L", []], ["R", [2, 0, 3]], ["R", [3, 1, 3, 2]], ["R", [0]], ["I"]]
    maxlen = 4 if ctx.tier == "quick" else 5
    for n in range(1, maxlen + 1):
        for seq in itertools.product(range(len(alphabet)), repeat=n):
            if 6 not in seq:
                continue
            cases.append([list(alphabet[i]) + ([hows[(i + j) % 4]] if i != 6 else []) for j, i in enumerate(seq)])
    for _ in range(ctx.n(2500, 40000)):
        nsym = rng.choice([3, 5, 8])
        ops = []
        for _ in range(rng.randrange(2, 13)):
            x = rng.random()
            if x < 0.4:
                ops.append(["I"])
            elif x < 0.5 and ops and ops[-1][0] != "I":
                ops.append([("R" if ops[-1][0] == "L" else "L"), list(ops[-1][1]), rng.choice(hows)])   # the other side, identical
            else:
                if rng.random() < 0.5:
                    seq = rng.sample(range(nsym), rng.randrange(0, nsym + 1))
                else:
                    seq = [rng.randrange(nsym) for _ in range(rng.randrange(0, 9))]
                ops.append(["L" if x < 0.7 else "R", seq, rng.choice(hows)])
        if not any(o[0] == "I" for o in ops):
            ops.append(["I"])
        cases.append(ops)
    return cases


# ------------------------------------------------------------------ KeyedTuple as an object
UNHASHABLE = [lambda: [1], lambda: {}, lambda: set()]


def kt_build(ks, kind, how):
    from compare_locales.keyedtuple import KeyedTuple
    ents = [E(mk_key(k, kind), i) for i, k in enumerate(ks)]
    if how == "list":
        kt = KeyedTuple(list(ents))
    elif how == "tuple":
        kt = KeyedTuple(tuple(ents))
    elif how == "gen":
        kt = KeyedTuple(e for e in ents)
    else:
        kt = KeyedTuple(KeyedTuple(ents))
    return kt, ents


def show_val(r):
    if isinstance(r, E):
        return "E%d" % r.n
    if isinstance(r, tuple):
        return "%s[%s]" % (type(r).__name__, ",".join(str(e.n) for e in r))
    return "?%s" % type(r).__name__


def kt_arg(body, ents, kind, salt):
    c = body[0]
    if c == "k":
        return mk_key(int(body[1:]), kind)
    if c == "i":
        return int(body[1:])
    if c == "u":
        return UNHASHABLE[salt % 3]()
    if c == "s":
        lo, hi = body[1:].split(":")
        return slice(int(lo) if lo else None, int(hi) if hi else None)
    k, i = body[1:].split(":")
    k, i = int(k), int(i)
    if i < len(ents) and key_id(ents[i].key) == k:
        return ents[i]                      # the member object itself
    return E(mk_key(k, kind), i)            # some other entity object


def kt_ask(kt, ents, tok, kind, salt=0):
    from compare_locales.keyedtuple import KeyedTuple
    c = tok[0]
    try:
        if c == "g":
            return show_val(kt[kt_arg(tok[1:], ents, kind, salt)])
        if c == "c":
            return "true" if (kt_arg(tok[1:], ents, kind, salt) in kt) else "false"
        if c == "K":
            return "keys[%s]" % ",".join(str(key_id(k)) for k in kt.keys())
        if c == "V":
            return show_val(kt.values())
        if c == "I":
            return "items[%s]" % ",".join("%d:%d" % (key_id(k), v.n) for k, v in kt.items())
        if c == "T":
            return "tuple[%s]" % ",".join(str(e.n) for e in iter(kt))
        if c == "N":
            return str(len(kt))
        if c == "A":
            body = tok[2:]
            other = KeyedTuple([E(mk_key(int(k), kind), 100 + i) for i, k in enumerate(body.split(",") if body else [])])
            return show_val(kt + other)
    except Exception as e:      # noqa
        return type(e).__name__
    return "?"


def impl_kt(ks, qs, kind, how):
    kt, ents = kt_build(ks, kind, how)
    return [kt_ask(kt, ents, q, kind, j) for j, q in enumerate(qs)]


def oracle_kt(ks, qs, ans):
    """the property on one KeyedTuple queried by a sequence; returns None or (position, message)"""
    n = len(ks)
    first = {}
    for pos, (q, a) in enumerate(zip(qs, ans)):
        if q in first and first[q] != a:
            return pos, "query %s answered %s, earlier on the same instance %s" % (q, a, first[q])
        first.setdefault(q, a)
        exp = None
        if q.startswith("gk"):
            idx = [i for i, k in enumerate(ks) if k == int(q[2:])]
            if idx:
                exp = "E%d" % idx[-1]
            elif a[:1] == "E" and a[1:].isdigit() or "[" in a:
                return pos, "lookup of an absent key returned %s" % a
        elif q.startswith("ck"):
            exp = "true" if int(q[2:]) in ks else "false"
        elif q.startswith("gi"):
            i = int(q[2:])
            exp = "E%d" % (i % n) if -n <= i < n else "IndexError"
        elif q == "K":
            exp = "keys[%s]" % ",".join(map(str, ks))
        elif q == "I":
            exp = "items[%s]" % ",".join("%d:%d" % (k, i) for i, k in enumerate(ks))
        elif q == "T":
            exp = "tuple[%s]" % ",".join(map(str, range(n)))
        elif q == "V":
            if a[a.find("["):] != "[%s]" % ",".join(map(str, range(n))):
                return pos, "values() gave %s" % a
        elif q == "N":
            exp = str(n)
        if exp is not None and a != exp:
            return pos, "%s gave %s, expected %s" % (q, a, exp)
    return None


def kt_base_queries(n, nkeys):
    qs = []
    for k in range(nkeys + 1):
        qs += ["gk%d" % k, "ck%d" % k]
    qs += ["gi%d" % i for i in range(-n - 1, n + 2)]
    qs += ["gs:", "gs1:", "gs:-1", "gs1:3", "gs-2:", "gs3:1", "gs-9:9", "gu", "cu", "ci0", "cs:", "ge0:0", "ce0:0", "ce1:0",
           "ce%d:%d" % (nkeys, n), "K", "V", "I", "T", "N", "A:", "A:0,%d" % nkeys]
    return qs


def gen_kt_cases(ctx, rng):
    hows = ["list", "tuple", "gen", "kt"]
    cases = []
    maxn = 4 if ctx.tier == "quick" else 5
    for n in range(maxn + 1):
        for ks in itertools.product(range(3), repeat=n):
            base = kt_base_queries(n, 3)
            again = list(base)
            rng.shuffle(again)
            cases.append((list(ks), base + again))
    for _ in range(ctx.n(300, 6000)):
        nk = rng.choice([2, 4, 6])
        ks = [rng.randrange(nk) for _ in range(rng.randrange(0, 11))]
        base = kt_base_queries(len(ks), nk)
        qs = [rng.choice(base) for _ in range(rng.randrange(5, 40))]
        cases.append((ks, qs))
    return [(ks, qs, hows[i % 4]) for i, (ks, qs) in enumerate(cases)]


# ------------------------------------------------------------------ other PYTHONHASHSEEDs (runs in a worker)
def hs_eval(batch):
    """canonical outputs of a batch of cases; executed in worker processes started with another PYTHONHASHSEED"""
    out = []
    for c in batch:
        if c[0] == "ar":
            _, l, r, kind = c
            out.append(canon_diff(impl_ar([mk_key(i, kind) for i in l], [mk_key(i, kind) for i in r])))
        elif c[0] == "sm":
            _, ops, kind = c
            out.append(" ".join(canon_diff(o) for o in impl_sm(ops, kind)))
        else:
            _, ks, qs, kind, how = c
            out.append(" ".join(impl_kt(ks, qs, kind, how)))
    return out


HASHSEEDS = ["1", "2", "4242", "random"]


def run_round4(ctx, out, rng, ar_cases):
    from lib import pool
    # ---- the closed form with duplicates, natively, against the implementation (random pairs of the `ar` stream)
    dup_cases = [(l, r) for l, r, nodup in ar_cases if not nodup]
    # related sides (what comparing two versions of one file looks like): identical, reversed, shuffled, edited, doubled
    for _ in range(ctx.n(2000, 30000)):
        nsym = rng.choice([3, 5, 8])
        l = [rng.randrange(nsym) for _ in range(rng.randrange(1, 11))]
        mode = rng.randrange(6)
        if mode == 0:
            r = list(l)
        elif mode == 1:
            r = l[::-1]
        elif mode == 2:
            r = list(l)
            rng.shuffle(r)
        elif mode == 3:
            r = [x for x in l if rng.random() < 0.7]
        elif mode == 4:
            r = list(l)
            for _ in range(rng.randrange(1, 4)):
                r.insert(rng.randrange(len(r) + 1), rng.randrange(nsym + 2))
        else:
            r = l + l
        dup_cases.append((l, r))
    lines = ["c20.specd t:%s t:%s" % (",".join(map(str, l)), ",".join(map(str, r))) for l, r in dup_cases]
    model = C.run_driver_parallel(lines) if ctx.model_ok else [None] * len(lines)
    model_ar = C.run_driver_parallel(["ar" + ln[len("c20.specd"):] for ln in lines]) if ctx.model_ok else [None] * len(lines)
    for idx, ((l, r), mo, mo2) in enumerate(zip(dup_cases, model, model_ar)):
        kind = "str" if idx % 2 else "tuple"
        lk = [mk_key(i, kind) for i in l]
        rk = [mk_key(i, kind) for i in r]
        res = impl_ar(lk, rk)
        out.evaluations += 1
        bad = oracle_any(lk, rk, res)
        canon = canon_diff(res)
        rightonly = [x for x in r if x not in l]
        quirk = len(rightonly) != len(set(rightonly))
        out.count("specd.repeated_right_only=%s" % quirk)
        if quirk:
            out.nontrivial.add(("specd", tuple(l), tuple(r)))
        if bad:
            out.violations.append({"what": "AddRemove (duplicates): " + bad, "input": {"left": l, "right": r, "keykind": kind}, "op": "ar"})
        elif mo is not None and mo != canon:
            out.disagreements.append({"op": "c20.specd", "left": l, "right": r, "impl": canon, "model": mo})
        elif mo2 is not None and "[" + mo2.replace(" ", ",") + "]" != canon:
            out.disagreements.append({"op": "ar", "left": l, "right": r, "impl": canon, "model": mo2})
    # ---- histories on ONE AddRemove instance
    sm_cases = gen_sm_cases(ctx, rng)
    lines = [sm_line(ops) for ops in sm_cases]
    model = C.run_driver_parallel(lines) if ctx.model_ok else [None] * len(lines)
    for idx, (ops, mo) in enumerate(zip(sm_cases, model)):
        kind = "str" if idx % 2 else "tuple"
        obs = impl_sm(ops, kind)
        canon = " ".join(canon_diff(o) for o in obs)
        out.evaluations += 1
        distinct = len(set(canon.split(" ")))
        out.count("sm.distinct_observations=%d" % min(distinct, 4))
        if distinct >= 2:
            out.nontrivial.add(("sm", canon))
        if len([s for s in out.samples if s.get("op") == "c20.sm"]) < 2 and distinct >= 3:
            out.samples.append({"op": "c20.sm", "ops": sm_line(ops), "result": canon})
        bad = oracle_sm(ops, kind, obs)
        if bad:
            out.violations.append({"what": "AddRemove history (operation %d): %s" % bad,
                                   "input": {"ops": ops, "keykind": kind}, "op": "sm"})
        elif mo is not None and mo != canon:
            out.disagreements.append({"op": "c20.sm", "ops": sm_line(ops), "impl": canon, "model": mo})
    # ---- query sequences on ONE KeyedTuple instance
    kt_cases = gen_kt_cases(ctx, rng)
    lines = ["c20.kt t:%s %s" % (",".join(map(str, ks)), " ".join(qs)) for ks, qs, _ in kt_cases]
    model = C.run_driver_parallel(lines) if ctx.model_ok else [None] * len(lines)
    for idx, ((ks, qs, how), mo) in enumerate(zip(kt_cases, model)):
        kind = "str" if idx % 2 else "tuple"
        ans = impl_kt(ks, qs, kind, how)
        canon = " ".join(ans)
        out.evaluations += 1
        if len(set(ks)) < len(ks):
            out.nontrivial.add(("kt", tuple(ks), how))
        out.count("kt.built_from=%s" % how)
        if len([s for s in out.samples if s.get("op") == "c20.kt"]) < 2 and len(set(ks)) < len(ks) and len(ks) >= 3:
            out.samples.append({"op": "c20.kt", "keys": ks, "queries": " ".join(qs[:24]), "result": " ".join(ans[:24])})
        bad = oracle_kt(ks, qs, ans)
        if bad:
            out.violations.append({"what": "KeyedTuple (query %d): %s" % bad,
                                   "input": {"keys": ks, "queries": qs, "keykind": kind, "how": how}, "op": "kt"})
        elif mo is not None and mo != canon:
            out.disagreements.append({"op": "c20.kt", "keys": ks, "queries": " ".join(qs), "impl": canon, "model": mo})
    # ---- the same outputs under other PYTHONHASHSEED values (str AND tuple keys)
    batch = []
    pick = rng.sample(range(len(ar_cases)), min(len(ar_cases), ctx.n(400, 4000)))
    for i in pick:
        l, r, _ = ar_cases[i]
        for kind in ("str", "tuple"):
            batch.append(["ar", l, r, kind])
    for i in rng.sample(range(len(sm_cases)), min(len(sm_cases), ctx.n(200, 2000))):
        for kind in ("str", "tuple"):
            batch.append(["sm", sm_cases[i], kind])
    for i in rng.sample(range(len(kt_cases)), min(len(kt_cases), ctx.n(60, 600))):
        ks, qs, how = kt_cases[i]
        for kind in ("str", "tuple"):
            batch.append(["kt", ks, qs, kind, how])
    here = hs_eval(batch)
    chunk = 400
    chunks = [batch[i:i + chunk] for i in range(0, len(batch), chunk)]
    for seed in HASHSEEDS:
        res = pool.pmap("props.c20", "hs_eval", [[c] for c in chunks], timeout=60.0, batch=1,
                        env={"PYTHONHASHSEED": seed})
        there = []
        for c, r in zip(chunks, res):
            if not isinstance(r, dict) or "r" not in r:
                raise RuntimeError("hashseed worker failed: %r" % (r,))
            there += r["r"]
        for c, a, b in zip(batch, here, there):
            out.evaluations += 1
            if a != b:
                out.violations.append({"what": "result depends on hashing: PYTHONHASHSEED=%s gave %s, PYTHONHASHSEED=%s gave %s" % (
                    os.environ.get("PYTHONHASHSEED", "?"), a, seed, b), "input": {"case": c, "hashseed": seed}, "op": "hashseed"})
        out.count("hashseed=%s" % seed, len(batch))


def run(ctx):
    from compare_locales.keyedtuple import KeyedTuple
    out = Outcome()
    out.rule = ("ar: all pairs of duplicate-free sequences over 5 symbols up to lengths (4,4) quick / (5,5) thorough, plus random "
                "pairs with duplicates over 8 symbols up to length 12; keyed: all key lists over 3 keys up to length 5 "
                "(str and tuple keys) x all queries. non-trivial = both sides non-empty and result contains >= 2 labels; "
                "distinct = distinct (left,right) inputs among those. Round 4: specd = the random pairs with duplicates + pairs of RELATED "
                "sides with duplicates (identical, reversed, shuffled, sub-sequence, edited, doubled) against the native closed form and the "
                "transliteration (non-trivial = a right-only key is repeated); sm = ALL histories of set_left/set_right/iterate "
                "up to length 4 (quick) / 5 (thorough) over 7 operations on ONE AddRemove instance + random histories up to length 12 "
                "(arguments passed as list/tuple/generator/KeyedTuple.keys(); non-trivial = >= 2 distinct observations); kt = every key "
                "list over 3 keys up to length 4/5, built from list/tuple/generator/KeyedTuple, queried TWICE by the full query set "
                "(keys, absent key, every index, slices, unhashable, entity objects, keys/values/items/iter/len/concat) on ONE instance "
                "+ random (non-trivial = duplicate keys); hashseed = samples of all three re-run under PYTHONHASHSEED 1, 2, 4242, random "
                "with str and tuple keys, full outputs compared")
    rng = ctx.rng("c20")
    cases = []
    maxl = 4 if ctx.tier == "quick" else 5
    syms = list(range(5))
    seqs = [p for n in range(maxl + 1) for p in itertools.permutations(syms, n)]
    if ctx.tier == "quick":
        pairs = [(l, r) for l in seqs for r in seqs if len(l) + len(r) <= 7]
    else:
        pairs = [(l, r) for l in seqs for r in seqs if len(l) + len(r) <= 8]
    for l, r in pairs:
        cases.append((list(l), list(r), True))
    for _ in range(ctx.n(3000, 60000)):
        l = [rng.randrange(8) for _ in range(rng.randrange(13))]
        r = [rng.randrange(8) for _ in range(rng.randrange(13))]
        cases.append((l, r, len(set(l)) == len(l) and len(set(r)) == len(r)))
    lines = ["ar t:%s t:%s" % (",".join(map(str, l)), ",".join(map(str, r))) for l, r, _ in cases]
    model = C.run_driver_parallel(lines) if ctx.model_ok else [None] * len(lines)
    lab = {"equal": "e", "delete": "d", "add": "a"}
    for idx, ((l, r, nodup), mo) in enumerate(zip(cases, model)):
        kind = "str" if idx % 2 else "tuple"
        lk = [mk_key(i, kind) for i in l]
        rk = [mk_key(i, kind) for i in r]
        back = {mk_key(i, kind): i for i in set(l) | set(r)}
        res = impl_ar(lk, rk)
        canon = " ".join(lab[a] + str(back[k]) for a, k in res)
        out.evaluations += 1
        labs = {a for a, _ in res}
        if l and r and len(labs) >= 2:
            out.nontrivial.add((tuple(l), tuple(r)))
        out.count("ar.labels=%d" % len(labs))
        if len(out.samples) < 4 and len(labs) == 3:
            out.samples.append({"op": "ar", "left": lk, "right": rk, "result": canon})
        bad = oracle_ar(lk, rk, res) if nodup else None
        if bad:
            out.violations.append({"what": "AddRemove: " + bad, "input": {"left": l, "right": r, "keykind": kind}, "op": "ar"})
        elif mo is not None and mo != canon:
            out.disagreements.append({"op": "ar", "left": l, "right": r, "impl": canon, "model": mo})
    # keyed lookup
    kcases = []
    maxk = 5 if ctx.tier == "quick" else 7
    for n in range(maxk + 1):
        for ks in itertools.product(range(3), repeat=n):
            for q in range(4):
                kcases.append((list(ks), q))
    klines = ["keyed t:%s %d" % (",".join(map(str, ks)), q) for ks, q in kcases]
    kmodel = C.run_driver_parallel(klines) if ctx.model_ok else [None] * len(klines)
    for idx, ((ks, q), mo) in enumerate(zip(kcases, kmodel)):
        kind = "str" if idx % 2 else "tuple"
        ents = [E(mk_key(k, kind), i) for i, k in enumerate(ks)]
        kt = KeyedTuple(ents)
        qk = mk_key(q, kind)
        contains = qk in kt
        try:
            got = kt[qk].n
        except (IndexError, TypeError, KeyError):
            got = None
        out.evaluations += 1
        canon = "%s %s" % ("none" if got is None else got, "true" if contains else "false")
        exp_idx = max([i for i, k in enumerate(ks) if k == q], default=None)
        order_ok = [e.n for e in kt] == list(range(len(ks))) and list(kt.keys()) == [e.key for e in ents] \
            and [v.n for _, v in kt.items()] == list(range(len(ks)))
        if ks.count(q) > 1:
            out.nontrivial.add(("keyed", tuple(ks), q))
        if got != exp_idx or contains != (exp_idx is not None) or not order_ok:
            out.violations.append({"what": "KeyedTuple lookup: got index %r, expected last index %r; contains=%r; order_ok=%r" % (
                got, exp_idx, contains, order_ok), "input": {"keys": ks, "query": q, "keykind": kind}, "op": "keyed"})
        elif mo is not None and mo != canon:
            out.disagreements.append({"op": "keyed", "keys": ks, "q": q, "impl": canon, "model": mo})
        if len(out.samples) < 6 and ks.count(q) > 1:
            out.samples.append({"op": "keyed", "keys": ks, "query": q, "result": canon})
    run_round4(ctx, out, ctx.rng("c20.round4"), cases)
    return out


def replay(payload):
    res = []
    for v in payload.get("violations", []):
        i = v["input"]
        if v.get("op") == "ar":
            lk = [mk_key(x, i["keykind"]) for x in i["left"]]
            rk = [mk_key(x, i["keykind"]) for x in i["right"]]
            r = impl_ar(lk, rk)
            res.append({"input": i, "result": r, "oracle": oracle_diff(lk, rk, r)})
        elif v.get("op") == "sm":
            obs = impl_sm(i["ops"], i["keykind"])
            bad = oracle_sm(i["ops"], i["keykind"], obs)
            res.append({"input": i, "result": " ".join(canon_diff(o) for o in obs), "oracle": bad and "operation %d: %s" % bad})
        elif v.get("op") == "kt":
            ans = impl_kt(i["keys"], i["queries"], i["keykind"], i["how"])
            bad = oracle_kt(i["keys"], i["queries"], ans)
            res.append({"input": i, "result": " ".join(ans), "oracle": bad and "query %d: %s" % bad})
        elif v.get("op") == "hashseed":
            from lib import pool
            here = hs_eval([i["case"]])
            r = pool.pmap("props.c20", "hs_eval", [[[i["case"]]]], timeout=60.0, batch=1, env={"PYTHONHASHSEED": str(i["hashseed"])})
            there = r[0].get("r") if isinstance(r[0], dict) else None
            res.append({"input": i, "result": [here, there], "oracle": None if here == there else "outputs differ"})
        elif v.get("op") == "keyed":
            from compare_locales.keyedtuple import KeyedTuple
            ks, q, kind = i["keys"], i["query"], i["keykind"]
            ents = [E(mk_key(k, kind), n) for n, k in enumerate(ks)]
            kt = KeyedTuple(ents)
            qk = mk_key(q, kind)
            try:
                got = kt[qk].n
            except (IndexError, TypeError, KeyError):
                got = None
            exp = max([n for n, k in enumerate(ks) if k == q], default=None)
            ok = got == exp and (qk in kt) == (exp is not None) and [e.n for e in kt] == list(range(len(ks))) \
                and list(kt.keys()) == [e.key for e in ents] and [v.n for _, v in kt.items()] == list(range(len(ks)))
            res.append({"input": i, "result": got, "oracle": None if ok else "lookup/order wrong"})
    return {"violates": any(r["oracle"] for r in res), "cases": res}

"""C20 — Key-level diff and keyed lookup respect both files' orders."""
import itertools

from lib import common as C
from lib.runner import Outcome

ID = "C20"
LEAN_TARGETS = ["CLModel.Props.C20"]
M = "CLModel.Props.C20"
THEOREMS = [
    (M, "C20.addRemove_eq_spec", "diff of duplicate-free sequences = closed form (left order kept, right-only keys after their anchor)"),
    (M, "C20.ar_anchor", "right-only keys follow the last key preceding them in the second sequence that is also in the first"),
    (M, "C20.ar_keys_perm", "every key of either side occurs exactly once"),
    (M, "C20.ar_keys_nodup", "no key is yielded twice"),
    (M, "C20.ar_labels", "labels are decided by membership only"),
    (M, "C20.ar_left_order", "the first sequence's order is kept"),
    (M, "C20.keyed_last", "keyed lookup returns the last entity with the key"),
    (M, "C20.keyed_contains", "key membership = some entity has the key"),
]
PARTIAL = []
LEVEL_TEXT = ("Lean 4 theorems over an executable transliteration of AddRemove.__iter__ and KeyedTuple: for ALL duplicate-free key "
              "sequences the diff equals a closed form (each key once, labels by membership, left order kept, right-only keys after "
              "their anchor) and keyed lookup returns the last entity; the model is tied to the Python by exhaustive small + random "
              "differential runs, and an independent oracle checks the property on the implementation")
LEVEL_NOTE = ("trusted: Lean kernel; hand-written model of dict/sorted (association list + merge sort) validated by correspondence; "
              "theorems need duplicate-free sequences (negation witnesses show why); hashing independence is by construction of the model "
              "and by running str and tuple keys")
TECHNIQUE = "Lean 4 proof (closed form of the key diff) + differential correspondence with the Python implementation"
TRUSTED = [
    "hand-written model CLModel/Compare/AddRemove.lean of AddRemove.__iter__ and KeyedTuple (tied by the `ar`/`keyed` correspondence)",
    "Python dict/sorted modelled as association list + stable merge sort",
]
ASSUMPTIONS = ["keys are hashable values with value equality (str or tuple), as produced by the parsers"]


def impl_ar(left, right):
    from compare_locales.compare.utils import AddRemove
    ar = AddRemove()
    ar.set_left(left)
    ar.set_right(right)
    return list(ar)


def oracle_ar(left, right, res):
    """property oracle for duplicate-free sequences; returns None or a message"""
    keys = [k for _, k in res]
    L, R = set(left), set(right)
    if sorted(keys, key=repr) != sorted(L | R, key=repr) or len(keys) != len(set(keys)):
        return "keys not exactly once"
    for lab, k in res:
        exp = "equal" if (k in L and k in R) else ("delete" if k in L else "add")
        if lab != exp:
            return "label of %r is %s, expected %s" % (k, lab, exp)
    if [k for k in keys if k in L] != list(left):
        return "left order not kept"
    # each right-only key sits after its anchor and before the next left key
    pos = {k: i for i, k in enumerate(keys)}
    anchor = None
    prev_same_anchor = None
    for k in right:
        if k in L:
            anchor = k
            prev_same_anchor = None
            continue
        lo = pos[anchor] if anchor is not None else -1
        if not pos[k] > lo:
            return "right-only %r placed before its anchor %r" % (k, anchor)
        # nothing from left may sit between the anchor and k
        between = keys[lo + 1:pos[k]]
        if any(b in L for b in between):
            return "right-only %r not adjacent to its anchor group" % (k,)
        if prev_same_anchor is not None and pos[prev_same_anchor] > pos[k]:
            return "right-only keys with the same anchor out of order"
        prev_same_anchor = k
    return None


class E:
    def __init__(self, key, n):
        self.key = key
        self.n = n


def mk_key(i, kind):
    if kind == "str":
        return "k%d" % i
    return ("id%d" % i, None if i % 2 else "ctx")


def run(ctx):
    from compare_locales.keyedtuple import KeyedTuple
    out = Outcome()
    out.rule = ("ar: all pairs of duplicate-free sequences over 5 symbols up to lengths (4,4) quick / (5,5) thorough, plus random "
                "pairs with duplicates over 8 symbols up to length 12; keyed: all key lists over 3 keys up to length 5 "
                "(str and tuple keys) x all queries. non-trivial = both sides non-empty and result contains >= 2 labels; "
                "distinct = distinct (left,right) inputs among those")
    rng = ctx.rng("c20")
    cases = []
    maxl = 4 if ctx.tier == "quick" else 5
    syms = list(range(5))
    seqs = [p for n in range(maxl + 1) for p in itertools.permutations(syms, n)]
    if ctx.tier == "quick":
        pairs = [(l, r) for l in seqs for r in seqs if len(l) + len(r) <= 7]
    else:
        pairs = [(l, r) for l in seqs for r in seqs if len(l) + len(r) <= 8]
    for l, r in pairs:
        cases.append((list(l), list(r), True))
    for _ in range(ctx.n(3000, 60000)):
        l = [rng.randrange(8) for _ in range(rng.randrange(13))]
        r = [rng.randrange(8) for _ in range(rng.randrange(13))]
        cases.append((l, r, len(set(l)) == len(l) and len(set(r)) == len(r)))
    lines = ["ar t:%s t:%s" % (",".join(map(str, l)), ",".join(map(str, r))) for l, r, _ in cases]
    model = C.run_driver_parallel(lines) if ctx.model_ok else [None] * len(lines)
    lab = {"equal": "e", "delete": "d", "add": "a"}
    for idx, ((l, r, nodup), mo) in enumerate(zip(cases, model)):
        kind = "str" if idx % 2 else "tuple"
        lk = [mk_key(i, kind) for i in l]
        rk = [mk_key(i, kind) for i in r]
        back = {mk_key(i, kind): i for i in set(l) | set(r)}
        res = impl_ar(lk, rk)
        canon = " ".join(lab[a] + str(back[k]) for a, k in res)
        out.evaluations += 1
        labs = {a for a, _ in res}
        if l and r and len(labs) >= 2:
            out.nontrivial.add((tuple(l), tuple(r)))
        out.count("ar.labels=%d" % len(labs))
        if len(out.samples) < 4 and len(labs) == 3:
            out.samples.append({"op": "ar", "left": lk, "right": rk, "result": canon})
        bad = oracle_ar(lk, rk, res) if nodup else None
        if bad:
            out.violations.append({"what": "AddRemove: " + bad, "input": {"left": l, "right": r, "keykind": kind}, "op": "ar"})
        elif mo is not None and mo != canon:
            out.disagreements.append({"op": "ar", "left": l, "right": r, "impl": canon, "model": mo})
    # keyed lookup
    kcases = []
    maxk = 5 if ctx.tier == "quick" else 7
    for n in range(maxk + 1):
        for ks in itertools.product(range(3), repeat=n):
            for q in range(4):
                kcases.append((list(ks), q))
    klines = ["keyed t:%s %d" % (",".join(map(str, ks)), q) for ks, q in kcases]
    kmodel = C.run_driver_parallel(klines) if ctx.model_ok else [None] * len(klines)
    for idx, ((ks, q), mo) in enumerate(zip(kcases, kmodel)):
        kind = "str" if idx % 2 else "tuple"
        ents = [E(mk_key(k, kind), i) for i, k in enumerate(ks)]
        kt = KeyedTuple(ents)
        qk = mk_key(q, kind)
        contains = qk in kt
        try:
            got = kt[qk].n
        except (IndexError, TypeError, KeyError):
            got = None
        out.evaluations += 1
        canon = "%s %s" % ("none" if got is None else got, "true" if contains else "false")
        exp_idx = max([i for i, k in enumerate(ks) if k == q], default=None)
        order_ok = [e.n for e in kt] == list(range(len(ks))) and list(kt.keys()) == [e.key for e in ents] \
            and [v.n for _, v in kt.items()] == list(range(len(ks)))
        if ks.count(q) > 1:
            out.nontrivial.add(("keyed", tuple(ks), q))
        if got != exp_idx or contains != (exp_idx is not None) or not order_ok:
            out.violations.append({"what": "KeyedTuple lookup: got index %r, expected last index %r; contains=%r; order_ok=%r" % (
                got, exp_idx, contains, order_ok), "input": {"keys": ks, "query": q, "keykind": kind}, "op": "keyed"})
        elif mo is not None and mo != canon:
            out.disagreements.append({"op": "keyed", "keys": ks, "q": q, "impl": canon, "model": mo})
        if len(out.samples) < 6 and ks.count(q) > 1:
            out.samples.append({"op": "keyed", "keys": ks, "query": q, "result": canon})
    return out


def replay(payload):
    res = []
    for v in payload.get("violations", []):
        i = v["input"]
        if v.get("op") == "ar":
            lk = [mk_key(x, i["keykind"]) for x in i["left"]]
            rk = [mk_key(x, i["keykind"]) for x in i["right"]]
            r = impl_ar(lk, rk)
            res.append({"input": i, "result": r, "oracle": oracle_ar(lk, rk, r)})
    return {"violates": any(r["oracle"] for r in res), "cases": res}

"""C16 — Serializer writes exactly the requested translations, in reference order."""
import re

from lib import common as C
from lib import pool
from lib.runner import Outcome
from impl import c16gen as G

ID = "C16"
LEAN_TARGETS = ["CLModel.Props.C16"]
M = "CLModel.Props.C16"
THEOREMS = [
    (M, "C16.serialized_entities", "closed form: the entities of the output are, for every reference key in reference order, the wrapped new value if one was given, else the old entity unless obsolete/removed"),
    (M, "C16.serialized_keys", "entity keys of the output = reference keys with a new value or a kept old value, in reference order"),
    (M, "C16.serialized_values", "each output entity carries the new value if one was given, the old one otherwise"),
    (M, "C16.nothing_foreign", "every output entry is a wrapped new value, a kept non-junk old entry or a non-entity reference entry: no placeholder, no reference entity, no obsolete/removed entity, no junk"),
    (M, "C16.no_placeholder", "no PlaceholderEntity survives"),
    (M, "C16.wrap_spec", "wrap replaces exactly the value span of the reference entity's text"),
    (M, "C16.wrap_unwrap", "wrapping an entity's own raw value gives back its text"),
    (M, "C16.idempotent_entities", "serializing the output entries again with no new data yields the same entities"),
    (M, "C16.serialize_reparses_properties_partial", "RE-PARSE (.properties, printed safe records, distinct keys per file, safe new values): the text "
        "serialize returns is parsed by PropertiesParser.walk without junk into exactly the expected records — reference keys with a new value or a "
        "kept old value, in reference order, each with the new value if given else the old one"),
    (M, "C16.serialize_reparses_ini_partial", "RE-PARSE (.ini, `[sec]` + printed safe ini records, same section in reference and old file, distinct keys none equal "
        "to the section name, new values without newline): IniParser.walk parses the output without junk into the section and exactly the expected records"),
    (M, "C16.serialize_reparses_ini_new_partial", "the same for a new localization (empty old file): section and exactly the reference keys that have a new value"),
    (M, "C16.serialized_shape", "for ALL entry lists: if in the template dict and in the sanitized old dict every non-whitespace key is directly followed "
        "by a Whitespace object, the same holds for the serialized entry list (no entity is glued to a neighbouring entry)"),
]
PARTIAL = [
    "'parses without junk' (re-parse of the produced text) is a THEOREM only for .properties and .ini on the class of printed safe records "
    "(serialize_reparses_properties_partial: reference and old file are `key=value\\n` per record with safe keys/values and distinct keys per file, "
    "new values for reference keys are safe; no comments, blank lines, junk, escapes, missing final newline; serialize_reparses_ini_partial: the same "
    "under one `[section]` header shared by reference and old file, no key equal to the section name); for every other layout and the other "
    "four formats it is checked by the oracle with the real parsers and by the end-to-end correspondence; it is false for the inputs of the findings "
    "C16-inc-leading-blank, C16-inc-blank-lines, C16-dtd-quote-conflict, C16-old-eof-comment-glued, C16-inc-reference-without-value "
    "(negation witness for the old-file hypothesis = C16-old-eof-comment-glued, evaluated in Props/C16.lean; witnesses for distinct keys and safe values there too)",
    "Fluent and Android `wrap` (fluent.syntax serialize_comment, minidom cloneNode/toxml) are external: oracle only",
    "idempotent_entities is at entry level: that re-parsing the text gives the same entries back is by correspondence/oracle",
    "theorems about keys/values assume new_data is a dict (duplicate-free keys; negation witness in Props/C16.lean); wrap_spec assumes the value span "
    "lies inside the entity span (negation witness: .inc `#define k` stores (-1,-1); probed on the real code = finding C16-inc-reference-without-value)",
]
LEVEL_TEXT = ("Lean 4 theorems over an executable transliteration of serializer.serialize / sanitize_old / placeholder / prune_placeholders, "
              "Entity.wrap and merge.merge_resources(keep_newest=False) (on top of the proved closed form of AddRemove): for ALL entry lists the "
              "entities of the output are exactly the reference keys with a new or kept old value, in reference order, with the right values, "
              "nothing foreign, idempotent; the model (including the regex parsers' walk) is tied to the Python by exhaustive small + random "
              "differential runs on properties/dtd/ini/inc, and an independent oracle re-parses the real output for all six formats")
LEVEL_NOTE = ("trusted: Lean kernel; hand-written model validated by correspondence; re-parse claims ('parses without junk') are proved for .properties / .ini on "
              "printed safe records only, oracle/correspondence elsewhere; "
              "Fluent/Android wrap are external libraries (oracle only); theorems assume new_data is a dict (duplicate-free keys)")
TECHNIQUE = "Lean 4 proof over executable model + differential correspondence + re-parse oracle on the implementation"
TRUSTED = [
    "hand-written model CLModel/Serialize/Serializer.lean of serializer.py, merge.py (merge_resources/merge_two/get_older_entity/prune), base.Entity.wrap (tied by the `ser`/`ser.ents` correspondence)",
    "parser models CLModel/Parser/{Base,Formats}.lean (C01) used to obtain entries for the end-to-end `ser` correspondence",
    "Python dict/OrderedDict modelled as association list; object identity of Whitespace keys modelled as (resource, index)",
]
ASSUMPTIONS = [
    "reference files are well-formed (no junk) with distinct keys; old files may contain junk, obsolete keys and lack the final newline",
    "raw values are entity.unwrap() of a parsed one-entity file of the same format",
    "Fluent values are compared without their comments (wrap re-creates the reference comment)",
]

EN_RE = re.compile(r"EN(k|obs|unk)\d")


# ------------------------------------------------------------------ oracle
def oracle(case, r):
    """Checks the property's claim on the implementation's results only.
    Returns (list of failure strings, expected entities or None when the case is not judged)."""
    if r.get("exc") == "Hang":
        return ["serialize does not terminate"], None
    if "exc" in r:
        return ["serialize raised %s: %s" % (r["exc"], r.get("msg"))], None
    v = r["r"]
    fmt = case["fmt"]
    ref_e = [(k, val) for kind, k, val in v["ref"] if kind == "E"]
    old_e = [(k, val) for kind, k, val in v["old"] if kind == "E"]
    if any(kind == "J" for kind, _, _ in v["ref"]):
        return [], None                      # reference with junk: outside the judged domain
    rkeys = [k for k, _ in ref_e]
    okeys = [k for k, _ in old_e]
    if len(set(rkeys)) != len(rkeys) or len(set(okeys)) != len(okeys):
        return [], None                      # duplicate keys: "the" old value is not defined by the property
    new = {}
    for k, val in case["new"]:
        new[k] = val
    newval = dict((k, val) for k, val in v["new_values"]) if fmt == "ftl" else new
    oldmap = dict(old_e)
    expected = []
    for k in rkeys:
        if k in new and new[k] is not None:
            expected.append([k, newval[k]])
        elif k in oldmap and not (k in new and new[k] is None):
            expected.append([k, oldmap[k]])
    fails = []
    parsed = v["parsed"]
    if any(kind == "J" for kind, _, _ in parsed):
        fails.append("output does not parse without junk")
    ents = [[k, val] for kind, k, val in parsed if kind == "E"]
    if [k for k, _ in ents] != [k for k, _ in expected]:
        fails.append("entity keys %r, expected %r" % ([k for k, _ in ents], [k for k, _ in expected]))
    else:
        for (k, got), (_, exp) in zip(ents, expected):
            if got != exp:
                fails.append("value of %s is %r, expected %r" % (k, got, exp))
                break
    out = v["out"]
    if EN_RE.search(out):
        fails.append("reference (English) value in the output")
    if "JUNK" in out:
        fails.append("junk of the old file in the output")
    if v["placeholder"]:
        fails.append("placeholder in the output")
    ekeys = set(k for k, _ in expected)
    for k, _ in old_e:
        if k not in ekeys and re.search(r"OLD%s\b" % re.escape(k), out):
            fails.append("obsolete or removed entity %s in the output" % k)
            break
    again = [[k, val] for kind, k, val in v["again"] if kind == "E"]
    if again != ents:
        fails.append("serializing the output again yields different entities")
    return fails, expected


def dtd_quote_of(ref_text, key):
    m = re.search(r"<!ENTITY[ \t\r\n]+%s[ \t\r\n]+([\"'])" % re.escape(key), ref_text)
    return m.group(1) if m else None


def finding_of(case, r, fails):
    """root-cause predicates of genuine defects (see NOTES-C16.md); None = unexplained violation"""
    fmt = case["fmt"]
    if "r" not in r:
        if fmt == "android" and r.get("exc") == "UnboundLocalError" and any("android.py" in w and "wrap" in w for w in r.get("where", [])):
            # AndroidEntity.wrap on a reference <string> without child nodes: `child` is never bound
            return "C16-android-empty-reference-string"
        return None
    v = r["r"]
    out = v["out"]
    new = [(k, val) for k, val in case["new"] if val is not None]
    if fmt == "inc" and any(k in v["ref_noval"] for k, _ in new):
        # Entity.wrap with val_span == (-1, -1) (`#define key` without a value in the reference)
        return "C16-inc-reference-without-value"
    if fmt == "dtd" and any(dtd_quote_of(case["ref"], k) is not None and dtd_quote_of(case["ref"], k) in val for k, val in new):
        # the new value contains the quote character the reference entity is delimited with
        return "C16-dtd-quote-conflict"
    if case["old"] and not case["old"].endswith("\n") and v["old_last"] in ("C", "O"):
        # the old file ends in a comment / instruction without a newline: the next entry is glued to it
        return "C16-old-eof-comment-glued"
    if fmt == "inc":
        # F10: the pruned entry list starts with a Whitespace entry -> leading blank line is Junk for DefinesParser
        junk = [val for kind, _, val in v["parsed"] if kind == "J"]
        if out.startswith("\n") and len(junk) == 1 and set(junk[0]) == {"\n"} and out.startswith(junk[0]) \
                and all(f.startswith("output does not parse without junk") for f in fails):
            return "C16-inc-leading-blank"
        # blank lines are Junk for DefinesParser outside `#filter emptyLines`; the serializer moves/drops them unaware of that state
        old_blank_junk = any(kind == "J" and set(val) == {"\n"} for kind, _, val in v["old"])
        if junk and all(set(j) == {"\n"} for j in junk) and not any(f.startswith(("entity keys", "value of", "reference", "obsolete")) for f in fails):
            return "C16-inc-blank-lines"
        if old_blank_junk:
            return "C16-inc-blank-lines"
    return None


def classify(v):
    return v.get("finding")


# ------------------------------------------------------------------ run
def resolve_new(cases):
    """raw values of the new data: unwrap() of the entity parsed from a one-entity localized file"""
    todo = {}
    for c in cases:
        for k, src, x in c["new_src"]:
            if src is not None:
                todo[(c["fmt"], k, src, x)] = None
    keys = sorted(todo)
    by_fmt = {}
    for key in keys:
        by_fmt.setdefault(key[0], []).append(key)
    for fmt, ks in by_fmt.items():
        args = [[fmt, [[k, G.one_entity_file(fmt, k, src, x)] for _, k, src, x in ks[i:i + 50]]] for i in range(0, len(ks), 50)]
        res = pool.pmap("impl.serialize", "raws", args, timeout=20.0, batch=4)
        flat = []
        for r in res:
            flat.extend(r["r"] if "r" in r else [None] * 50)
        for key, raw in zip(ks, flat):
            todo[key] = raw
    for c in cases:
        new = []
        ok = True
        for k, src, x in c["new_src"]:
            if src is None:
                new.append([k, None])
            else:
                raw = todo[(c["fmt"], k, src, x)]
                if raw is None:
                    ok = False
                else:
                    new.append([k, raw])
        c["new"] = new
        c["ok"] = ok
    return [c for c in cases if c["ok"]]


def model_line(c):
    toks = ["ser", c["fmt"], C.enc(c["ref"]), C.enc(c["old"]), str(len(c["new"]))]
    for k, v in c["new"]:
        toks.append(C.enc(k))
        toks.append("None" if v is None else C.enc(v))
    return " ".join(toks)


def gen_cases(ctx):
    cases = []
    counts = {}
    for fmt in G.FORMATS:
        ex = G.gen_exhaustive(fmt, 2 if ctx.tier == "quick" else 3)
        if fmt in ("ftl", "android") and ctx.tier != "quick":
            ex = [c for c in ex if len(c["exh"]) <= 3 or c["exh"][0] == "commented"]
        counts[fmt + ".exhaustive"] = len(ex)
        rng = ctx.rng("c16", fmt)
        rnd = [G.gen_random_case(rng, fmt) for _ in range(ctx.n(1500, 25000))]
        counts[fmt + ".random"] = len(rnd)
        cases += ex + rnd
    return cases, counts


def run(ctx):
    out = Outcome()
    out.rule = ("per format (properties, dtd, ini, inc, ftl, android): every old file of up to 2 (quick) / 3 (thorough) records over "
                "{k1, k1 with comment, k2, obsolete, comment, junk, blank} x 3 reference shapes x every new-data map over {k1,k2: absent/value/None, unknown key}, "
                "plus seeded random files of 1-5 reference keys with comments, blank lines, sections/instructions, obsolete keys, junk, reordered old keys, "
                "removals and unknown keys, value flavours per format; non-trivial = at least one entity emitted and something dropped or replaced; "
                "distinct = distinct (format, output text)")
    cases, counts = gen_cases(ctx)
    for k, v in counts.items():
        out.count(k, v)
    cases = resolve_new(cases)
    args = [[c["fmt"], c["ref"], c["old"], c["new"]] for c in cases]
    res = pool.pmap("impl.serialize", "impl_serialize", args, timeout=5.0)
    idx_regex = [i for i, c in enumerate(cases) if c["fmt"] in G.REGEX_FORMATS]
    lines = [model_line(cases[i]) for i in idx_regex]
    if ctx.model_ok:
        mres = C.run_driver_parallel(lines)
    else:
        mres = [None] * len(lines)
    model = dict(zip(idx_regex, mres))
    seen_findings = {}
    for i, (c, r) in enumerate(zip(cases, res)):
        out.evaluations += 1
        fmt = c["fmt"]
        fails, expected = oracle(c, r)
        if "r" in r:
            canon = C.enc(r["r"]["out"])
            if expected:
                dropped = len(r["r"]["old"]) + len(r["r"]["ref"]) > len(expected) or any(v is not None for _, v in c["new"])
                if dropped:
                    out.nontrivial.add((fmt, r["r"]["out"]))
            out.count("%s.%s" % (fmt, "judged" if expected is not None else "unjudged"))
        else:
            canon = "exc:" + str(r.get("exc"))
        if fails:
            fid = finding_of(c, r, fails)
            out.count("%s.violations" % fmt)
            key = fid or "new"
            if seen_findings.get(key, 0) < 8:
                seen_findings[key] = seen_findings.get(key, 0) + 1
                out.violations.append({"what": "%s: %s" % (fmt, "; ".join(fails)),
                                       "input": {"fmt": fmt, "ref": c["ref"], "old": c["old"], "new": c["new"]},
                                       "output": r["r"]["out"] if "r" in r else None, "finding": fid})
        elif i in model and model[i] is not None and model[i] != canon:
            out.disagreements.append({"op": "ser", "fmt": fmt, "ref": c["ref"], "old": c["old"], "new": c["new"],
                                      "impl": canon, "model": model[i]})
        if len(out.samples) < 12 and "r" in r and expected and len(expected) >= 2 and out.distribution.get("sampled." + fmt, 0) < 2 \
                and "exh" not in c:
            out.count("sampled." + fmt)
            out.samples.append({"fmt": fmt, "ref": c["ref"], "old": c["old"], "new": c["new"], "out": r["r"]["out"]})
    run_wild(ctx, out)
    run_entries(ctx, out)
    run_probes(ctx, out)
    # unexplained violations first, then the findings round-robin (the replay file keeps the first 20)
    groups = {}
    for v in out.violations:
        groups.setdefault(v.get("finding") or "", []).append(v)
    ordered = groups.pop("", [])
    rest = [groups[k] for k in sorted(groups)]
    for i in range(8):
        for g in rest:
            if i < len(g):
                ordered.append(g[i])
    out.violations = ordered
    return out


def run_probes(ctx, out):
    """excluded points of the hypotheses of the re-parse theorems, probed on the real code (informational, not judged)"""
    probes = [
        ("props.old_dupkey", "properties", "a=E\n", "a=y\na=z\n", []),
        ("props.ref_dupkey", "properties", "a=E\na=F\n", "", [["a", "N"]]),
        ("props.value_trailing_blank", "properties", "a=E\n", "", [["a", "N "]]),
        ("ini.section_key_clash", "ini", "[a]\na=E\n", "[a]\na=y\n", [["a", "N"]]),
        ("ini.other_section", "ini", "[S]\na=E\n", "[O]\na=y\n", []),
    ]
    res = pool.pmap("impl.serialize", "impl_serialize_text", [[f, r, o, n] for _, f, r, o, n in probes], timeout=5.0)
    for (tag, f, r, o, n), x in zip(probes, res):
        got = x.get("r", x.get("exc")) if isinstance(x, dict) else x
        out.count("probe.%s" % tag)
        out.notes.append("probe %s: serialize(%s, ref=%r, old=%r, new=%r) -> %r" % (tag, f, r, o, n, got))


def run_wild(ctx, out):
    """correspondence only: arbitrary texts (duplicate keys, junk in the reference, truncated files …)"""
    cases = []
    for fmt in G.REGEX_FORMATS:
        rng = ctx.rng("c16.wild", fmt)
        cases += [G.gen_wild_case(rng, fmt) for _ in range(ctx.n(1500, 30000))]
    out.count("wild.cases", len(cases))
    res = pool.pmap("impl.serialize", "impl_serialize_text", [[c["fmt"], c["ref"], c["old"], c["new"]] for c in cases], timeout=5.0)
    mres = C.run_driver_parallel([model_line(c) for c in cases]) if ctx.model_ok else [None] * len(cases)
    for c, r, m in zip(cases, res, mres):
        out.evaluations += 1
        canon = C.enc(r["r"]) if "r" in r else "exc:" + str(r.get("exc"))
        if "r" not in r:
            out.count("wild.exceptions")
        if m is not None and m != canon:
            out.disagreements.append({"op": "ser", "wild": True, "fmt": c["fmt"], "ref": c["ref"], "old": c["old"], "new": c["new"],
                                      "impl": canon, "model": m})


def enc_rec(rec):
    return " ".join([rec[0]] + [C.enc(x) for x in rec[1:]])


def entry_line(c):
    toks = ["ser.ents", str(len(c["ref"]))] + [enc_rec(r) for r in c["ref"]]
    toks += [str(len(c["old"]))] + [enc_rec(r) for r in c["old"]]
    toks.append(str(len(c["new"])))
    for k, v in c["new"]:
        toks.append(C.enc(k))
        toks.append("None" if v is None else C.enc(v))
    return " ".join(toks)


def run_entries(ctx, out):
    """entry-level correspondence on synthetic entries (StickyEntry, section-like entries, key collisions)"""
    rng = ctx.rng("c16.entries")
    cases = [G.gen_entry_case(rng) for _ in range(ctx.n(4000, 60000))]
    out.count("entries.cases", len(cases))
    res = pool.pmap("impl.serialize", "impl_serialize_entries", [[c["ref"], c["old"], c["new"]] for c in cases], timeout=5.0)
    mres = C.run_driver_parallel([entry_line(c) for c in cases]) if ctx.model_ok else [None] * len(cases)
    for c, r, m in zip(cases, res, mres):
        out.evaluations += 1
        if "r" in r:
            canon = "k%s %s" % (r["r"]["kinds"], C.enc(r["r"]["out"]))
            if "S" in r["r"]["kinds"] and "E" in r["r"]["kinds"]:
                out.nontrivial.add(("entries", r["r"]["out"]))
            if "P" in r["r"]["kinds"]:
                out.violations.append({"what": "entries: placeholder in the pruned entry list", "input": c, "op": "ser.ents", "finding": None})
        else:
            canon = "exc:" + str(r.get("exc"))
            out.count("entries.exceptions")
        if m is not None and m != canon:
            out.disagreements.append({"op": "ser.ents", "ref": c["ref"], "old": c["old"], "new": c["new"], "impl": canon, "model": m})


def replay(payload):
    res = []
    for v in payload.get("violations", []):
        i = v["input"]
        if v.get("op") == "ser.ents":
            r = pool.pmap("impl.serialize", "impl_serialize_entries", [[i["ref"], i["old"], i["new"]]], timeout=10.0)[0]
            res.append({"input": i, "output": r, "oracle": ["placeholder in the pruned entry list"] if "r" in r and "P" in r["r"]["kinds"] else None})
            continue
        c = {"fmt": i["fmt"], "ref": i["ref"], "old": i["old"], "new": i["new"]}
        r = pool.pmap("impl.serialize", "impl_serialize", [[c["fmt"], c["ref"], c["old"], c["new"]]], timeout=10.0)[0]
        fails, _ = oracle(c, r)
        res.append({"input": i, "output": r["r"]["out"] if "r" in r else r, "oracle": fails or None})
    return {"violates": any(r["oracle"] for r in res), "cases": res}

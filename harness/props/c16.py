"""C16 — Serializer writes exactly the requested translations, in reference order."""
import re

from lib import common as C
from lib import pool
from lib.runner import Outcome
from impl import c16gen as G

ID = "C16"
LEAN_TARGETS = ["CLModel.Props.C16"]
M = "CLModel.Props.C16"
THEOREMS = [
    (M, "C16.serialized_entities", "closed form: the entities of the output are, for every reference key in reference order, the wrapped new value if one was given, else the old entity unless obsolete/removed"),
    (M, "C16.serialized_keys", "entity keys of the output = reference keys with a new value or a kept old value, in reference order"),
    (M, "C16.serialized_values", "each output entity carries the new value if one was given, the old one otherwise"),
    (M, "C16.nothing_foreign", "every output entry is a wrapped new value, a kept non-junk old entry or a non-entity reference entry: no placeholder, no reference entity, no obsolete/removed entity, no junk"),
    (M, "C16.no_placeholder", "no PlaceholderEntity survives"),
    (M, "C16.wrap_spec", "wrap replaces exactly the value span of the reference entity's text"),
    (M, "C16.wrap_unwrap", "wrapping an entity's own raw value gives back its text"),
    (M, "C16.idempotent_entities", "serializing the output entries again with no new data yields the same entities"),
    (M, "C16.serialize_reparses_properties_partial", "RE-PARSE (.properties, printed safe records, distinct keys per file, safe new values): the text "
        "serialize returns is parsed by PropertiesParser.walk without junk into exactly the expected records — reference keys with a new value or a "
        "kept old value, in reference order, each with the new value if given else the old one"),
    (M, "C16.serialize_reparses_ini_partial", "RE-PARSE (.ini, `[sec]` + printed safe ini records, same section in reference and old file, distinct keys none equal "
        "to the section name, new values without newline): IniParser.walk parses the output without junk into the section and exactly the expected records"),
    (M, "C16.serialize_reparses_ini_new_partial", "the same for a new localization (empty old file): section and exactly the reference keys that have a new value"),
    (M, "C16.serialized_shape", "for ALL entry lists: if in the template dict and in the sanitized old dict every non-whitespace key is directly followed "
        "by a Whitespace object, the same holds for the serialized entry list (no entity is glued to a neighbouring entry)"),
    # ---- round 4
    (M, "C16.wrap_verbatim", "Entity.wrap writes the raw value verbatim between the reference entity's prefix and suffix (no escaping, no trimming), same key"),
    (M, "C16.no_adjacent_whitespace", "for ALL entry lists: prune_placeholders leaves no two adjacent Whitespace entries"),
    (M, "C16.leading_blank_characterised", "for ALL entry lists: the output starts with a Whitespace entry iff the first pair of the key diff (template vs sanitized old file) "
        "that is not a placeholder after the new values are filled in is white space; the two merge_two reduces and prune_placeholders never change that"),
    (M, "C16.serialized_text_partial", "TEXT of the output for two files printed record by record in any syntax pre(key)+value+post+newline (properties, dtd, inc), "
        "distinct keys: an optional leading newline followed by exactly the printed expected records, in reference order"),
    (M, "C16.serialize_reparses_dtd_partial", "RE-PARSE (.dtd, `<!ENTITY k \"v\">` per record, values without `\"` and `&`, distinct keys): DTDParser.walk parses the output "
        "without junk into exactly the expected records — also when it starts with a blank line"),
    (M, "C16.serialize_reparses_inc_partial", "RE-PARSE (.inc, `#define k v` with non-empty values, distinct keys; first reference record emitted; old file empty or starting "
        "with a reference key): DefinesParser.walk parses the output without junk into exactly the expected records"),
    (M, "C16.no_leading_blank_partial", "printed files: no leading blank line when the first reference record is emitted and the old file is empty or starts with a reference key"),
    (M, "C16.leading_blank_partial", "printed files: the output DOES start with a blank line whenever the first reference record is not emitted (finding C16-inc-leading-blank as a theorem)"),
    (M, "C16.serialize_idempotent_text_properties_partial", "TEXT-level idempotence (.properties printed class): serialize(ref, parse(serialize(ref, old, new)), {}) returns the same text"),
    (M, "C16.serialize_idempotent_text_dtd_partial", "TEXT-level idempotence (.dtd printed class)"),
    (M, "C16.serialize_idempotent_text_inc_partial", "TEXT-level idempotence (.inc printed class, no leading blank line)"),
    (M, "C16.sticky_from_reference", "for ALL entry lists: every StickyEntry of the output is an entry of the REFERENCE; the old document's sticky entries never survive"),
    (M, "C16.sticky_kept", "a sticky reference entry is in the output whenever every old entry under its key is sticky too and no reference Entity has that key"),
    (M, "C16.fluent_wrap_spec", "FluentEntity.wrap: text = serialize_comment(reference comment) + raw value (verbatim), key of the reference entity"),
    (M, "C16.fluent_comment_roundtrip", "for every comment content: what serialize_comment prints reads back to that content"),
    (M, "C16.fluent_comment_lines", "every line serialize_comment prints starts with `#`"),
    (M, "C16.fluent_walk_texts", "the entry-level Fluent walk of the serializer model yields the texts of the C01 model of FluentParser.walk"),
    (M, "C16.android_wrap_text", "AndroidEntity.wrap on <string>TEXT</string>: the whole text is replaced by the escaped new value"),
    (M, "C16.android_wrap_cdata", "AndroidEntity.wrap on a single CDATA child: data replaced verbatim; a value containing `]]>` raises ValueError"),
    (M, "C16.android_wrap_empty_raises", "AndroidEntity.wrap on a <string> without child nodes raises (finding C16-android-empty-reference-string)"),
    (M, "C16.android_escape_roundtrip", "minidom text escaping (& < \" >) is reversible for all raw values"),
    (M, "C16.android_escape_safe", "the escaped text contains none of < > \""),
]
PARTIAL = [
    "'parses without junk' (re-parse of the produced text) is a THEOREM for .properties, .ini, .dtd and .inc on the class of printed safe records "
    "(one record per line in the format's plain syntax, distinct keys per file, safe new values; no comments, blank lines, junk, escapes, missing final "
    "newline; .ini: one shared `[section]`; .dtd: `\"`-quoted, values without `\"`/`&`; .inc: non-empty values, first reference record emitted and old file "
    "empty or starting with a reference key — each extra hypothesis is one of the known findings, with a negation witness in Props/C16.lean); "
    "for every other layout and for Fluent / Android it is checked by the oracle with the real parsers and by the end-to-end correspondence",
    "text-level idempotence is a THEOREM for the .properties, .dtd and .inc printed classes; elsewhere the oracle checks entity-level idempotence on the real code",
    "Fluent and Android `wrap` are modelled over a PRINTER CONTRACT of the external libraries (fluent.syntax serialize_comment; minidom Element.toxml for "
    "Text/CDATA/Comment/PI/other children), validated by the c16.fcomment / c16.awrap streams; FluentParser.walk takes the body of fluent.syntax as input, "
    "AndroidParser.walk is not modelled (its entries are inputs of c16.android)",
    "theorems about keys/values assume new_data is a dict (duplicate-free keys; negation witness in Props/C16.lean); wrap_spec assumes the value span "
    "lies inside the entity span (negation witness: .inc `#define k` stores (-1,-1); probed on the real code = finding C16-inc-reference-without-value)",
    "sticky_kept needs: no old non-sticky entry and no reference Entity under the sticky key (witnesses in Props/C16.lean; probe android.sticky_key_clash on the real code)",
]
LEVEL_TEXT = ("Lean 4 theorems over an executable transliteration of serializer.serialize / sanitize_old / placeholder / prune_placeholders, "
              "Entity.wrap, FluentEntity.wrap, AndroidEntity.wrap and merge.merge_resources(keep_newest=False) (on top of the proved closed form of AddRemove): "
              "for ALL entry lists the entities of the output are exactly the reference keys with a new or kept old value, in reference order, with the right "
              "values, nothing foreign, idempotent, sticky entries from the reference only, no adjacent white space, leading blank line characterised; for printed "
              "files of properties/ini/dtd/inc the produced TEXT is proved to re-parse junk-free into the expected records and (properties, dtd) to be a fixed point; "
              "the model is tied to the Python by exhaustive small + random differential runs end to end on all six formats (regex formats through the parser "
              "models, Fluent through the body of fluent.syntax, Android through the entries of the real walk), and an independent oracle re-parses the real output")
LEVEL_NOTE = ("trusted: Lean kernel; hand-written model validated by correspondence; re-parse and text-idempotence claims are proved on printed safe records only, "
              "oracle/correspondence elsewhere; fluent.syntax / minidom enter through printer contracts that are validated differentially; theorems assume "
              "new_data is a dict (duplicate-free keys)")
TECHNIQUE = "Lean 4 proof over executable model + differential correspondence + re-parse oracle on the implementation"
TRUSTED = [
    "hand-written model CLModel/Serialize/Serializer.lean of serializer.py, merge.py (merge_resources/merge_two/get_older_entity/prune), base.Entity.wrap (tied by the `ser`/`ser.ents` correspondence)",
    "CLModel/Serialize/Fluent.lean (FluentEntity.wrap, serialize_comment contract; tied by c16.ftl / c16.fcomment) and CLModel/Serialize/Android.lean "
    "(AndroidEntity.wrap, minidom toxml contract; tied by c16.android / c16.awrap)",
    "parser models CLModel/Parser/{Base,Formats}.lean (C01) used to obtain entries for the end-to-end `ser` correspondence",
    "Python dict/OrderedDict modelled as association list; object identity of Whitespace keys modelled as (resource, index)",
]
ASSUMPTIONS = [
    "reference files are well-formed (no junk) with distinct keys; old files may contain junk, obsolete keys and lack the final newline",
    "raw values are entity.unwrap() of a parsed one-entity file of the same format",
    "Fluent values are compared without their comments (wrap re-creates the reference comment)",
    "junk regions of generated old files are marked by construction with private characters (all Unicode white-space outside [ \\t\\r\\n], Ж, Џ) that occur nowhere else",
]

AX = '<?xml version="1.0" encoding="utf-8"?>\n<resources%s>\n%s</resources>\n'
EN_RE = re.compile(r"EN(k|obs|unk)\d")
JUNKCHAR = "characters of a junk region of the old file in the output:"


# ------------------------------------------------------------------ oracle
def oracle(case, r):
    """Checks the property's claim on the implementation's results only.
    Returns (list of failure strings, expected entities or None when the case is not judged)."""
    if r.get("exc") == "Hang":
        return ["serialize does not terminate"], None
    if "exc" in r:
        return ["serialize raised %s: %s" % (r["exc"], r.get("msg"))], None
    v = r["r"]
    fmt = case["fmt"]
    # by construction (c16gen, round 4): the private characters occur in junk regions of the OLD file only
    pfails = []
    leaked = sorted(set(c for c in v["out"] if c in G.PRIVATE))
    if leaked and not any(c in G.PRIVATE for c in case["ref"]) \
            and not any(c in G.PRIVATE for _, val in case["new"] if val for c in val):
        pfails.append(JUNKCHAR + " " + ",".join("U+%04X" % ord(c) for c in leaked))
    ref_e = [(k, val) for kind, k, val in v["ref"] if kind == "E"]
    old_e = [(k, val) for kind, k, val in v["old"] if kind == "E"]
    if any(kind == "J" for kind, _, _ in v["ref"]):
        return pfails, None                  # reference with junk: outside the judged domain
    rkeys = [k for k, _ in ref_e]
    okeys = [k for k, _ in old_e]
    if len(set(rkeys)) != len(rkeys) or len(set(okeys)) != len(okeys):
        return pfails, None                  # duplicate keys: "the" old value is not defined by the property
    new = {}
    for k, val in case["new"]:
        new[k] = val
    newval = dict((k, val) for k, val in v["new_values"]) if fmt == "ftl" else new
    oldmap = dict(old_e)
    expected = []
    for k in rkeys:
        if k in new and new[k] is not None:
            expected.append([k, newval[k]])
        elif k in oldmap and not (k in new and new[k] is None):
            expected.append([k, oldmap[k]])
    fails = list(pfails)
    parsed = v["parsed"]
    if any(kind == "J" for kind, _, _ in parsed):
        fails.append("output does not parse without junk")
    ents = [[k, val] for kind, k, val in parsed if kind == "E"]
    if [k for k, _ in ents] != [k for k, _ in expected]:
        fails.append("entity keys %r, expected %r" % ([k for k, _ in ents], [k for k, _ in expected]))
    else:
        for (k, got), (_, exp) in zip(ents, expected):
            if got != exp:
                fails.append("value of %s is %r, expected %r" % (k, got, exp))
                break
    out = v["out"]
    if EN_RE.search(out):
        fails.append("reference (English) value in the output")
    if "JUNK" in out:
        fails.append("junk of the old file in the output")
    if v["placeholder"]:
        fails.append("placeholder in the output")
    ekeys = set(k for k, _ in expected)
    for k, _ in old_e:
        if k not in ekeys and re.search(r"OLD%s\b" % re.escape(k), out):
            fails.append("obsolete or removed entity %s in the output" % k)
            break
    if fmt == "android" and v.get("ref_root") is not None and v.get("out_root") != v["ref_root"]:
        fails.append("root element attributes %r, the reference document has %r" % (v.get("out_root"), v["ref_root"]))
    again = [[k, val] for kind, k, val in v["again"] if kind == "E"]
    if again != ents:
        fails.append("serializing the output again yields different entities")
    return fails, expected


def dtd_quote_of(ref_text, key):
    m = re.search(r"<!ENTITY[ \t\r\n]+%s[ \t\r\n]+([\"'])" % re.escape(key), ref_text)
    return m.group(1) if m else None


def finding_of(case, r, fails, expected=None, repaired_ok=False):
    """root-cause predicates of genuine defects (see NOTES-C16.md); None = unexplained violation"""
    fmt = case["fmt"]
    if "r" not in r:
        if fmt == "android" and r.get("exc") == "UnboundLocalError" and any("android.py" in w and "wrap" in w for w in r.get("where", [])):
            # AndroidEntity.wrap on a reference <string> without child nodes: `child` is never bound
            return "C16-android-empty-reference-string"
        return None
    v = r["r"]
    out = v["out"]
    if any(f.startswith(JUNKCHAR) for f in fails):
        return None                          # text of an old junk region in the output is never a known finding
    new = [(k, val) for k, val in case["new"] if val is not None]
    if fmt == "inc" and any(k in v["ref_noval"] for k, _ in new):
        # Entity.wrap with val_span == (-1, -1) (`#define key` without a value in the reference)
        return "C16-inc-reference-without-value"
    if fmt == "dtd" and any(dtd_quote_of(case["ref"], k) is not None and dtd_quote_of(case["ref"], k) in val for k, val in new):
        # the new value contains the quote character the reference entity is delimited with
        return "C16-dtd-quote-conflict"
    if case["old"] and not case["old"].endswith("\n") and v["old_last"] in ("C", "O"):
        # the old file ends in a comment / instruction without a newline: the next entry is glued to it
        return "C16-old-eof-comment-glued"
    if fmt == "android" and any(k in v.get("ref_markup", []) for k, _ in new) \
            and all(f.startswith(("reference (English)", "value of")) for f in fails):
        # AndroidEntity.wrap replaces the data of ONE child node of the cloned <string>: inline markup / further text stays
        return "C16-android-reference-markup"
    if repaired_ok:
        return "C16-old-junk-blanks-kept"
    if fmt == "inc":
        # F10: the pruned entry list starts with a Whitespace entry -> leading blank line is Junk for DefinesParser
        junk = [val for kind, _, val in v["parsed"] if kind == "J"]
        if out.startswith("\n") and len(junk) == 1 and set(junk[0]) == {"\n"} and out.startswith(junk[0]) \
                and all(f.startswith("output does not parse without junk") for f in fails):
            return "C16-inc-leading-blank"
        # blank lines are Junk for DefinesParser outside `#filter emptyLines`; the serializer moves/drops them unaware of that state
        old_blank_junk = any(kind == "J" and set(val) == {"\n"} for kind, _, val in v["old"])
        if junk and all(set(j) == {"\n"} for j in junk) and not any(f.startswith(("entity keys", "value of", "reference", "obsolete")) for f in fails):
            return "C16-inc-blank-lines"
        if old_blank_junk:
            return "C16-inc-blank-lines"
    return None


def blanks_repair(fmt, case, v, fails):
    """root cause of C16-old-junk-blanks-kept: a Junk entry of the old file has a neighbouring Whitespace entry that carries
    inline white-space of the junk's OWN line (the junk line is indented: the Whitespace before it does not end in a newline;
    or, Fluent, blanks split off the junk line's end: the Whitespace after it does not start with a newline).  sanitize_old
    drops the Junk and keeps the Whitespace, so these blanks now indent the NEXT line (ini: a `^[;#]` comment is no longer at
    the line start; Fluent: an indented message/comment) or trail the PREVIOUS one (Fluent: a tab/CR glued to the value, a
    tab-only line, two lines glued by a lone CR).
    Returns the old text with exactly these blanks removed (the junk itself stays), or None when the cause is absent.  The
    violation is attributed to the finding only if the implementation PASSES the whole oracle on the repaired input."""
    if fmt not in ("ini", "ftl"):
        return None
    if any(f.startswith(("reference", "obsolete", "placeholder", "junk of", JUNKCHAR)) for f in fails):
        return None
    old = case["old"]
    cuts = []
    for before, after in v.get("old_junk_ws", []):
        if before is not None and not before[0].endswith("\n"):
            text, start = before
            keep = text.rfind("\n") + 1
            cuts.append((start + keep, start + len(text)))
        if fmt == "ftl" and after is not None and not after[0].startswith("\n"):
            text, start = after
            n = text.find("\n")
            cuts.append((start, start + (n if n >= 0 else len(text))))
    if not cuts:
        return None
    for a, b in sorted(set(cuts), reverse=True):
        old = old[:a] + old[b:]
    return old


def repaired_pass(cases, res, judged):
    """counterfactual of C16-old-junk-blanks-kept: indices of failing cases that pass the whole oracle once the blanks of the
    junk's own line are removed from the old file"""
    cand = []
    for i, (c, r) in enumerate(zip(cases, res)):
        if judged[i][0] and "r" in r:
            rep = blanks_repair(c["fmt"], c, r["r"], judged[i][0])
            if rep is not None:
                cand.append((i, rep))
    if not cand:
        return {}
    rr = pool.pmap("impl.serialize", "impl_serialize", [[cases[i]["fmt"], cases[i]["ref"], rep, cases[i]["new"]] for i, rep in cand], timeout=5.0)
    ok = {}
    for (i, rep), r in zip(cand, rr):
        c2 = dict(cases[i])
        c2["old"] = rep
        ok[i] = not oracle(c2, normalise(r))[0]
    return ok


def classify(v):
    return v.get("finding")


# ------------------------------------------------------------------ run
def resolve_new(cases):
    """raw values of the new data: unwrap() of the entity parsed from a one-entity localized file"""
    todo = {}
    for c in cases:
        if c.get("raw_new"):
            continue                     # the raw values are given literally (Fluent: the source of the entry)
        for k, src, x in c["new_src"]:
            if src is not None:
                todo[(c["fmt"], k, src, x)] = None
    keys = sorted(todo)
    by_fmt = {}
    for key in keys:
        by_fmt.setdefault(key[0], []).append(key)
    for fmt, ks in by_fmt.items():
        args = [[fmt, [[k, G.one_entity_file(fmt, k, src, x)] for _, k, src, x in ks[i:i + 50]]] for i in range(0, len(ks), 50)]
        res = pool.pmap("impl.serialize", "raws", args, timeout=20.0, batch=4)
        flat = []
        for r in res:
            flat.extend(r["r"] if "r" in r else [None] * 50)
        for key, raw in zip(ks, flat):
            todo[key] = raw
    for c in cases:
        new = []
        ok = True
        if c.get("raw_new"):
            c["new"] = [[k, src] for k, src, _ in c["new_src"]]
            c["ok"] = True
            continue
        for k, src, x in c["new_src"]:
            if src is None:
                new.append([k, None])
            else:
                raw = todo[(c["fmt"], k, src, x)]
                if raw is None:
                    ok = False
                else:
                    new.append([k, raw])
        c["new"] = new
        c["ok"] = ok
    return [c for c in cases if c["ok"]]


def enc_opt(x):
    return "None" if x is None else C.enc(x)


def items_toks(new):
    toks = [str(len(new))]
    for k, v in new:
        toks.append(C.enc(k))
        toks.append(enc_opt(v))
    return toks


def ftl_line(c, v):
    """c16.ftl: the texts plus the bodies fluent.syntax returned for them (input of the model of FluentParser.walk / wrap)"""
    toks = ["c16.ftl"]
    for text, body in ((c["ref"], v["ref_body"]), (c["old"], v["old_body"])):
        toks += [C.enc(text), str(len(body))]
        for k, s, e, ks, ke, vs, ve, cm in body:
            toks += [k, str(s), str(e), str(ks), str(ke), str(vs), str(ve), enc_opt(cm)]
    return " ".join(toks + items_toks(c["new"]))


def arec_toks(rec):
    if rec[0] == "A":
        _, key, pre, all_, op, tag, children = rec
        toks = ["A", C.enc(key), C.enc(pre), C.enc(all_), C.enc(op), C.enc(tag), str(len(children))]
        for k, d, x in children:
            toks += [k, C.enc(d), C.enc(x)]
        return toks
    return [rec[0]] + [C.enc(x) for x in rec[1:]]


def android_line(c, ref_recs, old_recs):
    """c16.android: the entries of the real AndroidParser.walk (input) — the model does wrap, sanitize, merge, prune"""
    toks = ["c16.android", str(len(ref_recs))]
    for r in ref_recs:
        toks += arec_toks(r)
    toks.append(str(len(old_recs)))
    for r in old_recs:
        toks += arec_toks(r)
    return " ".join(toks + items_toks(c["new"]))


def normalise(r):
    """the android adapter reports an exception of serialize together with the walked entries"""
    if "r" in r and isinstance(r["r"], dict) and "exc_inner" in r["r"]:
        x = r["r"]
        return {"exc": x["exc_inner"], "msg": x["msg"], "where": x["where"], "recs": [x["ref_recs"], x["old_recs"]]}
    return r


def model_line(c):
    toks = ["ser", c["fmt"], C.enc(c["ref"]), C.enc(c["old"]), str(len(c["new"]))]
    for k, v in c["new"]:
        toks.append(C.enc(k))
        toks.append("None" if v is None else C.enc(v))
    return " ".join(toks)


def gen_cases(ctx):
    cases = []
    counts = {}
    for fmt in G.FORMATS:
        ex = G.gen_exhaustive(fmt, 2 if ctx.tier == "quick" else 3)
        if fmt in ("ftl", "android") and ctx.tier != "quick":
            ex = [c for c in ex if len(c["exh"]) <= 3 or c["exh"][0] == "commented"]
        counts[fmt + ".exhaustive"] = len(ex)
        rng = ctx.rng("c16", fmt)
        rnd = [G.gen_random_case(rng, fmt) for _ in range(ctx.n(1500, 25000))]
        counts[fmt + ".random"] = len(rnd)
        cases += ex + rnd
        # round 4: white-space (all of Unicode's and the format's own) at the ends of junk regions of the old file
        jx = G.gen_junkws_exhaustive(fmt)
        if ctx.tier == "quick":
            jx = [c for i, c in enumerate(jx) if c["junkws"] != "exh" or i % 3 == ctx.seed % 3]
        rngj = ctx.rng("c16.junkws", fmt)
        jr = [G.gen_junkws_case(rngj, fmt) for _ in range(ctx.n(200, 6000))]
        counts[fmt + ".junkws"] = len(jx) + len(jr)
        cases += jx + jr
        dd = G.gen_directed(fmt)
        counts[fmt + ".directed"] = len(dd)
        cases += dd
    return cases, counts


def run(ctx):
    out = Outcome()
    out.rule = ("per format (properties, dtd, ini, inc, ftl, android): every old file of up to 2 (quick) / 3 (thorough) records over "
                "{k1, k1 with comment, k2, obsolete, comment, junk, blank} x 3 reference shapes x every new-data map over {k1,k2: absent/value/None, unknown key}, "
                "plus seeded random files of 1-5 reference keys with comments, blank lines, sections/instructions, obsolete keys, junk, reordered old keys, "
                "removals and unknown keys, value flavours per format; non-trivial = at least one entity emitted and something dropped or replaced; "
                "distinct = distinct (format, output text)")
    cases, counts = gen_cases(ctx)
    for k, v in counts.items():
        out.count(k, v)
    cases = resolve_new(cases)
    args = [[c["fmt"], c["ref"], c["old"], c["new"]] for c in cases]
    res = [normalise(r) for r in pool.pmap("impl.serialize", "impl_serialize", args, timeout=5.0)]
    idx_regex = []
    lines = []
    for i, (c, r) in enumerate(zip(cases, res)):
        if c["fmt"] in G.REGEX_FORMATS:
            idx_regex.append(i)
            lines.append(model_line(c))
        elif c["fmt"] == "ftl" and "r" in r:
            idx_regex.append(i)
            lines.append(ftl_line(c, r["r"]))
        elif c["fmt"] == "android" and ("r" in r or "recs" in r):
            idx_regex.append(i)
            recs = r["recs"] if "recs" in r else (r["r"]["ref_recs"], r["r"]["old_recs"])
            lines.append(android_line(c, recs[0], recs[1]))
    if ctx.model_ok:
        mres = C.run_driver_parallel(lines)
    else:
        mres = [None] * len(lines)
    model = dict(zip(idx_regex, mres))
    seen_findings = {}
    judged = [oracle(c, r) for c, r in zip(cases, res)]
    repaired_ok = repaired_pass(cases, res, judged)
    for i, (c, r) in enumerate(zip(cases, res)):
        out.evaluations += 1
        fmt = c["fmt"]
        fails, expected = judged[i]
        if "r" in r:
            canon = C.enc(r["r"]["out"])
            if expected:
                dropped = len(r["r"]["old"]) + len(r["r"]["ref"]) > len(expected) or any(v is not None for _, v in c["new"])
                if dropped:
                    out.nontrivial.add((fmt, r["r"]["out"]))
            out.count("%s.%s" % (fmt, "judged" if expected is not None else "unjudged"))
        else:
            canon = "exc:" + str(r.get("exc"))
        if fails:
            fid = finding_of(c, r, fails, expected, repaired_ok.get(i, False))
            out.count("%s.violations" % fmt)
            key = fid or "new"
            if seen_findings.get(key, 0) < 8:
                seen_findings[key] = seen_findings.get(key, 0) + 1
                out.violations.append({"what": "%s: %s" % (fmt, "; ".join(fails)),
                                       "input": {"fmt": fmt, "ref": c["ref"], "old": c["old"], "new": c["new"]},
                                       "output": r["r"]["out"] if "r" in r else None, "finding": fid})
        if i in model and model[i] is not None and model[i] != canon and (not fails or fmt in ("ftl", "android")):
            out.disagreements.append({"op": {"ftl": "c16.ftl", "android": "c16.android"}.get(fmt, "ser"), "fmt": fmt, "ref": c["ref"], "old": c["old"], "new": c["new"],
                                      "impl": canon, "model": model[i]})
        if len(out.samples) < 12 and "r" in r and expected and len(expected) >= 2 and out.distribution.get("sampled." + fmt, 0) < 2 \
                and "exh" not in c:
            out.count("sampled." + fmt)
            out.samples.append({"fmt": fmt, "ref": c["ref"], "old": c["old"], "new": c["new"], "out": r["r"]["out"]})
    run_wild(ctx, out)
    run_entries(ctx, out)
    run_wrap(ctx, out)
    run_probes(ctx, out)
    # unexplained violations first, then the findings round-robin (the replay file keeps the first 20)
    groups = {}
    for v in out.violations:
        groups.setdefault(v.get("finding") or "", []).append(v)
    ordered = groups.pop("", [])
    rest = [groups[k] for k in sorted(groups)]
    for i in range(8):
        for g in rest:
            if i < len(g):
                ordered.append(g[i])
    out.violations = ordered
    return out


def run_probes(ctx, out):
    """excluded points of the hypotheses of the re-parse theorems, probed on the real code (informational, not judged)"""
    probes = [
        ("props.old_dupkey", "properties", "a=E\n", "a=y\na=z\n", []),
        ("props.ref_dupkey", "properties", "a=E\na=F\n", "", [["a", "N"]]),
        ("props.value_trailing_blank", "properties", "a=E\n", "", [["a", "N "]]),
        ("ini.section_key_clash", "ini", "[a]\na=E\n", "[a]\na=y\n", [["a", "N"]]),
        ("ini.other_section", "ini", "[S]\na=E\n", "[O]\na=y\n", []),
        # round 4: sticky entries (Android DocumentWrapper)
        ("android.root_attr_old_only", "android", AX % (' xmlns:a="urn:R"', '  <string name="k">E</string>\n'),
         AX % (' xmlns:a="urn:O" xmlns:b="urn:B"', '  <string name="k">y</string>\n'), []),
        ("android.sticky_key_clash", "android", AX % (' xmlns:a="urn:R"', '  <string name="k">E</string>\n'),
         AX % ("", '  <string name="xmlns:a">y</string>\n'), [["k", "N"]]),
        ("android.reference_markup", "android", AX % ("", '  <string name="k">Hello <b>E</b> tail</string>\n'), "", [["k", "N"]]),
        ("props.value_newline", "properties", "a=E\n", "", [["a", "N\nb=X"]]),
        ("props.value_leading_blank", "properties", "a=E\n", "", [["a", " N"]]),
        ("dtd.quote_switch", "dtd", "<!ENTITY a \"E\">\n", "", [["a", "say \"x\""]]),
    ]
    res = pool.pmap("impl.serialize", "impl_serialize_text", [[f, r, o, n] for _, f, r, o, n in probes], timeout=5.0)
    for (tag, f, r, o, n), x in zip(probes, res):
        got = x.get("r", x.get("exc")) if isinstance(x, dict) else x
        out.count("probe.%s" % tag)
        out.notes.append("probe %s: serialize(%s, ref=%r, old=%r, new=%r) -> %r" % (tag, f, r, o, n, got))


def run_wrap(ctx, out):
    """AndroidEntity.wrap alone (c16.awrap: every class of child node, 0-4 children, raw values that need escaping or cannot be
    written) and fluent.syntax's serialize_comment (c16.fcomment) — the two printer contracts the Fluent/Android models rely on"""
    rng = ctx.rng("c16.wrap")
    cases = [G.gen_wrap_case(rng) for _ in range(ctx.n(1000, 20000))]
    res = pool.pmap("impl.serialize", "impl_android_wrap", [[c["text"], c["key"], c["raw"]] for c in cases], timeout=5.0)
    lines, idx = [], []
    for i, (c, r) in enumerate(zip(cases, res)):
        if "r" in r and r["r"] is not None:
            v = r["r"]
            op, tag, children = v["el"]
            toks = ["c16.awrap", C.enc(v["key"]), C.enc(v["pre"]), C.enc(op), C.enc(tag), str(len(children))]
            for k, d, x in children:
                toks += [k, C.enc(d), C.enc(x)]
            lines.append(" ".join(toks + [C.enc(c["raw"])]))
            idx.append(i)
    out.count("awrap.cases", len(lines))
    mres = C.run_driver_parallel(lines) if ctx.model_ok else [None] * len(lines)
    for i, m in zip(idx, mres):
        out.evaluations += 1
        v = res[i]["r"]
        canon = C.enc(v["all"]) if "all" in v else "exc:" + v["wexc"]
        out.count("awrap." + ("exc." + v["wexc"] if "wexc" in v else "ok"))
        if "all" in v:
            out.nontrivial.add(("awrap", v["all"]))
            if v["wkey"] != v["key"] or v["wraw"] != cases[i]["raw"]:
                out.violations.append({"what": "android wrap: key/raw value of the wrapped entity differ from the request",
                                       "input": cases[i], "op": "c16.awrap", "finding": None})
        if m is not None and m != canon:
            out.disagreements.append({"op": "c16.awrap", "input": cases[i], "impl": canon, "model": m})
    contents = list(G.COMMENT_CONTENTS) + ["\n".join(rng.choice(["", "x", " y", "# z", "é"]) for _ in range(rng.randrange(1, 5)))
                                           for _ in range(ctx.n(60, 600))]
    res = pool.pmap("impl.serialize", "impl_ftl_comment", [[c] for c in contents], timeout=5.0)
    mres = C.run_driver_parallel(["c16.fcomment " + C.enc(c) for c in contents]) if ctx.model_ok else [None] * len(contents)
    for c, r, m in zip(contents, res, mres):
        out.evaluations += 1
        canon = C.enc(r["r"]) if "r" in r else "exc:" + str(r.get("exc"))
        if m is not None and m != canon:
            out.disagreements.append({"op": "c16.fcomment", "input": c, "impl": canon, "model": m})
    # serialize lines 53-54: a file name no parser claims
    names = ("a.txt", "strings.json", "")
    for name, r in zip(names, pool.pmap("impl.serialize", "impl_unsupported", [[n] for n in names], timeout=5.0)):
        out.evaluations += 1
        got = r.get("r")
        out.count("unsupported." + ("ok" if isinstance(got, str) and got.startswith("SerializationNotSupportedError") else "other"))
        if not (isinstance(got, str) and got.startswith("SerializationNotSupportedError")):
            out.notes.append("serialize(%r, [], [], {}) -> %r (expected SerializationNotSupportedError)" % (name, r))


def run_wild(ctx, out):
    """correspondence only: arbitrary texts (duplicate keys, junk in the reference, truncated files …)"""
    cases = []
    for fmt in G.REGEX_FORMATS:
        rng = ctx.rng("c16.wild", fmt)
        cases += [G.gen_wild_case(rng, fmt) for _ in range(ctx.n(1500, 30000))]
    out.count("wild.cases", len(cases))
    res = pool.pmap("impl.serialize", "impl_serialize_text", [[c["fmt"], c["ref"], c["old"], c["new"]] for c in cases], timeout=5.0)
    mres = C.run_driver_parallel([model_line(c) for c in cases]) if ctx.model_ok else [None] * len(cases)
    for c, r, m in zip(cases, res, mres):
        out.evaluations += 1
        canon = C.enc(r["r"]) if "r" in r else "exc:" + str(r.get("exc"))
        if "r" not in r:
            out.count("wild.exceptions")
        if m is not None and m != canon:
            out.disagreements.append({"op": "ser", "wild": True, "fmt": c["fmt"], "ref": c["ref"], "old": c["old"], "new": c["new"],
                                      "impl": canon, "model": m})


def enc_rec(rec):
    return " ".join([rec[0]] + [C.enc(x) for x in rec[1:]])


def entry_line(c):
    toks = ["ser.ents", str(len(c["ref"]))] + [enc_rec(r) for r in c["ref"]]
    toks += [str(len(c["old"]))] + [enc_rec(r) for r in c["old"]]
    toks.append(str(len(c["new"])))
    for k, v in c["new"]:
        toks.append(C.enc(k))
        toks.append("None" if v is None else C.enc(v))
    return " ".join(toks)


def run_entries(ctx, out):
    """entry-level correspondence on synthetic entries (StickyEntry, section-like entries, key collisions)"""
    rng = ctx.rng("c16.entries")
    cases = [G.gen_entry_case(rng) for _ in range(ctx.n(4000, 60000))]
    out.count("entries.cases", len(cases))
    res = pool.pmap("impl.serialize", "impl_serialize_entries", [[c["ref"], c["old"], c["new"]] for c in cases], timeout=5.0)
    mres = C.run_driver_parallel([entry_line(c) for c in cases]) if ctx.model_ok else [None] * len(cases)
    for c, r, m in zip(cases, res, mres):
        out.evaluations += 1
        if "r" in r:
            canon = "k%s %s" % (r["r"]["kinds"], C.enc(r["r"]["out"]))
            if "S" in r["r"]["kinds"] and "E" in r["r"]["kinds"]:
                out.nontrivial.add(("entries", r["r"]["out"]))
            if "P" in r["r"]["kinds"]:
                out.violations.append({"what": "entries: placeholder in the pruned entry list", "input": c, "op": "ser.ents", "finding": None})
        else:
            canon = "exc:" + str(r.get("exc"))
            out.count("entries.exceptions")
        if m is not None and m != canon:
            out.disagreements.append({"op": "ser.ents", "ref": c["ref"], "old": c["old"], "new": c["new"], "impl": canon, "model": m})


def replay(payload):
    res = []
    for v in payload.get("violations", []):
        i = v["input"]
        if v.get("op") == "ser.ents":
            r = pool.pmap("impl.serialize", "impl_serialize_entries", [[i["ref"], i["old"], i["new"]]], timeout=10.0)[0]
            res.append({"input": i, "output": r, "oracle": ["placeholder in the pruned entry list"] if "r" in r and "P" in r["r"]["kinds"] else None})
            continue
        c = {"fmt": i["fmt"], "ref": i["ref"], "old": i["old"], "new": i["new"]}
        r = pool.pmap("impl.serialize", "impl_serialize", [[c["fmt"], c["ref"], c["old"], c["new"]]], timeout=10.0)[0]
        r = normalise(r)
        fails, _ = oracle(c, r)
        res.append({"input": i, "output": r["r"]["out"] if "r" in r else r, "oracle": fails or None})
    return {"violates": any(r["oracle"] for r in res), "cases": res}

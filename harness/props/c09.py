"""C09 — Android: crashing format arguments and bad quoting are errors."""
import itertools

from lib import common as C
from lib import pool
from lib.runner import Outcome

ID = "C09"
LEAN_TARGETS = ["CLModel.Props.C09"]
M = "CLModel.Props.C09"
THEOREMS = [
    (M, "C09.check_total", "AndroidChecker.check never leaves the modelled behaviour (int(order[0]) cannot raise, the format group always matched)"),
    (M, "C09.lex_model", "re.finditer of the printf regex = a hand-written left-to-right lexer (%, optional <1-9>$, f | .<digits>f | d | s | S), for all strings"),
    (M, "C09.params_model", "get_params = Java Formatter numbering: n$ explicit, ordinary specifiers count sequentially and independently; dict = first conversion per argument, count, conflicts = later uses with another conversion"),
    (M, "C09.apostrophes_model", "check_apostrophes = one error per non-overlapping \"\" of the value with escapes blanked out + (unless the silenced value starts and ends with a quote) one per apostrophe surviving the silencing of \\x and \"\""),
    (M, "C09.doubled_quote_iff", "a doubled quote found after blanking escapes = two adjacent quotes the first of which is not escaped (flag formulation)"),
    (M, "C09.android_error_iff", "for <string> entities: an error is yielded IFF translatable=false on either side, l10n text starts with @string/, l10n node is not plain text / one CDATA among white-space, doubled quote once escapes are blanked out, apostrophe surviving silencing in a value not enclosed in quotes, conflicting conversions inside l10n, or an l10n argument missing from / different in the reference"),
    (M, "C09.android_error_iff_any_tag", "the same for arbitrary node names: different names are an error, equal names other than string only a warning"),
    (M, "C09.android_subset_ok", "plain, properly escaped (no doubled quote once escapes are respected; apostrophes escaped or value enclosed in quotes), arguments a subset of the reference's with equal conversions => every result is a warning"),
    (M, "C09.android_omitted_warn", "under the same hypotheses an argument of the reference that l10n omits yields the warning 'Formatter %p$f not found in translation' and nothing is an error"),
    (M, "C09.android_omitted_warn_general", "the omitted-argument warning is produced whenever check_string gets as far as comparing arguments"),
    (M, "C09.escaped_quote_then_quote_ok", "positive example (formerly finding F14): \"say \\\"hi\\\"\" is quoted, all inner quotes escaped, and gets no error"),
    # round 4: the checker's predicates as exact characterisations
    (M, "C09.get_params_java", "get_params is sound and complete for the Java Formatter numbering stated as an inductive RELATION (k$ addresses argument k, ordinary specifiers count on their own): dict entry p->f iff the first specifier addressing p has conversion f; count = number of specifiers; errors = exactly the later uses with another conversion"),
    (M, "C09.numbered_exists_unique", "the numbering relation admits exactly one numbering of every specifier list"),
    (M, "C09.get_params_conflict_iff", "get_params reports a conflict iff some argument is addressed with two different conversions"),
    (M, "C09.apostrophes_error_iff", "check_apostrophes yields anything (always an error) iff: doubled straight quote once escapes are blanked, or an apostrophe survives silencing in a value not enclosed in quotes; for all strings"),
    (M, "C09.non_simple_data_iff", "non_simple_data(node) is False iff the node has no children, one text child, or exactly one CDATA among white-space-only text children and nothing else; for all child lists"),
    (M, "C09.textContent_cdata_anywhere", "textContent returns the data of the first CDATA child wherever it stands among the children (not only as firstChild)"),
    (M, "C09.textContent_no_cdata", "without a CDATA child textContent is '' / the data of the only text child / node.toxml()"),
    (M, "C09.textContent_simple", "on every node shape the checker accepts textContent is the node's text: '' , the single text child, or THE CDATA section among white-space"),
    # round 4: the parser
    (M, "C09.walk_string_entities", "AndroidParser.walk: every <string name=..> child of <resources> yields exactly one AndroidEntity, in document order, key = its name attribute, raw_val = textContent(element); entities+junk of the walk = handleElement of the element children one by one, whatever stands between them"),
    (M, "C09.walk_only_localizable", "walk(only_localizable=True) (= Parser.parse / __iter__) = the AndroidEntity and XMLJunk entries of walk(), for every input"),
    (M, "C09.walk_total", "walk never raises on a document whose nodes can be serialised (no ]]> in CDATA, no -- in comments: every tree the XML parser builds)"),
    (M, "C09.walk_all_sublist", "the all texts of walk() concatenate to: fixed XML head + root attributes (unescaped) + '>' + toxml() of a SUB-SEQUENCE of the root's children in order + '</resources>\\n': every text is a function of the DOM node summary, nothing invented, duplicated or reordered"),
    (M, "C09.walk_lossless", "no child is lost when the children are <string name> elements, text and comments, no adjacent text nodes, and the list does not end with comment + short white-space"),
    (M, "C09.walk_roundtrip", "if moreover the root has a child and plain attribute values, the all texts concatenate to the XML declaration + documentElement.toxml() + newline: a document in canonical form is reproduced exactly"),
    (M, "C09.wrap_unbound_iff", "AndroidEntity.wrap raises UnboundLocalError exactly for an element without child nodes"),
    (M, "C09.wrap_single_text", "wrap on an element with one text child makes the new value the element's text"),
    (M, "C09.wrap_single_element_ignored", "wrap on an element whose only child is an element does not write the new value"),
    (M, "C09.check_positions_inside", "every check result's position is the offset of a U+FFFD in l10n.all (encoding warning), 0, an offset inside the localized value, or an offset inside the reference text (conflicts of the reference)"),
    (M, "C09.entry_positions", "position(offset) and value_position(offset) of every Android entry are the constant (0, offset)"),
    (M, "C09.check_result_position", "the (line, column) reported for an Android check result is (0, pos) with pos a natural number"),
    (M, "C09.docCheck_append", "the checker has no history: results for the entities of a document do not depend on the entities checked before"),
    (M, "C09.junkCounters_spec", "the only state of walk is the junk counter: XMLJunk keys count start+1, start+2, ... in yield order"),
]
PARTIAL = []
TRUSTED = [
    "hand-written model CLModel/Checks/Android.lean of AndroidChecker.check/check_string/not_translatable/no_at_string/"
    "non_simple_data/check_apostrophes/get_params/check_params and of textContent/handleElement "
    "(tied by the `android.check`, `android.params`, `android.apos` correspondence)",
    "the minidom node (node name, translatable attribute, child node types and data, toxml()) is an input of the model",
    "regexes and the compared string constants are regenerated from /repo by the translator on every run",
    "round 4: hand-written model CLModel/Checks/AndroidParser.lean of parser/android.py (entity classes, textContent, normalize, "
    "AndroidParser.walk / handleElement / handleComment, AndroidEntity.wrap, position / value_position) on the minidom NODE SUMMARY "
    "(tied by the c09.walk, c09.pos, c09.wrap, c09.norm, c09.doccheck correspondence); expat / minidom parsing of the bytes is external: "
    "the DOM tree (node types, names, attribute list in minidom order, data) is the input",
    "round 4: the models of minidom Node.toxml() / Document.toxml() (CPython 3.12 writexml with empty indent) and of "
    "xml.sax.saxutils.quoteattr are contracts of external libraries, tied by c09.toxml and c09.walk",
    "the string constants of parser/android.py (wrapper texts, tag and attribute names, newline thresholds, strip characters) are "
    "regenerated into Gen/TablesAndroid.lean by the translator on every run",
]
ASSUMPTIONS = [
    "strings are <string name=…> elements of a well-formed strings.xml (anything else never becomes an AndroidEntity: theorem walk_string_entities)",
    "format arguments are the forms the checker's regex knows: %[n$](s|S|d|f|.Nf), n a single digit 1-9",
]
LEVEL_TEXT = ("Lean 4 theorems over an executable transliteration of AndroidChecker.check (including the regex engine running the "
              "checker's own, regenerated, regexes): for ALL node shapes and ALL strings the set of cases in which an error is yielded is "
              "characterised exactly (iff) in terms of regex-free reference notions (hand-written printf lexer, Java-style argument numbering, "
              "escape silencing, quoting, node shape); subset-of-arguments strings only get warnings, omitted arguments get their warning; "
              "the model is tied to the Python by bounded-exhaustive and random differential runs through the real AndroidParser, and an "
              "oracle built from the generator's tokens checks the property on the implementation directly. Round 4: the whole of "
              "parser/android.py is transliterated on the minidom node summary and tied by whole-document streams; theorems: every "
              "<string name> child yields exactly one entity with key = name and raw_val = textContent, only_localizable = entities + junk, "
              "the all texts are the serialisation of a sub-sequence of the DOM children (all of them for clean child lists; exact round "
              "trip on canonical documents), get_params is sound and complete for the Java numbering given as a relation, "
              "check_apostrophes / non_simple_data / textContent characterised exactly, positions of all results located")
LEVEL_NOTE = ("trusted: Lean kernel; the hand-written model (validated by correspondence on every run); regex semantics = CPython re on the "
              "audited subset; the minidom node (children by type, data, toxml) is an input of the model. Format forms "
              "the checker's regex does not know (%10$s, %x, %02d, %%) are outside the property's token set")
TECHNIQUE = "Lean 4 proof over an executable model (regex engine included) + differential correspondence with the Python implementation"

# ------------------------------------------------------------------ tokens
# (class, xml spelling, decoded text, formatter uses [(explicit position | None, conversion)])
#   T text, WS white-space, EA escaped apostrophe, BA bare apostrophe, EQ escaped quote, BQ bare quote,
#   EB escaped backslash, EX other escape, F formatter, AT @string/ reference, M inline markup, CM comment,
#   CD CDATA section (composite), D "dirty" (pieces that can fuse with their neighbours: correspondence only)


class Tok:
    __slots__ = ("cls", "xml", "text", "fmts", "inner")

    def __init__(self, cls, xml, text=None, fmts=(), inner=None):
        self.cls = cls
        self.xml = xml
        self.text = xml if text is None else text
        self.fmts = list(fmts)
        self.inner = inner

    def __repr__(self):
        return "%s(%r)" % (self.cls, self.xml)


def F(xml):
    body = xml[1:]
    pos = None
    if len(body) > 2 and body[1] == "$":
        pos = int(body[0])
        body = body[2:]
    return Tok("F", xml, fmts=[(pos, body)])


def CD(inner):
    raw = "".join(t.text for t in inner)
    return Tok("CD", "<![CDATA[" + raw + "]]>", raw, inner=list(inner))


T_A = Tok("T", "a")
T_FOO = Tok("T", "foo bar")
T_E = Tok("T", "é")
T_MOJI = Tok("T", "�")
T_ATX = Tok("T", "@strings")      # not a reference
# not format arguments by assumption A2 (the forms the checker's regex knows): plain text
T_P0 = Tok("T", "%0$s")
T_PDOT = Tok("T", "%.f")
T_P10 = Tok("T", "%10$s")
WS = Tok("WS", " ")
WSN = Tok("WS", "\n    ")
EA = Tok("EA", "\\'")
EA2 = Tok("EA", "\\&apos;", "\\'")
BA = Tok("BA", "'")
BA2 = Tok("BA", "&apos;", "'")
BA3 = Tok("BA", "&#39;", "'")
EQ = Tok("EQ", '\\"')
EQ2 = Tok("EQ", "\\&quot;", '\\"')
BQ = Tok("BQ", '"')
BQ2 = Tok("BQ", "&quot;", '"')
EB = Tok("EB", "\\\\")
EXN = Tok("EX", "\\n")
EXU = Tok("EX", "\\u0027")
AT = Tok("AT", "@string/foo")
M_B = Tok("M", "<b>x</b>")
M_BR = Tok("M", "<br/>")
M_XS = Tok("M", '<xliff:g id="x">%s</xliff:g>', fmts=[(None, "s")])
M_X1 = Tok("M", '<xliff:g id="y">%1$d</xliff:g>', fmts=[(1, "d")])
CM = Tok("CM", "<!-- c -->")
FS, FD, F1S, F2D, F1D, F2S, FF, FUS, F3S, F1F, FPF = [F(x) for x in (
    "%s", "%d", "%1$s", "%2$d", "%1$d", "%2$s", "%.2f", "%S", "%3$s", "%1$.2f", "%f")]
DIRTY = [Tok("D", x) for x in ("%", "%%", "$", "1", ".", "\\", "s", "d", "f", "\\\n", "%1$", "%.", "9", "&amp;", "&lt;")]

QUOTE_ALPHA = [T_A, WS, EA, BA, EQ, BQ, EB, BA2, BQ2]
PARAM_ALPHA = [T_A, FS, FD, F1S, F2D, F1D, F2S, FF, FUS]
PARAM_SMALL = [FS, FD, F1S, F2D, F1D]
CD_FIXED = [CD([T_A]), CD([BA, T_A]), CD([EA, FS]), CD([AT]), CD([BQ, BA, BQ]), CD([])]
FULL_ALPHA = (QUOTE_ALPHA + [FS, FD, F1S, F2D, FF, F3S, T_MOJI, T_ATX, T_P0, T_PDOT, T_P10, WSN, EXN, AT, M_B, M_BR, M_XS, CM, EA2, EQ2]
              + CD_FIXED[:5] + DIRTY[:6])
REF_FIXED = [[], [T_FOO], [FS], [FS, FD], [F1S, F2D], [F1S, F1D], [T_A, M_XS], [CD([FS, T_A])], [AT], [FF, FS],
             [M_X1, CD([FS])], [WS, CD([F2D, F1S]), WSN]]
RANDOM_ALPHA = (FULL_ALPHA + [T_FOO, T_E, BA3, EXU, M_X1, F1F, FPF, FUS, F1D, F2S] + DIRTY)
INNER_ALPHA = [T_A, T_FOO, WS, EA, BA, EQ, BQ, EB, FS, FD, F1S, F2D, FF, AT, EXN, Tok("T", "<b>"), Tok("T", "&")]


class Value:
    """one <string> element: tokens + attributes"""
    __slots__ = ("toks", "tr", "comment", "tag")

    def __init__(self, toks, tr=None, comment=False, tag="string"):
        self.toks = list(toks)
        self.tr = tr
        self.comment = comment
        self.tag = tag

    def spec(self):
        return {"content": "".join(t.xml for t in self.toks), "tr": self.tr, "comment": self.comment, "tag": self.tag}

    def key(self):
        return ("".join(t.xml for t in self.toks), self.tr, self.comment, self.tag)

    def to_json(self):
        def tj(t):
            return [t.cls, t.xml, t.text, [list(f) for f in t.fmts], None if t.inner is None else [tj(x) for x in t.inner]]
        return {"toks": [tj(t) for t in self.toks], "tr": self.tr, "comment": self.comment, "tag": self.tag}

    @staticmethod
    def from_json(j):
        def tk(x):
            return Tok(x[0], x[1], x[2], [tuple(f) for f in x[3]], None if x[4] is None else [tk(y) for y in x[4]])
        return Value([tk(x) for x in j["toks"]], j["tr"], j["comment"], j["tag"])


# ------------------------------------------------------------------ independent argument and quoting model
def is_dirty(toks):
    return any(t.cls == "D" or (t.inner is not None and is_dirty(t.inner)) for t in toks)


def shape(v):
    """-> (simple, content tokens): simple True / False / None (None = the property does not say)"""
    toks = v.toks
    cds = [t for t in toks if t.cls == "CD"]
    if any(t.cls in ("M", "CM") for t in toks):
        return False, None
    if any(not t.inner for t in cds):
        return None, None           # an empty CDATA section: whether the library makes a node of it is its business
    if len(cds) > 1:
        return False, None
    if len(cds) == 1:
        if all(t.cls == "WS" for t in toks if t.cls != "CD"):
            return True, cds[0].inner
        return False, None          # neither plain text nor a single CDATA section: a mix of both
    return True, toks


def arg_uses(toks):
    """Java Formatter numbering: explicit n$ addresses argument n; ordinary specifiers take the next
    sequential argument, independent of explicit ones.  -> {argument: set of conversions}"""
    uses = {}
    nxt = 1
    for t in toks:
        for pos, conv in t.fmts:
            if pos is None:
                pos = nxt
                nxt += 1
            uses.setdefault(pos, set()).add(conv)
    return uses


def ref_args(v):
    """arguments of the reference, or None where the statement does not determine them"""
    simple, content = shape(v)
    if simple:
        return arg_uses(content)
    if simple is False and not any(t.cls == "CD" for t in v.toks):
        return arg_uses(v.toks)       # inline markup: formatters inside the markup count
    return None


def verdict(ref, l10n):
    """-> (kind, reasons, omitted) with kind in must-error / must-not-error / open"""
    if ref.tag != "string" or l10n.tag != "string":
        return "open", ["not a <string>"], None
    if is_dirty(ref.toks) or is_dirty(l10n.toks):
        return "open", ["dirty tokens"], None
    if ref.tr == "false" or l10n.tr == "false":
        return "must-error", ["translatable=false"], None
    simple, ct = shape(l10n)
    if simple is False:
        return "must-error", ["markup"], None
    if simple is None:
        return "open", ["empty CDATA section"], None
    must, opn = [], []
    if ct and ct[0].cls == "AT":
        must.append("@string/ reference")
    cls = [t.cls for t in ct]
    if any(a == "BQ" and b == "BQ" for a, b in zip(cls, cls[1:])):
        must.append("doubled straight quote")
    if "BA" in cls:
        exact = len(cls) >= 2 and cls[0] == "BQ" and cls[-1] == "BQ"
        trimmed = [c for c in cls]
        while trimmed and trimmed[0] == "WS":
            trimmed.pop(0)
        while trimmed and trimmed[-1] == "WS":
            trimmed.pop()
        trim_q = len(trimmed) >= 2 and trimmed[0] == "BQ" and trimmed[-1] == "BQ"
        if not exact:
            if trim_q:
                opn.append("quoted up to surrounding white-space")
            else:
                must.append("unescaped apostrophe in unquoted string")
    lu = arg_uses(ct)
    ru = ref_args(ref)
    omitted = None
    if any(len(s) > 1 for s in lu.values()):
        must.append("conflicting conversions within the string")
    if ru is None:
        if lu:
            opn.append("reference arguments not determined")
    else:
        for p, convs in sorted(lu.items()):
            if p not in ru:
                must.append("argument %d not in reference" % p)
            elif len(ru[p]) > 1:
                opn.append("reference conflicts at %d" % p)
            elif len(convs) == 1 and convs != ru[p]:
                must.append("conversion of argument %d differs" % p)
        omitted = sorted(p for p in ru if p not in lu)
    if must:
        return "must-error", must, None
    if opn:
        return "open", opn, None
    return "must-not-error", [], omitted


def oracle(ref, l10n, r):
    """None or (message, finding id | None)"""
    if r.get("canon") == "raise":
        return "the checker raised %s" % r.get("exc"), None
    kind, why, omitted = verdict(ref, l10n)
    res = r["res"]
    errors = [x for x in res if x[0] == "error"]
    if any(x[0] not in ("error", "warning") for x in res):
        return "unknown severity in %r" % (res,), None
    if kind == "must-error" and not errors:
        return "no error although: %s" % "; ".join(why), None
    if kind == "must-not-error":
        if errors:
            return "plain, properly escaped string with a subset of the reference's arguments gets %r" % (errors,), None
        for p in omitted or []:
            if not any(x[0] == "warning" and x[2].startswith("Formatter %%%d$" % p) and x[2].endswith("not found in translation")
                       for x in res):
                return "omitted argument %d is not warned about" % p, None
    return None


def classify(v):
    return v.get("finding")


# ------------------------------------------------------------------ generators
def seqs(alpha, maxlen, minlen=0):
    for n in range(minlen, maxlen + 1):
        for toks in itertools.product(alpha, repeat=n):
            yield list(toks)


def gen_cases(ctx):
    """lazily yields (stratum, ref Value, l10n Value)"""
    rng = ctx.rng("c09")
    quick = ctx.tier == "quick"
    plain = Value([T_FOO])
    # (a) quoting: every l10n token sequence, as text and inside one CDATA section
    for toks in seqs(QUOTE_ALPHA, 4 if quick else 6):
        yield ("quote", plain, Value(toks))
        if len(toks) <= (3 if quick else 4):
            yield ("quote.cdata", plain, Value([WSN, CD(toks), WS]))
    # (b) arguments: pairs of formatter sequences
    for r in seqs(PARAM_ALPHA, 2):
        for l in seqs(PARAM_ALPHA, 3 if quick else 4):
            yield ("args", Value(r), Value(l))
    small = list(seqs(PARAM_SMALL, 3 if quick else 4))
    for r in small:
        for l in small:
            yield ("args.small", Value(r), Value(l))
    # (c) everything: fixed references x every l10n sequence over the full alphabet, attributes varied
    attrs = [(None, None), ("false", None), (None, "false"), ("true", "true")]
    i = 0
    for r in REF_FIXED:
        for l in seqs(FULL_ALPHA, 2):
            rt, lt = attrs[i % 4] if i % 5 == 0 else (None, None)
            yield ("full", Value(r, rt, comment=i % 3 == 0), Value(l, lt, comment=i % 7 == 0))
            i += 1
    if not quick:
        for l in seqs(FULL_ALPHA, 3, 3):
            yield ("full3", Value([FS, FD]), Value(l))

    # (d) random longer pairs
    def rnd_value(alpha, maxlen):
        toks = []
        for _ in range(rng.randrange(maxlen + 1)):
            x = rng.random()
            if x < 0.08:
                toks.append(CD([rng.choice(INNER_ALPHA) for _ in range(rng.randrange(5))]))
            else:
                toks.append(rng.choice(alpha))
        tr = rng.choice([None] * 12 + ["false", "false", "true", "FALSE", ""])
        return Value(toks, tr, comment=rng.random() < 0.2)

    for _ in range(ctx.n(12000, 400000)):
        x = rng.random()
        if x < 0.35:       # clean plain strings with arguments and quoting
            a = QUOTE_ALPHA + PARAM_ALPHA + [F3S, F1F, T_FOO, WSN, T_P0, T_PDOT, T_P10]
            r = Value([rng.choice(PARAM_ALPHA + [T_FOO, F3S, F1F]) for _ in range(rng.randrange(6))])
            l = Value([rng.choice(a) for _ in range(rng.randrange(9))])
            if rng.random() < 0.3:
                l = Value([WSN, CD(l.toks), WSN])
        elif x < 0.5:      # quoted strings
            inner = [rng.choice(QUOTE_ALPHA + [FS, F1S, T_FOO]) for _ in range(rng.randrange(7))]
            r = Value([rng.choice(PARAM_ALPHA) for _ in range(rng.randrange(3))])
            l = Value([BQ] + inner + [BQ])
        else:
            r = rnd_value(RANDOM_ALPHA, 5)
            l = rnd_value(RANDOM_ALPHA, 8)
        yield ("random", r, l)
    # (e) other resource types (entities built the way handleElement does)
    for rtag, ltag in (("plurals", "plurals"), ("string", "plurals"), ("plurals", "string"), ("string-array", "string-array")):
        for l in ([T_A], [BA], [FS], [T_MOJI], []):
            yield ("tags", Value([T_FOO], tag=rtag), Value(l, tag=ltag))


def gen_strings(ctx):
    """raw strings for the get_params / check_apostrophes correspondence (no XML involved)"""
    rng = ctx.rng("c09", "strings")
    pieces = ["%", "s", "d", "S", "f", "1", "9", "0", "$", ".", "2", "a", " ", "%s", "%1$", "%.", "'", '"', "\\", "\n", "%%", "é"]
    out = []
    for n in range(0, 4 if ctx.tier == "quick" else 5):
        for p in itertools.product(pieces[:14], repeat=n):
            out.append("".join(p))
    for _ in range(ctx.n(4000, 80000)):
        out.append("".join(rng.choice(pieces) for _ in range(rng.randrange(1, 12))))
    return out


# ====================================================================== round 4: the parser (documents)
# A document = prolog + <resources attrs> + body pieces + </resources> + epilog.  A body piece is
# (xml, kind, info): kind in comment / text (text and white-space: adjacent ones fuse into one DOM text node) /
# cdata / pi / string (info = (key, expected raw_val | None)) / other (an element the parser makes no entity of).
class Piece:
    __slots__ = ("xml", "kind", "key", "raw", "nl")

    def __init__(self, xml, kind, key=None, raw=None, nl=0):
        self.xml, self.kind, self.key, self.raw, self.nl = xml, kind, key, raw, nl


def P_comment(data):
    return Piece("<!--%s-->" % data, "comment")


def P_text(data):
    return Piece(data, "text", nl=data.count("\n"))


def P_cdata(data):
    return Piece("<![CDATA[%s]]>" % data, "cdata", nl=data.count("\n"))


def P_string(key, content, raw, extra=""):
    return Piece('<string name="%s"%s>%s</string>' % (key, extra, content), "string", key, raw)


P_C, P_W1, P_W2, P_T, P_D, P_PI = P_comment(" c "), P_text("\n  "), P_text("\n\n  "), P_text("txt"), P_cdata("x"), Piece("<?pi d?>", "pi")
P_O = Piece('<plurals name="p"><item quantity="one">x</item></plurals>', "other")
DOC_SMALL = ["c", "w1", "w2", "s", "o", "p", "d", "t"]
DOC_EXTRA_PIECES = [
    P_comment("a\n   b "), P_comment(""), P_comment(" "), P_comment("\t x \t\n\n y"),
    P_text(" "), P_text("\n"), P_text("\n\n\n"), P_text("\t\n\t"), P_text("a\nb\nc"), P_text("&amp;&lt;&quot;'"),
    P_cdata("\n\n"), P_cdata(" "), P_cdata("a\n"),
    Piece("<?xml-stylesheet href='a'?>", "pi"),
    Piece("<string>noname</string>", "other"), Piece("<skip/>", "other"),
    Piece('<string-array name="a"><item>x</item></string-array>', "other"),
    Piece('<string xmlns:x="u" x:name="q">v</string>', "other"),
    Piece('<item name="i">v</item>', "other"),
]
STRING_BODIES = [  # (content, expected raw_val | None, extra attributes)
    ("v", "v", ""), ("it's", "it's", ""), ("%1$s and %d", "%1$s and %d", ""), ("", "", ""),
    ("<![CDATA[a<b]]>", "a<b", ""), (" \n <![CDATA[b]]> \n", "b", ""), ("<![CDATA[a]]><![CDATA[b]]>", "a", ""),
    ("x<![CDATA[c]]>", "c", ""), ("a<b>c</b>", None, ""), ("<b>c</b>", None, ""), ("<!--n-->", None, ""),
    ("&amp; &lt; &quot; &gt; '", "& < \" > '", ""), ("nope", "nope", ' translatable="false"'),
    ("q", "q", " b='x\"y&gt;'"), ("�", "�", ""), ("@string/foo", "@string/foo", ""),
    ('"it\'s"', '"it\'s"', ""), ("\\'\\\"", "\\'\\\"", ""),
]
ROOTS = ["<resources>", '<resources xmlns:xliff="urn:oasis:names:tc:xliff:document:1.2">',
         '<resources b="2" a="1 &amp; &lt;&quot;&gt;">', "<resources\n   a = 'x'  >"]
PROLOGS = ["", '<?xml version="1.0" encoding="utf-8"?>\n', '<?xml version="1.0"?><!-- top --><?p q?>\n',
           '<!DOCTYPE resources [<!ENTITY x "y">]>\n', '<!DOCTYPE resources SYSTEM "foo.dtd">',
           '<!DOCTYPE resources PUBLIC "-//A//B" "foo.dtd" [<!ELEMENT resources ANY>]>']
EPILOGS = ["\n", "", "<!-- after -->\n", "<?e f?>"]
JUNK_DOCS = [
    "", " ", "\n", "plain text", "<resources>", "<resources><string name='a'>x</resources>", "<resource/>", "<Resources></Resources>",
    '<ns:resources xmlns:ns="u"><string name="a">x</string></ns:resources>', "<resources/><resources/>", "<resources>&nbsp;</resources>",
    "<resources>]]></resources>", "<resources>\x00</resources>", "<resources>\ud800</resources>", "<a><resources/></a>",
    '<!DOCTYPE a [<!ENTITY x "y">]><?p q?><!--c--><a b="1 &amp; 2">&x;<![CDATA[z]]><c/></a><!--d-->',
    '<!DOCTYPE a SYSTEM "s.dtd"><a/>', '<!DOCTYPE a PUBLIC "p" "s"><a>t</a>', "<resources a='1' a='2'/>",
    "<?xml version='1.0' encoding='latin-1'?><resources/>", "﻿<resources/>", "<resources><string name='a'>x</string>",
]


def build_doc(pieces, root=0, prolog=1, epilog=0):
    body = "".join(p.xml for p in pieces)
    r = ROOTS[root]
    if not pieces and root == 0 and prolog % 2 == 0:
        return PROLOGS[prolog] + "<resources/>" + EPILOGS[epilog]
    return PROLOGS[prolog] + r + body + "</resources>" + EPILOGS[epilog]


def small_piece(sym, i):
    if sym == "s":
        return P_string("k%d" % i, "v%d" % i, "v%d" % i)
    return {"c": P_C, "w1": P_W1, "w2": P_W2, "o": P_O, "p": P_PI, "d": P_D, "t": P_T}[sym]


def norm_expected(data):
    """independent statement of `normalize`: blanks and tabs are removed at both ends and around every newline"""
    return "\n".join(line.strip(" \t") for line in data.split("\n"))


def dom_nodes(pieces):
    """DOM children by kind, adjacent text pieces fused: [kind, newlines, piece, data | None]"""
    nodes = []
    for p in pieces:
        data = p.xml[4:-3] if p.kind == "comment" else (p.xml if p.kind == "text" and "&" not in p.xml else None)
        if p.kind == "text" and nodes and nodes[-1][0] == "text":
            prev = nodes[-1]
            nodes[-1] = ["text", prev[1] + p.nl, None, None if (prev[3] is None or data is None) else prev[3] + data]
        else:
            nodes.append([p.kind, p.nl, p, data])
    return nodes


def expected_of(pieces):
    """independent expectation from the construction: for every <string name=…> piece, in order,
    (key, raw_val | None, comment attached?, expected comment value | None) and the number of elements that are not
    entities.  Attachment rule as documented in the parser: a comment belongs to the element that follows it, possibly
    after one white-space / CDATA node with at most one newline; consecutive comments separated by at most one newline
    are one comment, whose value is the normalised text of its parts."""
    nodes = dom_nodes(pieces)
    ents, others = [], 0
    for i, (kind, _, p, _d) in enumerate(nodes):
        if kind == "other":
            others += 1
        if kind != "string":
            continue
        j = i - 1
        if j >= 0 and nodes[j][0] in ("text", "cdata") and nodes[j][1] <= 1:
            # a CDATA node right after a comment is taken as white-space of the entity, a text node too
            if j - 1 >= 0 and nodes[j - 1][0] == "comment":
                j -= 1
        attached = j >= 0 and nodes[j][0] == "comment"
        cval = None
        if attached:
            parts = [nodes[j][3]]
            k = j
            while True:
                if k - 1 >= 0 and nodes[k - 1][0] == "comment":
                    k -= 1
                    parts.insert(0, nodes[k][3])
                elif k - 2 >= 0 and nodes[k - 1][0] == "text" and nodes[k - 1][1] <= 1 and nodes[k - 2][0] == "comment":
                    parts.insert(0, nodes[k - 1][3])
                    k -= 2
                    parts.insert(0, nodes[k][3])
                else:
                    break
            if all(x is not None for x in parts):
                cval = "".join(norm_expected(x) for x in parts)
        ents.append((p.key, p.raw, attached, cval))
    return ents, others


def gen_docs(ctx):
    """lazily yields (stratum, text | None, pieces | None)"""
    rng = ctx.rng("c09", "docs")
    quick = ctx.tier == "quick"
    yield ("doc.none", None, None)
    for t in JUNK_DOCS:
        yield ("doc.junk", t, None)
    # exhaustive sequences over the small alphabet
    for n in range(0, (4 if quick else 5) + 1):
        for syms in itertools.product(DOC_SMALL, repeat=n):
            pieces = [small_piece(x, i) for i, x in enumerate(syms)]
            yield ("doc.small", build_doc(pieces), pieces)
    # roots / prologs / epilogs over a few bodies
    bodies = [[], [P_W1, P_string("a", "x", "x"), P_W1], [P_C, P_W1, P_string("a", "x", "x")], [P_T]]
    for r in range(len(ROOTS)):
        for pl in range(len(PROLOGS)):
            for ep in range(len(EPILOGS)):
                for b in bodies:
                    yield ("doc.frame", build_doc(b, r, pl, ep), b)
    # every string body, alone and after a comment
    for i, (content, raw, extra) in enumerate(STRING_BODIES):
        st = P_string("s%d" % i, content, raw, extra)
        for pre in ([], [P_C], [P_C, P_W1], [P_C, P_W2], [P_C, P_D], [P_W1, DOC_EXTRA_PIECES[0], P_W1, P_C, P_text("\n")]):
            yield ("doc.strings", build_doc(pre + [st, P_W1]), pre + [st, P_W1])
    # random longer bodies over everything
    for _ in range(ctx.n(2000, 60000)):
        pieces = []
        for i in range(rng.randrange(1, 11)):
            x = rng.random()
            if x < 0.55:
                pieces.append(small_piece(rng.choice(DOC_SMALL), i))
            elif x < 0.8:
                pieces.append(rng.choice(DOC_EXTRA_PIECES))
            else:
                content, raw, extra = rng.choice(STRING_BODIES)
                key = rng.choice(["k%d" % i, "dup", ""])
                pieces.append(P_string(key, content, raw, extra))
        root = rng.randrange(len(ROOTS)) if rng.random() < 0.3 else 0
        pl = rng.randrange(len(PROLOGS)) if rng.random() < 0.3 else 1
        ep = rng.randrange(len(EPILOGS)) if rng.random() < 0.3 else 0
        yield ("doc.random", build_doc(pieces, root, pl, ep), pieces)


def lossless_expected(text, pieces):
    """True when the document is in the parser's own canonical form and of the shape for which nothing may be lost
    (theorem C09.walk_lossless): standard XML declaration, <resources> without attributes, children that are plain
    <string name=…> elements, text and comments, not ending with comment + white-space of at most one newline.
    Then the `all` texts of walk() must concatenate to the document itself."""
    if pieces is None or not text.startswith(PROLOGS[1] + "<resources>") or not text.endswith("</resources>\n"):
        return False
    for p in pieces:
        if p.kind == "string":
            if not p.raw or p.xml != '<string name="%s">%s</string>' % (p.key, p.raw) or not p.key or any(c in p.raw for c in "&<>\"'"):
                return False
        elif p.kind == "comment":
            if "&" in p.xml:
                return False
        elif p.kind == "text":
            if any(c in p.xml for c in "&<>\"") or "\r" in p.xml:
                return False
        elif p.kind == "cdata":
            # a CDATA section between the elements is kept as white-space unless a comment is involved
            if any(q.kind == "comment" for q in pieces) or "]]>" in p.xml[9:-3]:
                return False
        else:
            return False
    # trailing comment + short white-space: the white-space is consumed by handleComment and never yielded
    nodes = []
    for p in pieces:
        if p.kind == "text" and nodes and nodes[-1][0] == "text":
            nodes[-1] = ("text", nodes[-1][1] + p.nl)
        else:
            nodes.append((p.kind, p.nl))
    if len(nodes) >= 2 and nodes[-1][0] == "text" and nodes[-1][1] <= 1 and nodes[-2][0] == "comment":
        return False
    return True


def doc_oracle(pieces, full, loc, text=None):
    """None or a message.  `full` / `loc` = adapter results of walk() / walk(only_localizable=True)."""
    for name, r in (("walk()", full), ("walk(only_localizable=True)", loc)):
        if r.get("canon") == "raise":
            return "%s raised %s" % (name, r.get("exc"))
        if r.get("history_same") is False:
            return "%s: a parser object that was used before gives other entries than a fresh one" % name
        if r.get("parse_same") is False:
            return "Parser.parse() differs from walk(only_localizable=True)"
        if "?" in r["facts"]["classes"]:
            return "%s yields an object of an unknown class" % name
    fc, lc = full["facts"]["classes"], loc["facts"]["classes"]
    if [c for c in fc if c in "NJ"] != lc:
        return "only_localizable walk is not the entities and junk of the full walk: %s vs %s" % ("".join(fc), "".join(lc))
    if full["facts"]["entities"] != loc["facts"]["entities"]:
        return "entities of walk() and walk(only_localizable=True) differ"
    if pieces is None:
        return None
    if text is not None and lossless_expected(text, pieces) and "".join(full["facts"]["alls"]) != text:
        return "the all texts of walk() concatenate to %r, not to the (canonical, comment/string/text only) document" % (
            "".join(full["facts"]["alls"])[:300],)
    ents, others = expected_of(pieces)
    got = full["facts"]["entities"]
    if [e[0] for e in got] != [e[0] for e in ents]:
        return "entity keys %r, the document has the <string name> elements %r" % ([e[0] for e in got], [e[0] for e in ents])
    if full["facts"]["junk"] != others:
        return "%d junk entries for %d elements that are not <string name=…>" % (full["facts"]["junk"], others)
    # CDATA sections and processing instructions between the children of <resources> are outside the attachment rule
    # (the parser drops nodes around them, see NOTES "Round 4: observations"): no demand there
    attach_rule_applies = not any(p.kind in ("cdata", "pi") for p in pieces)
    for (key, raw, val, cval), (_, eraw, attached, ecval) in zip(got, ents):
        if raw != val:
            return "val != raw_val for %r" % key
        if eraw is not None and raw != eraw:
            return "raw_val of %r is %r, the element's text is %r" % (key, raw, eraw)
        if attach_rule_applies and attached != (cval is not None):
            return "comment of %r: attached=%r, by the attachment rule %r" % (key, cval is not None, attached)
        if attach_rule_applies and attached and ecval is not None and cval != ecval:
            return "comment of %r has the value %r, the normalised text of the comment is %r" % (key, cval, ecval)
    return None


def run_docs(ctx, out):
    cases = list(gen_docs(ctx))
    seen, uniq = set(), []
    for st, text, pieces in cases:
        if text in seen:
            continue
        seen.add(text)
        uniq.append((st, text, pieces))
    cases = uniq
    full = pool.pmap("impl.android", "impl_walk", [[t, False] for _, t, _ in cases], timeout=10.0, batch=128)
    loc = pool.pmap("impl.android", "impl_walk", [[t, True] for _, t, _ in cases], timeout=10.0, batch=128)
    lines, owner = [], []
    for i, (a, b) in enumerate(zip(full, loc)):
        for tag, x in (("full", a), ("loc", b)):
            if "r" in x:
                lines.append(x["r"]["line"])
                owner.append((i, tag))
    model = C.run_driver_parallel(lines) if ctx.model_ok else [None] * len(lines)
    mo = dict(zip(owner, model))
    for i, ((st, text, pieces), a, b) in enumerate(zip(cases, full, loc)):
        out.evaluations += 1
        out.count("cases." + st)
        inp = {"doc": text, "stratum": st}
        if "exc" in a or "exc" in b:
            x = a if "exc" in a else b
            out.violations.append({"what": "adapter/parser raised %s: %s" % (x["exc"], x.get("msg")), "input": inp})
            continue
        bad = doc_oracle(pieces, a["r"], b["r"], text)
        if pieces is not None and lossless_expected(text, pieces):
            out.count("oracle.lossless")
        if bad:
            out.count("violations.doc")
            if out.distribution["violations.doc"] <= 200:
                out.violations.append({"what": bad, "input": inp, "classes": "".join(a["r"].get("facts", {}).get("classes", []))})
        for tag, x in (("full", a["r"]), ("loc", b["r"])):
            m = mo.get((i, tag))
            if m is not None and m != x["canon"]:
                out.count("disagreements.walk")
                if not bad and len(out.disagreements) < 500:
                    out.disagreements.append({"op": "c09.walk", "only_localizable": tag == "loc", "input": inp,
                                              "impl": x["canon"][:1500], "model": m[:1500]})
        if a["r"].get("canon") != "raise":
            out.nontrivial.add("doc:" + "".join(a["r"]["facts"]["classes"]))
    texts = [t for _, t, _ in cases]
    # positions: position(offset) / value_position(offset) of every entry
    rng = ctx.rng("c09", "pos")
    sample = [t for t in texts if t is None or rng.random() < (0.08 if ctx.tier == "quick" else 0.02)]
    pargs = [[t, off] for t in sample for off in (0, -1, 7, -12, 10 ** 9)]
    pres = pool.pmap("impl.android", "impl_pos", pargs, timeout=10.0, batch=128)
    pl = [x["r"]["line"] for x in pres if "r" in x]
    pm = iter(C.run_driver_parallel(pl) if ctx.model_ok else [None] * len(pl))
    for (t, off), x in zip(pargs, pres):
        out.evaluations += 1
        out.count("cases.pos")
        if "exc" in x:
            out.violations.append({"what": "position()/value_position() raised %s: %s" % (x["exc"], x.get("msg")),
                                   "input": {"doc": t, "offset": off}})
            continue
        r = x["r"]
        m = next(pm)
        if not r["wellformed"] or not r["defaults_zero"]:
            out.violations.append({"what": "position()/value_position() of an Android entry is not a pair of integers "
                                           "(or not (0, 0) by default)", "input": {"doc": t, "offset": off}, "got": r["canon"]})
        elif m is not None and m != r["canon"]:
            out.disagreements.append({"op": "c09.pos", "input": {"doc": t, "offset": off}, "impl": r["canon"][:600], "model": m[:600]})
    # toxml of every node of a sample of documents, and of hand-made nodes the XML parser cannot produce
    tsample = [["text", t] for t in texts if t is not None and rng.random() < (0.05 if ctx.tier == "quick" else 0.01)]
    tsample += [["text", t] for t in JUNK_DOCS]
    hand = [["C", "a]]>b"], ["C", "]]"], ["C", "]]>"], ["M", "a--b"], ["M", "-"], ["M", "--"], ["M", "a-"], ["T", ""], ["T", "<&>\"'"],
            ["P", "t", ""], ["E", "a", [], []], ["E", "a", [["x", "<&>\"'\n"], ["y", ""]], [["T", "t"], ["C", "c"]]],
            ["E", "a", [], [["E", "b", [], [["C", "x]]>"]]]]], ["E", "a", [], [["M", "x--"], ["T", "t"]]], ["E", "a", [], [["T", ""]]]]
    tsample += [["build", h] for h in hand]
    tres = pool.pmap("impl.android", "impl_toxml", tsample, timeout=10.0, batch=64)
    tl, tc = [], []
    for x, a in zip(tres, tsample):
        if "exc" in x:
            out.violations.append({"what": "toxml adapter raised %s: %s" % (x["exc"], x.get("msg")), "input": {"toxml": a}})
            continue
        tl += x["r"]["lines"]
        tc += x["r"]["canons"]
    tm = C.run_driver_parallel(tl) if ctx.model_ok else [None] * len(tl)
    for line, c, m in zip(tl, tc, tm):
        out.evaluations += 1
        out.count("cases.toxml")
        if c == "raise":
            out.nontrivial.add("toxml:raise")
        if m is not None and m != c:
            out.disagreements.append({"op": "c09.toxml", "line": line[:600], "impl": c[:600], "model": m[:600]})
    # AndroidEntity.wrap(raw_val) of every entity of a sample of documents
    wsample = [t for t in texts if t is not None and "<string" in t and rng.random() < (0.1 if ctx.tier == "quick" else 0.03)]
    wargs = [[t, raw] for t in wsample for raw in ("new", "a <b>&amp;</b> \"q\" 'r'", "x]]>y", "")]
    wres = pool.pmap("impl.android", "impl_wrap", wargs, timeout=10.0, batch=128)
    wl = [x["r"]["line"] for x in wres if "r" in x]
    wm = iter(C.run_driver_parallel(wl) if ctx.model_ok else [None] * len(wl))
    for (t, raw), x in zip(wargs, wres):
        out.evaluations += 1
        out.count("cases.wrap")
        if "exc" in x:
            # anything but the two modelled exceptions
            out.disagreements.append({"op": "c09.wrap", "input": {"doc": t, "raw": raw}, "impl": "%s: %s" % (x["exc"], x.get("msg"))})
            continue
        m = next(wm)
        if x["r"]["roundtrip_bad"]:
            k, allt, back = x["r"]["roundtrip_bad"][0]
            out.violations.append({"what": "wrap(%r) of the plain string %r gives %r, which parses back to %r" % (raw, k, allt[:200], back),
                                   "input": {"doc": t, "raw": raw}})
        elif m is not None and m != x["r"]["canon"]:
            out.disagreements.append({"op": "c09.wrap", "input": {"doc": t, "raw": raw}, "impl": x["r"]["canon"][:800], "model": m[:800]})
        if "raise:" in x["r"]["canon"]:
            out.nontrivial.add("wrap:" + x["r"]["canon"].split("raise:")[1][:12])
    # normalize / count
    alpha = [" ", "\t", "\n", "a", "\r"]
    strs = ["".join(p) for n in range(0, 6 if ctx.tier == "quick" else 7) for p in itertools.product(alpha, repeat=n)]
    nres = pool.pmap("impl.android", "impl_norm", [[s] for s in strs], timeout=5.0, batch=512)
    nm = C.run_driver_parallel(["c09.norm " + C.enc(s) for s in strs]) if ctx.model_ok else [None] * len(strs)
    for s, x, m in zip(strs, nres, nm):
        out.evaluations += 1
        out.count("cases.norm")
        if "exc" in x:
            out.violations.append({"what": "normalize raised on %r" % s, "input": {"string": s}})
        elif m is not None and m != x["r"]:
            out.disagreements.append({"op": "c09.norm", "string": s, "impl": x["r"], "model": m})


# ------------------------------------------------------------------ document pairs through the checker
def gen_doc_pairs(ctx):
    rng = ctx.rng("c09", "pairs")
    vals = [c for c, _, _ in STRING_BODIES] + ["%s", "%d %s", "%2$s %1$d", "%1$s %1$d", "it\\'s", '""', "a'b"]
    for _ in range(ctx.n(1000, 30000)):
        n = rng.randrange(1, 6)
        keys = ["k%d" % i for i in range(n)]
        ref = []
        for k in keys:
            if rng.random() < 0.3:
                ref.append(rng.choice([P_C, P_W1, P_W2]))
            ref.append(P_string(k, rng.choice(vals), None, rng.choice(["", "", "", ' translatable="false"'])))
        if rng.random() < 0.2:
            ref.append(P_string(rng.choice(keys), rng.choice(vals), None))      # duplicate key: the last one wins
        l10n = []
        lk = [k for k in keys if rng.random() < 0.8] + (["extra"] if rng.random() < 0.2 else [])
        rng.shuffle(lk)
        for k in lk:
            if rng.random() < 0.4:
                l10n.append(rng.choice([P_C, P_W1, P_W2, P_D, P_O, P_PI]))
            l10n.append(P_string(k, rng.choice(vals), None, rng.choice(["", "", "", "", ' translatable="false"'])))
        if lk and rng.random() < 0.15:
            l10n.append(P_string(rng.choice(lk), rng.choice(vals), None))
        yield build_doc(ref, rng.randrange(2)), build_doc(l10n, rng.randrange(2))


DOC_HEAD = ('<?xml version="1.0" encoding="utf-8"?>\n'
            '<resources xmlns:xliff="urn:oasis:names:tc:xliff:document:1.2">\n')


def value_document(v):
    """the document impl/android.py `document()` builds for a Value (same text), so that a sample of the `android.check`
    cases also goes through the parser MODEL: entity.all / val / node come from the DOM summary, not from the adapter"""
    attrs = ' name="foo"'
    if v.tr is not None:
        attrs += ' translatable="%s"' % v.tr
    pre = "  <!-- a comment -->\n  " if v.comment else "  "
    return "%s%s<%s%s>%s</%s>\n</resources>\n" % (DOC_HEAD, pre, v.tag, attrs, "".join(t.xml for t in v.toks), v.tag)


def gen_value_pairs(ctx):
    rng = ctx.rng("c09", "valuepairs")
    keep = 0.012 if ctx.tier == "quick" else 0.004
    for st, r, l in gen_cases(ctx):
        if st != "tags" and rng.random() < keep:
            yield value_document(r), value_document(l)


def run_doc_pairs(ctx, out):
    pairs = list(gen_doc_pairs(ctx)) + list(gen_value_pairs(ctx))
    res = pool.pmap("impl.android", "impl_doccheck", [[r, l] for r, l in pairs], timeout=10.0, batch=64)
    lines = [x["r"]["line"] for x in res if "r" in x]
    model = iter(C.run_driver_parallel(lines) if ctx.model_ok else [None] * len(lines))
    for (r, l), x in zip(pairs, res):
        out.evaluations += 1
        out.count("cases.docpair")
        inp = {"ref_doc": r, "l10n_doc": l}
        if "exc" in x:
            out.violations.append({"what": "adapter raised %s: %s" % (x["exc"], x.get("msg")), "input": inp})
            continue
        v = x["r"]
        m = next(model)
        bad = None
        if v["canon"] == "raise":
            bad = "parsing raised %s" % v.get("exc")
        elif v["raised"]:
            bad = "the checker raised %s for %r" % (v["raised"][0]["exc"], v["raised"][0]["key"])
        elif not v["history_same"]:
            bad = "one AndroidChecker object used for the whole document reports differently from a fresh checker per entity"
        elif " ?" in v["canon"]:
            bad = "a check result's position is not (0, non-negative integer): %s" % v["canon"][:300]
        if bad:
            out.violations.append({"what": bad, "input": inp})
        elif m is not None and m != v["canon"]:
            out.disagreements.append({"op": "c09.doccheck", "input": inp, "impl": v["canon"][:1200], "model": m[:1200]})
        if " ; " in v["canon"]:
            out.nontrivial.add("pair:" + v["canon"][:200])


# ------------------------------------------------------------------ run
def run_chunk(ctx, out, cases):
    # within a chunk the same (ref, l10n) pair is evaluated once
    seen = set()
    uniq = []
    for st, r, l in cases:
        k = (r.key(), l.key())
        if k in seen:
            continue
        seen.add(k)
        uniq.append((st, r, l))
    cases = uniq
    res = pool.pmap("impl.android", "impl_check", [[r.spec(), l.spec()] for _, r, l in cases], timeout=5.0, batch=256)
    idx = [i for i, x in enumerate(res) if "r" in x and "line" in x["r"]]
    lines = [res[i]["r"]["line"] for i in idx]
    model = C.run_driver_parallel(lines) if ctx.model_ok else [None] * len(lines)
    mo_of = dict(zip(idx, model))
    for i, ((st, r, l), x) in enumerate(zip(cases, res)):
        out.evaluations += 1
        out.count("cases." + st)
        inp = {"ref": r.spec(), "l10n": l.spec(), "stratum": st, "values": [r.to_json(), l.to_json()]}
        if "exc" in x:
            out.violations.append({"what": "adapter/parser raised %s: %s" % (x["exc"], x.get("msg")), "input": inp,
                                   "tokens": [repr(r.toks), repr(l.toks)]})
            continue
        v = x["r"]
        if "skip" in v:
            out.count("skipped." + v["skip"])
            if v["skip"] == "all-differs":
                out.disagreements.append({"op": "entity.all", "input": inp})
            continue
        kind = verdict(r, l)[0]
        out.count("verdict." + kind)
        bad = oracle(r, l, v)
        canon = v["canon"]
        if " | " in canon:
            out.nontrivial.add(canon.split(" | ", 1)[1] + "#" + st.split(".")[0])
        mo = mo_of.get(i)
        if bad:
            msg, fid = bad
            key = "violations" if fid is None else "finding." + fid
            out.count(key)
            if out.distribution[key] <= (500 if fid is None else 25):      # the rest is only counted
                out.violations.append({"what": msg, "input": inp, "tokens": [repr(r.toks), repr(l.toks)],
                                       "results": v["res"], "finding": fid})
        if mo is not None and mo != canon:
            if not bad or bad[1] is not None:
                out.count("disagreements")
                if len(out.disagreements) < 500:
                    out.disagreements.append({"op": "android.check", "input": inp, "impl": canon, "model": mo})
        if len(out.samples) < 10 and len(v["res"]) >= 2 and out.distribution.get("sampled." + st, 0) < 2:
            out.count("sampled." + st)
            out.samples.append({"ref": r.spec()["content"], "l10n": l.spec()["content"], "results": v["res"], "verdict": kind})


def run(ctx):
    out = Outcome()
    out.rule = ("pairs (reference, localized) of <string> values assembled from tokens and parsed by the real AndroidParser: "
                "quoting tokens exhaustively to length 4 (quick) / 6 (thorough) as text and to 3 / 4 inside CDATA, formatter sequences pairwise "
                "to length 2x3 / 2x4 over 9 tokens and 3x3 / 4x4 over 5, every l10n sequence to length 2 over the full alphabet (markup, CDATA, "
                "@string/, comments, entities, unknown %-forms, dirty pieces) against 12 references with translatable attributes varied "
                "(thorough: also length 3 against one reference), seeded random "
                "longer pairs, other resource tags; plus raw strings through get_params/check_apostrophes. "
                "non-trivial = the checker yields at least one result; distinct = distinct canonical result lists")
    out.rule += (". Round 4: whole strings.xml documents (prolog x root x body pieces x epilog; every body of <= 4 (quick) / 5 pieces over "
                 "comment, white-space with 1 / 2 newlines, <string>, <plurals>, PI, CDATA, text; 18 string bodies x 6 prefixes; random longer bodies "
                 "over 27 pieces; 22 junk documents; nothing loaded) through walk() and walk(only_localizable=True), position()/value_position(), "
                 "toxml() of every node, wrap(); normalize on all short strings; random document pairs through parser + checker")
    gen = gen_cases(ctx)
    while True:
        chunk = list(itertools.islice(gen, 150000))
        if not chunk:
            break
        run_chunk(ctx, out, chunk)
    # raw strings through get_params and check_apostrophes
    strs = gen_strings(ctx)
    pres = pool.pmap("impl.android", "impl_params", [[s] for s in strs], timeout=5.0, batch=512)
    ares = pool.pmap("impl.android", "impl_apos", [[s] for s in strs], timeout=5.0, batch=512)
    if ctx.model_ok:
        pm = C.run_driver_parallel(["android.params " + C.enc(s) for s in strs])
        am = C.run_driver_parallel(["android.apos " + C.enc(s) for s in strs])
    else:
        pm = am = [None] * len(strs)
    for s, a, b, ma, mb in zip(strs, pres, ares, pm, am):
        out.evaluations += 1
        out.count("cases.strings")
        ia = a.get("r", "raise:" + str(a.get("exc")))
        ib = b.get("r", "raise:" + str(b.get("exc")))
        if "exc" in a or "exc" in b:
            out.violations.append({"what": "get_params/check_apostrophes raised on %r" % s, "input": {"string": s}})
            continue
        if ia != "ok [] 0 []" or ib != "ok":
            out.nontrivial.add(("s", ia, ib))
        if ma is not None and ma != ia:
            out.disagreements.append({"op": "android.params", "string": s, "impl": ia, "model": ma})
        if mb is not None and mb != ib:
            out.disagreements.append({"op": "android.apos", "string": s, "impl": ib, "model": mb})
    # round 4: whole documents through AndroidParser.walk (c09.walk / c09.pos / c09.toxml / c09.norm) and pairs of
    # documents through parser + checker (c09.doccheck)
    import time as _time
    t0 = _time.time()
    run_docs(ctx, out)
    t1 = _time.time()
    run_doc_pairs(ctx, out)
    out.notes.append("round-4 streams: documents %.1fs, document pairs %.1fs" % (t1 - t0, _time.time() - t1))
    return out


def replay(payload):
    from impl import android as A
    res = []
    for v in payload.get("violations", []):
        i = v.get("input", {})
        if "ref" not in i:
            continue
        r = A.impl_check(i["ref"], i["l10n"])
        bad = None
        if "values" in i and "res" in r:
            bad = oracle(Value.from_json(i["values"][0]), Value.from_json(i["values"][1]), r)
        res.append({"ref": i["ref"], "l10n": i["l10n"], "results": r.get("res"), "oracle": bad and bad[0],
                    "finding": bad and bad[1]})
    return {"violates": any(r["oracle"] for r in res), "cases": res}

"""C09 — Android: crashing format arguments and bad quoting are errors."""
import itertools

from lib import common as C
from lib import pool
from lib.runner import Outcome

ID = "C09"
LEAN_TARGETS = ["CLModel.Props.C09"]
M = "CLModel.Props.C09"
THEOREMS = [
    (M, "C09.check_total", "AndroidChecker.check never leaves the modelled behaviour (int(order[0]) cannot raise, the format group always matched)"),
    (M, "C09.lex_model", "re.finditer of the printf regex = a hand-written left-to-right lexer (%, optional <1-9>$, f | .<digits>f | d | s | S), for all strings"),
    (M, "C09.params_model", "get_params = Java Formatter numbering: n$ explicit, ordinary specifiers count sequentially and independently; dict = first conversion per argument, count, conflicts = later uses with another conversion"),
    (M, "C09.apostrophes_model", "check_apostrophes = one error per non-overlapping \"\" of the value with escapes blanked out + (unless the silenced value starts and ends with a quote) one per apostrophe surviving the silencing of \\x and \"\""),
    (M, "C09.doubled_quote_iff", "a doubled quote found after blanking escapes = two adjacent quotes the first of which is not escaped (flag formulation)"),
    (M, "C09.android_error_iff", "for <string> entities: an error is yielded IFF translatable=false on either side, l10n text starts with @string/, l10n node is not plain text / one CDATA among white-space, doubled quote once escapes are blanked out, apostrophe surviving silencing in a value not enclosed in quotes, conflicting conversions inside l10n, or an l10n argument missing from / different in the reference"),
    (M, "C09.android_error_iff_any_tag", "the same for arbitrary node names: different names are an error, equal names other than string only a warning"),
    (M, "C09.android_subset_ok", "plain, properly escaped (no doubled quote once escapes are respected; apostrophes escaped or value enclosed in quotes), arguments a subset of the reference's with equal conversions => every result is a warning"),
    (M, "C09.android_omitted_warn", "under the same hypotheses an argument of the reference that l10n omits yields the warning 'Formatter %p$f not found in translation' and nothing is an error"),
    (M, "C09.android_omitted_warn_general", "the omitted-argument warning is produced whenever check_string gets as far as comparing arguments"),
    (M, "C09.escaped_quote_then_quote_ok", "positive example (formerly finding F14): \"say \\\"hi\\\"\" is quoted, all inner quotes escaped, and gets no error"),
]
PARTIAL = []
TRUSTED = [
    "hand-written model CLModel/Checks/Android.lean of AndroidChecker.check/check_string/not_translatable/no_at_string/"
    "non_simple_data/check_apostrophes/get_params/check_params and of textContent/handleElement "
    "(tied by the `android.check`, `android.params`, `android.apos` correspondence)",
    "the minidom node (node name, translatable attribute, child node types and data, toxml()) is an input of the model",
    "regexes and the compared string constants are regenerated from /repo by the translator on every run",
]
ASSUMPTIONS = [
    "strings are <string name=…> elements of a well-formed strings.xml (anything else never becomes an AndroidEntity)",
    "format arguments are the forms the checker's regex knows: %[n$](s|S|d|f|.Nf), n a single digit 1-9",
]
LEVEL_TEXT = ("Lean 4 theorems over an executable transliteration of AndroidChecker.check (including the regex engine running the "
              "checker's own, regenerated, regexes): for ALL node shapes and ALL strings the set of cases in which an error is yielded is "
              "characterised exactly (iff) in terms of regex-free reference notions (hand-written printf lexer, Java-style argument numbering, "
              "escape silencing, quoting, node shape); subset-of-arguments strings only get warnings, omitted arguments get their warning; "
              "the model is tied to the Python by bounded-exhaustive and random differential runs through the real AndroidParser, and an "
              "oracle built from the generator's tokens checks the property on the implementation directly")
LEVEL_NOTE = ("trusted: Lean kernel; the hand-written model (validated by correspondence on every run); regex semantics = CPython re on the "
              "audited subset; the minidom node (children by type, data, toxml) is an input of the model. Format forms "
              "the checker's regex does not know (%10$s, %x, %02d, %%) are outside the property's token set")
TECHNIQUE = "Lean 4 proof over an executable model (regex engine included) + differential correspondence with the Python implementation"

# ------------------------------------------------------------------ tokens
# (class, xml spelling, decoded text, formatter uses [(explicit position | None, conversion)])
#   T text, WS white-space, EA escaped apostrophe, BA bare apostrophe, EQ escaped quote, BQ bare quote,
#   EB escaped backslash, EX other escape, F formatter, AT @string/ reference, M inline markup, CM comment,
#   CD CDATA section (composite), D "dirty" (pieces that can fuse with their neighbours: correspondence only)


class Tok:
    __slots__ = ("cls", "xml", "text", "fmts", "inner")

    def __init__(self, cls, xml, text=None, fmts=(), inner=None):
        self.cls = cls
        self.xml = xml
        self.text = xml if text is None else text
        self.fmts = list(fmts)
        self.inner = inner

    def __repr__(self):
        return "%s(%r)" % (self.cls, self.xml)


def F(xml):
    body = xml[1:]
    pos = None
    if len(body) > 2 and body[1] == "$":
        pos = int(body[0])
        body = body[2:]
    return Tok("F", xml, fmts=[(pos, body)])


def CD(inner):
    raw = "".join(t.text for t in inner)
    return Tok("CD", "<![CDATA[" + raw + "]]>", raw, inner=list(inner))


T_A = Tok("T", "a")
T_FOO = Tok("T", "foo bar")
T_E = Tok("T", "é")
T_MOJI = Tok("T", "�")
T_ATX = Tok("T", "@strings")      # not a reference
# not format arguments by assumption A2 (the forms the checker's regex knows): plain text
T_P0 = Tok("T", "%0$s")
T_PDOT = Tok("T", "%.f")
T_P10 = Tok("T", "%10$s")
WS = Tok("WS", " ")
WSN = Tok("WS", "\n    ")
EA = Tok("EA", "\\'")
EA2 = Tok("EA", "\\&apos;", "\\'")
BA = Tok("BA", "'")
BA2 = Tok("BA", "&apos;", "'")
BA3 = Tok("BA", "&#39;", "'")
EQ = Tok("EQ", '\\"')
EQ2 = Tok("EQ", "\\&quot;", '\\"')
BQ = Tok("BQ", '"')
BQ2 = Tok("BQ", "&quot;", '"')
EB = Tok("EB", "\\\\")
EXN = Tok("EX", "\\n")
EXU = Tok("EX", "\\u0027")
AT = Tok("AT", "@string/foo")
M_B = Tok("M", "<b>x</b>")
M_BR = Tok("M", "<br/>")
M_XS = Tok("M", '<xliff:g id="x">%s</xliff:g>', fmts=[(None, "s")])
M_X1 = Tok("M", '<xliff:g id="y">%1$d</xliff:g>', fmts=[(1, "d")])
CM = Tok("CM", "<!-- c -->")
FS, FD, F1S, F2D, F1D, F2S, FF, FUS, F3S, F1F, FPF = [F(x) for x in (
    "%s", "%d", "%1$s", "%2$d", "%1$d", "%2$s", "%.2f", "%S", "%3$s", "%1$.2f", "%f")]
DIRTY = [Tok("D", x) for x in ("%", "%%", "$", "1", ".", "\\", "s", "d", "f", "\\\n", "%1$", "%.", "9", "&amp;", "&lt;")]

QUOTE_ALPHA = [T_A, WS, EA, BA, EQ, BQ, EB, BA2, BQ2]
PARAM_ALPHA = [T_A, FS, FD, F1S, F2D, F1D, F2S, FF, FUS]
PARAM_SMALL = [FS, FD, F1S, F2D, F1D]
CD_FIXED = [CD([T_A]), CD([BA, T_A]), CD([EA, FS]), CD([AT]), CD([BQ, BA, BQ]), CD([])]
FULL_ALPHA = (QUOTE_ALPHA + [FS, FD, F1S, F2D, FF, F3S, T_MOJI, T_ATX, T_P0, T_PDOT, T_P10, WSN, EXN, AT, M_B, M_BR, M_XS, CM, EA2, EQ2]
              + CD_FIXED[:5] + DIRTY[:6])
REF_FIXED = [[], [T_FOO], [FS], [FS, FD], [F1S, F2D], [F1S, F1D], [T_A, M_XS], [CD([FS, T_A])], [AT], [FF, FS],
             [M_X1, CD([FS])], [WS, CD([F2D, F1S]), WSN]]
RANDOM_ALPHA = (FULL_ALPHA + [T_FOO, T_E, BA3, EXU, M_X1, F1F, FPF, FUS, F1D, F2S] + DIRTY)
INNER_ALPHA = [T_A, T_FOO, WS, EA, BA, EQ, BQ, EB, FS, FD, F1S, F2D, FF, AT, EXN, Tok("T", "<b>"), Tok("T", "&")]


class Value:
    """one <string> element: tokens + attributes"""
    __slots__ = ("toks", "tr", "comment", "tag")

    def __init__(self, toks, tr=None, comment=False, tag="string"):
        self.toks = list(toks)
        self.tr = tr
        self.comment = comment
        self.tag = tag

    def spec(self):
        return {"content": "".join(t.xml for t in self.toks), "tr": self.tr, "comment": self.comment, "tag": self.tag}

    def key(self):
        return ("".join(t.xml for t in self.toks), self.tr, self.comment, self.tag)

    def to_json(self):
        def tj(t):
            return [t.cls, t.xml, t.text, [list(f) for f in t.fmts], None if t.inner is None else [tj(x) for x in t.inner]]
        return {"toks": [tj(t) for t in self.toks], "tr": self.tr, "comment": self.comment, "tag": self.tag}

    @staticmethod
    def from_json(j):
        def tk(x):
            return Tok(x[0], x[1], x[2], [tuple(f) for f in x[3]], None if x[4] is None else [tk(y) for y in x[4]])
        return Value([tk(x) for x in j["toks"]], j["tr"], j["comment"], j["tag"])


# ------------------------------------------------------------------ independent argument and quoting model
def is_dirty(toks):
    return any(t.cls == "D" or (t.inner is not None and is_dirty(t.inner)) for t in toks)


def shape(v):
    """-> (simple, content tokens): simple True / False / None (None = the property does not say)"""
    toks = v.toks
    cds = [t for t in toks if t.cls == "CD"]
    if any(t.cls in ("M", "CM") for t in toks):
        return False, None
    if any(not t.inner for t in cds):
        return None, None           # an empty CDATA section: whether the library makes a node of it is its business
    if len(cds) > 1:
        return False, None
    if len(cds) == 1:
        if all(t.cls == "WS" for t in toks if t.cls != "CD"):
            return True, cds[0].inner
        return False, None          # neither plain text nor a single CDATA section: a mix of both
    return True, toks


def arg_uses(toks):
    """Java Formatter numbering: explicit n$ addresses argument n; ordinary specifiers take the next
    sequential argument, independent of explicit ones.  -> {argument: set of conversions}"""
    uses = {}
    nxt = 1
    for t in toks:
        for pos, conv in t.fmts:
            if pos is None:
                pos = nxt
                nxt += 1
            uses.setdefault(pos, set()).add(conv)
    return uses


def ref_args(v):
    """arguments of the reference, or None where the statement does not determine them"""
    simple, content = shape(v)
    if simple:
        return arg_uses(content)
    if simple is False and not any(t.cls == "CD" for t in v.toks):
        return arg_uses(v.toks)       # inline markup: formatters inside the markup count
    return None


def verdict(ref, l10n):
    """-> (kind, reasons, omitted) with kind in must-error / must-not-error / open"""
    if ref.tag != "string" or l10n.tag != "string":
        return "open", ["not a <string>"], None
    if is_dirty(ref.toks) or is_dirty(l10n.toks):
        return "open", ["dirty tokens"], None
    if ref.tr == "false" or l10n.tr == "false":
        return "must-error", ["translatable=false"], None
    simple, ct = shape(l10n)
    if simple is False:
        return "must-error", ["markup"], None
    if simple is None:
        return "open", ["empty CDATA section"], None
    must, opn = [], []
    if ct and ct[0].cls == "AT":
        must.append("@string/ reference")
    cls = [t.cls for t in ct]
    if any(a == "BQ" and b == "BQ" for a, b in zip(cls, cls[1:])):
        must.append("doubled straight quote")
    if "BA" in cls:
        exact = len(cls) >= 2 and cls[0] == "BQ" and cls[-1] == "BQ"
        trimmed = [c for c in cls]
        while trimmed and trimmed[0] == "WS":
            trimmed.pop(0)
        while trimmed and trimmed[-1] == "WS":
            trimmed.pop()
        trim_q = len(trimmed) >= 2 and trimmed[0] == "BQ" and trimmed[-1] == "BQ"
        if not exact:
            if trim_q:
                opn.append("quoted up to surrounding white-space")
            else:
                must.append("unescaped apostrophe in unquoted string")
    lu = arg_uses(ct)
    ru = ref_args(ref)
    omitted = None
    if any(len(s) > 1 for s in lu.values()):
        must.append("conflicting conversions within the string")
    if ru is None:
        if lu:
            opn.append("reference arguments not determined")
    else:
        for p, convs in sorted(lu.items()):
            if p not in ru:
                must.append("argument %d not in reference" % p)
            elif len(ru[p]) > 1:
                opn.append("reference conflicts at %d" % p)
            elif len(convs) == 1 and convs != ru[p]:
                must.append("conversion of argument %d differs" % p)
        omitted = sorted(p for p in ru if p not in lu)
    if must:
        return "must-error", must, None
    if opn:
        return "open", opn, None
    return "must-not-error", [], omitted


def oracle(ref, l10n, r):
    """None or (message, finding id | None)"""
    if r.get("canon") == "raise":
        return "the checker raised %s" % r.get("exc"), None
    kind, why, omitted = verdict(ref, l10n)
    res = r["res"]
    errors = [x for x in res if x[0] == "error"]
    if any(x[0] not in ("error", "warning") for x in res):
        return "unknown severity in %r" % (res,), None
    if kind == "must-error" and not errors:
        return "no error although: %s" % "; ".join(why), None
    if kind == "must-not-error":
        if errors:
            return "plain, properly escaped string with a subset of the reference's arguments gets %r" % (errors,), None
        for p in omitted or []:
            if not any(x[0] == "warning" and x[2].startswith("Formatter %%%d$" % p) and x[2].endswith("not found in translation")
                       for x in res):
                return "omitted argument %d is not warned about" % p, None
    return None


def classify(v):
    return v.get("finding")


# ------------------------------------------------------------------ generators
def seqs(alpha, maxlen, minlen=0):
    for n in range(minlen, maxlen + 1):
        for toks in itertools.product(alpha, repeat=n):
            yield list(toks)


def gen_cases(ctx):
    """lazily yields (stratum, ref Value, l10n Value)"""
    rng = ctx.rng("c09")
    quick = ctx.tier == "quick"
    plain = Value([T_FOO])
    # (a) quoting: every l10n token sequence, as text and inside one CDATA section
    for toks in seqs(QUOTE_ALPHA, 4 if quick else 6):
        yield ("quote", plain, Value(toks))
        if len(toks) <= (3 if quick else 4):
            yield ("quote.cdata", plain, Value([WSN, CD(toks), WS]))
    # (b) arguments: pairs of formatter sequences
    for r in seqs(PARAM_ALPHA, 2):
        for l in seqs(PARAM_ALPHA, 3 if quick else 4):
            yield ("args", Value(r), Value(l))
    small = list(seqs(PARAM_SMALL, 3 if quick else 4))
    for r in small:
        for l in small:
            yield ("args.small", Value(r), Value(l))
    # (c) everything: fixed references x every l10n sequence over the full alphabet, attributes varied
    attrs = [(None, None), ("false", None), (None, "false"), ("true", "true")]
    i = 0
    for r in REF_FIXED:
        for l in seqs(FULL_ALPHA, 2):
            rt, lt = attrs[i % 4] if i % 5 == 0 else (None, None)
            yield ("full", Value(r, rt, comment=i % 3 == 0), Value(l, lt, comment=i % 7 == 0))
            i += 1
    if not quick:
        for l in seqs(FULL_ALPHA, 3, 3):
            yield ("full3", Value([FS, FD]), Value(l))

    # (d) random longer pairs
    def rnd_value(alpha, maxlen):
        toks = []
        for _ in range(rng.randrange(maxlen + 1)):
            x = rng.random()
            if x < 0.08:
                toks.append(CD([rng.choice(INNER_ALPHA) for _ in range(rng.randrange(5))]))
            else:
                toks.append(rng.choice(alpha))
        tr = rng.choice([None] * 12 + ["false", "false", "true", "FALSE", ""])
        return Value(toks, tr, comment=rng.random() < 0.2)

    for _ in range(ctx.n(12000, 400000)):
        x = rng.random()
        if x < 0.35:       # clean plain strings with arguments and quoting
            a = QUOTE_ALPHA + PARAM_ALPHA + [F3S, F1F, T_FOO, WSN, T_P0, T_PDOT, T_P10]
            r = Value([rng.choice(PARAM_ALPHA + [T_FOO, F3S, F1F]) for _ in range(rng.randrange(6))])
            l = Value([rng.choice(a) for _ in range(rng.randrange(9))])
            if rng.random() < 0.3:
                l = Value([WSN, CD(l.toks), WSN])
        elif x < 0.5:      # quoted strings
            inner = [rng.choice(QUOTE_ALPHA + [FS, F1S, T_FOO]) for _ in range(rng.randrange(7))]
            r = Value([rng.choice(PARAM_ALPHA) for _ in range(rng.randrange(3))])
            l = Value([BQ] + inner + [BQ])
        else:
            r = rnd_value(RANDOM_ALPHA, 5)
            l = rnd_value(RANDOM_ALPHA, 8)
        yield ("random", r, l)
    # (e) other resource types (entities built the way handleElement does)
    for rtag, ltag in (("plurals", "plurals"), ("string", "plurals"), ("plurals", "string"), ("string-array", "string-array")):
        for l in ([T_A], [BA], [FS], [T_MOJI], []):
            yield ("tags", Value([T_FOO], tag=rtag), Value(l, tag=ltag))


def gen_strings(ctx):
    """raw strings for the get_params / check_apostrophes correspondence (no XML involved)"""
    rng = ctx.rng("c09", "strings")
    pieces = ["%", "s", "d", "S", "f", "1", "9", "0", "$", ".", "2", "a", " ", "%s", "%1$", "%.", "'", '"', "\\", "\n", "%%", "é"]
    out = []
    for n in range(0, 4 if ctx.tier == "quick" else 5):
        for p in itertools.product(pieces[:14], repeat=n):
            out.append("".join(p))
    for _ in range(ctx.n(4000, 80000)):
        out.append("".join(rng.choice(pieces) for _ in range(rng.randrange(1, 12))))
    return out


# ------------------------------------------------------------------ run
def run_chunk(ctx, out, cases):
    # within a chunk the same (ref, l10n) pair is evaluated once
    seen = set()
    uniq = []
    for st, r, l in cases:
        k = (r.key(), l.key())
        if k in seen:
            continue
        seen.add(k)
        uniq.append((st, r, l))
    cases = uniq
    res = pool.pmap("impl.android", "impl_check", [[r.spec(), l.spec()] for _, r, l in cases], timeout=5.0, batch=256)
    idx = [i for i, x in enumerate(res) if "r" in x and "line" in x["r"]]
    lines = [res[i]["r"]["line"] for i in idx]
    model = C.run_driver_parallel(lines) if ctx.model_ok else [None] * len(lines)
    mo_of = dict(zip(idx, model))
    for i, ((st, r, l), x) in enumerate(zip(cases, res)):
        out.evaluations += 1
        out.count("cases." + st)
        inp = {"ref": r.spec(), "l10n": l.spec(), "stratum": st, "values": [r.to_json(), l.to_json()]}
        if "exc" in x:
            out.violations.append({"what": "adapter/parser raised %s: %s" % (x["exc"], x.get("msg")), "input": inp,
                                   "tokens": [repr(r.toks), repr(l.toks)]})
            continue
        v = x["r"]
        if "skip" in v:
            out.count("skipped." + v["skip"])
            if v["skip"] == "all-differs":
                out.disagreements.append({"op": "entity.all", "input": inp})
            continue
        kind = verdict(r, l)[0]
        out.count("verdict." + kind)
        bad = oracle(r, l, v)
        canon = v["canon"]
        if " | " in canon:
            out.nontrivial.add(canon.split(" | ", 1)[1] + "#" + st.split(".")[0])
        mo = mo_of.get(i)
        if bad:
            msg, fid = bad
            key = "violations" if fid is None else "finding." + fid
            out.count(key)
            if out.distribution[key] <= (500 if fid is None else 25):      # the rest is only counted
                out.violations.append({"what": msg, "input": inp, "tokens": [repr(r.toks), repr(l.toks)],
                                       "results": v["res"], "finding": fid})
        if mo is not None and mo != canon:
            if not bad or bad[1] is not None:
                out.count("disagreements")
                if len(out.disagreements) < 500:
                    out.disagreements.append({"op": "android.check", "input": inp, "impl": canon, "model": mo})
        if len(out.samples) < 10 and len(v["res"]) >= 2 and out.distribution.get("sampled." + st, 0) < 2:
            out.count("sampled." + st)
            out.samples.append({"ref": r.spec()["content"], "l10n": l.spec()["content"], "results": v["res"], "verdict": kind})


def run(ctx):
    out = Outcome()
    out.rule = ("pairs (reference, localized) of <string> values assembled from tokens and parsed by the real AndroidParser: "
                "quoting tokens exhaustively to length 4 (quick) / 6 (thorough) as text and to 3 / 4 inside CDATA, formatter sequences pairwise "
                "to length 2x3 / 2x4 over 9 tokens and 3x3 / 4x4 over 5, every l10n sequence to length 2 over the full alphabet (markup, CDATA, "
                "@string/, comments, entities, unknown %-forms, dirty pieces) against 12 references with translatable attributes varied "
                "(thorough: also length 3 against one reference), seeded random "
                "longer pairs, other resource tags; plus raw strings through get_params/check_apostrophes. "
                "non-trivial = the checker yields at least one result; distinct = distinct canonical result lists")
    gen = gen_cases(ctx)
    while True:
        chunk = list(itertools.islice(gen, 150000))
        if not chunk:
            break
        run_chunk(ctx, out, chunk)
    # raw strings through get_params and check_apostrophes
    strs = gen_strings(ctx)
    pres = pool.pmap("impl.android", "impl_params", [[s] for s in strs], timeout=5.0, batch=512)
    ares = pool.pmap("impl.android", "impl_apos", [[s] for s in strs], timeout=5.0, batch=512)
    if ctx.model_ok:
        pm = C.run_driver_parallel(["android.params " + C.enc(s) for s in strs])
        am = C.run_driver_parallel(["android.apos " + C.enc(s) for s in strs])
    else:
        pm = am = [None] * len(strs)
    for s, a, b, ma, mb in zip(strs, pres, ares, pm, am):
        out.evaluations += 1
        out.count("cases.strings")
        ia = a.get("r", "raise:" + str(a.get("exc")))
        ib = b.get("r", "raise:" + str(b.get("exc")))
        if "exc" in a or "exc" in b:
            out.violations.append({"what": "get_params/check_apostrophes raised on %r" % s, "input": {"string": s}})
            continue
        if ia != "ok [] 0 []" or ib != "ok":
            out.nontrivial.add(("s", ia, ib))
        if ma is not None and ma != ia:
            out.disagreements.append({"op": "android.params", "string": s, "impl": ia, "model": ma})
        if mb is not None and mb != ib:
            out.disagreements.append({"op": "android.apos", "string": s, "impl": ib, "model": mb})
    return out


def replay(payload):
    from impl import android as A
    res = []
    for v in payload.get("violations", []):
        i = v.get("input", {})
        if "ref" not in i:
            continue
        r = A.impl_check(i["ref"], i["l10n"])
        bad = None
        if "values" in i and "res" in r:
            bad = oracle(Value.from_json(i["values"][0]), Value.from_json(i["values"][1]), r)
        res.append({"ref": i["ref"], "l10n": i["l10n"], "results": r.get("res"), "oracle": bad and bad[0],
                    "finding": bad and bad[1]})
    return {"violates": any(r["oracle"] for r in res), "cases": res}

"""C15 — Cross-channel merge keeps every string once, newest wins, order stable."""
import itertools

from lib import common as C
from lib import pool
from lib.runner import Outcome

ID = "C15"
LEAN_TARGETS = ["CLModel.Props.C15"]
M = "CLModel.Props.C15"
THEOREMS = [
    (M, "C15.merged_keys", "the merged dict has no key twice; a non-whitespace key is in it iff it is a key of some version's dict"),
    (M, "C15.merged_entity_keys", "an entity key is in the merge iff some entry of some version has it"),
    (M, "C15.newest_wins", "the entry under a key is the one of the first (newest) version whose dict has the key"),
    (M, "C15.newest_text", "the text stored for a string is entity.all of the newest version that has the string"),
    (M, "C15.merged_text", "the merged text is the concatenation of the merged dict's entry texts in dict order"),
    (M, "C15.order_spec", "key order = the C20 closed form folded over the versions, starting from the newest version's order"),
    (M, "C15.order_step", "one step of that fold spelled out: unanchored older-only keys first, then each key followed by the older-only keys anchored at it"),
    (M, "C15.newest_order_kept", "the newest version's keys keep their relative order in the merge"),
    (M, "C15.merge_single", "merging one version returns its text (given a lossless parse, no key twice)"),
    (M, "C15.merge_identical", "merging n+1 identical junk-free versions returns the text"),
    (M, "C15.merge_identical_entries", "the same at entry level, for any parser (Fluent, Android)"),
    (M, "C15.unsupported_refused", "a file name no parser pattern matches is refused with MergeNotSupportedError"),
    (M, "C15.refused_iff_unsupported", "MergeNotSupportedError is the answer exactly when no parser pattern matches the name"),
    (M, "C15.merge_reparses_properties_partial", "RE-PARSE (.properties, every version printed from safe records with distinct keys): merge_channels succeeds and "
        "PropertiesParser.walk parses the merged text without junk into entities whose keys are exactly the union of the versions' keys, each once, "
        "every key carrying the record of the newest version that has it"),
    (M, "C15.merge_reparses_ini_partial", "RE-PARSE (.ini, every version `[sec]` + printed safe ini records with the same section, distinct keys none equal to the "
        "section name): IniParser.walk parses the merged text without junk into the section and entities with exactly the union of keys, each once, newest record"),
]
PARTIAL = [
    "the re-parse (the merged text re-parses without junk into the expected entities) is a THEOREM only for .properties and .ini on the class of printed "
    "safe records (merge_reparses_properties_partial: every version is `key=value\\n` per record, safe keys/values, distinct keys per version; "
    "merge_reparses_ini_partial: the same under one `[section]` header shared by all versions, no key equal to the section name; no "
    "comments, blank lines, escapes; entity ORDER of the re-parse not stated there, it is the dict order of order_spec); for all other layouts and "
    "formats it is checked by the oracle with the real parsers on every generated case (no junk, keys exactly once, texts, order)",
    "Fluent and Android are covered at entry level only (merge.ents: entries taken from the real parsers); their parsers are external",
    "merge_identical assumes that no two neighbouring entries of a parse are both Whitespace (NoAdjWs): true for the real parsers "
    "because whitespace is matched greedily, not proved for the parser models; counted on every generated version (contract, expected 0)",
    "merge_single / merge_identical take the losslessness of the walk (C01) and the absence of a repeated key as hypotheses; "
    "the repeated-key point is probed on the real code (probe.dupkey.*): the input is NOT returned there",
]
LEVEL_TEXT = ("Lean 4 theorems over an executable transliteration of merge_channels/merge_resources/merge_two/prune/getParser: for ALL "
              "lists of versions the merged dict has every non-whitespace key of every version exactly once, with the entry of the newest "
              "version having it, in the order given by the folded C20 closed form; single and identical versions are returned unchanged; "
              "unknown file types are refused.  The model is tied to the Python by differential runs at text level (five regex formats) "
              "and at entry level (all seven formats), and an independent oracle re-parses every merged output with the real parsers")
LEVEL_NOTE = ("trusted: Lean kernel; hand-written model of merge.py (tied by the merge.texts / merge.ents / merge.channels correspondence); "
              "parser models of C01; object identity of Whitespace/Junk modelled as (version, index); the re-parse claim is checked, not proved; "
              "merge_single/merge_identical take losslessness of the walk (C01) and absence of adjacent whitespace entries as hypotheses "
              "(the latter monitored on every generated input)")
TECHNIQUE = "Lean 4 proof over executable model (reusing the C20 closed form) + differential correspondence + re-parse oracle"
TRUSTED = [
    "hand-written model CLModel/Merge/Channels.lean of merge.py and parser.getParser (tied by the merge.* correspondence)",
    "Python object identity (Whitespace instances as dict keys, Junk keys with the process-wide counter) modelled as (version, index)",
    "parser models CLModel/Parser/{Base,Formats}.lean (C01) for the text-level operations",
]
ASSUMPTIONS = [
    "versions are newline-terminated and junk-free (as the property states); other inputs run as correspondence only",
    "no third-party parser entry points (pkg_resources 'compare_locales.parsers') are installed",
    "texts are valid UTF-8 without carriage returns",
]


# ------------------------------------------------------------------ formats
class F:
    """renders records of one format.  A version is a list of items:
       ("E", key index, value index, attached comment index | None, blank line after?)
       ("C", standalone comment index, _, _, _)       always followed by a blank line
       ("S", structural id, _, _, blank?)             section / instruction present in every version"""
    keys = ["alpha", "beta.label", "gamma", "delta2", "epsilon_x", "zeta"]
    acomments = ["about this", "Localization note", "License text", "x"]
    scomments = ["Section one", "second block", "License block", "zz top"]
    head = ""
    tail = ""
    blank_ok = True
    lead_blank_ok = True
    space_blank_ok = True       # a blank line may contain a space

    def blank(self, b):
        """b: 0/False none, 1/True one blank line, 2 a blank line holding a space, 3 two blank lines"""
        if not b or not self.blank_ok:
            return ""
        if b == 2 and self.space_blank_ok:
            return " \n"
        if b == 3:
            return "\n\n"
        return "\n"

    def structural(self, sid):
        raise KeyError(sid)

    def render(self, items, lead_blank=False):
        out = [self.head]
        if lead_blank and self.lead_blank_ok:
            out.append("\n")
        for it in items:
            if it[0] == "E":
                c = self.comment(self.acomments[it[3]]) if it[3] is not None else ""
                out.append(c + self.entity(self.keys[it[1]], self.values[it[2] % len(self.values)]) + "\n")
                out.append(self.blank(it[4]))
            elif it[0] == "C":
                out.append(self.standalone(self.scomments[it[1]]))
            else:
                out.append(self.structural(it[1]) + "\n")
                out.append(self.blank(it[4]))
        out.append(self.tail)
        return "".join(out)

    def standalone(self, text):
        return self.comment(text) + "\n"

    def key_repr(self, ki):
        return repr(self.keys[ki])


class Props(F):
    fmt, name = "properties", "browser/a.properties"
    values = ["One", "Two words", "x\\u0041y \\n z", "tail \\\n   cont", "with = eq : colon", "é ü ß", "", "%S foo %1$S",
              "back\\\\slash", "  padded"]

    def comment(self, t):
        return "# %s\n" % t

    def entity(self, k, v):
        return "%s = %s" % (k, v)


class Dtd(F):
    fmt, name = "dtd", "a.dtd"
    keys = ["alpha", "beta.label", "gamma-x", "delta2", "eps_x", "zeta"]
    values = ["One", "Two &amp; more", "it's", "", "multi\n  line", "&brand; x", "é ü", "a > b"]

    def comment(self, t):
        return "<!-- %s -->\n" % t

    def entity(self, k, v):
        return '<!ENTITY %s "%s">' % (k, v)


class Ini(F):
    fmt, name = "ini", "a.ini"
    values = ["One", "Two words", "x=y", "é ü", "[brackets]", "%S"]

    def comment(self, t):
        return "; %s\n" % t

    def entity(self, k, v):
        return "%s=%s" % (k, v)

    def structural(self, sid):
        return "[Strings]"


class Inc(F):
    """.inc without blank lines (they are junk outside `#filter emptyLines`)"""
    fmt, name = "inc", "a.inc"
    keys = ["alpha", "beta_label", "gamma", "delta2", "eps_x", "zeta"]
    values = ["One", "Two words", "", "é ü", "#hash x"]
    blank_ok = False
    lead_blank_ok = False
    space_blank_ok = False

    def comment(self, t):
        return "# %s\n" % t

    def entity(self, k, v):
        return "#define %s %s" % (k, v) if v else "#define %s" % k

    def standalone(self, text):
        # no blank lines available: a standalone comment cannot be written in this mode
        raise KeyError("standalone")


class IncF(Inc):
    """.inc wrapped in `#filter emptyLines` … `#unfilter emptyLines`"""
    blank_ok = True

    def structural(self, sid):
        return "#filter emptyLines" if sid == 0 else "#unfilter emptyLines"

    def standalone(self, text):
        return self.comment(text) + "\n"


class Po(F):
    fmt, name = "po", "a.po"
    keys = ["alpha", "two words", "with \\\"quote\\\"", "ctx|delta", "ctx|alpha", "zeta\\n"]
    values = ["Eins", "", "multi\"\n\"line", "é ü", "tab\\t x"]

    def comment(self, t):
        return "# %s\n" % t

    def entity(self, k, v):
        if "|" in k:
            c, i = k.split("|")
            return 'msgctxt "%s"\nmsgid "%s"\nmsgstr "%s"' % (c, i, v)
        return 'msgid "%s"\nmsgstr "%s"' % (k, v)

    def standalone(self, text):
        # the PO comment expression includes its newline: two more make the comment standalone
        return self.comment(text) + "\n\n"

    def key_repr(self, ki):
        k = self.keys[ki]
        un = lambda s: s.replace("\\\\", "\\").replace("\\t", "\t").replace("\\r", "\r").replace("\\n", "\n").replace('\\"', '"')
        if "|" in k:
            c, i = k.split("|")
            return repr((un(i), un(c)))
        return repr((un(k), None))


class Ftl(F):
    fmt, name = "ftl", "a.ftl"
    keys = ["alpha", "beta-label", "-term", "delta2", "eps_x", "zeta"]
    values = ["One", "{ $x } things", "multi\n    line", "One\n    .title = T", "é ü", "{ -term } x"]
    scomments = ["Section one", "second block", "License block", "zz top"]

    def comment(self, t):
        return "# %s\n" % t

    def entity(self, k, v):
        return "%s = %s" % (k, v)

    def standalone(self, text):
        lvl = "#" * (1 + len(text) % 3)
        return "%s %s\n\n" % (lvl, text)


class Android(F):
    fmt, name = "android", "res/values/strings.xml"
    keys = ["alpha", "beta_label", "gamma", "delta2", "eps_x", "zeta"]
    values = ["One", "Two &amp; more", "it\\'s", "", "<![CDATA[x <b>y</b>]]>", "é ü", "%1$s x"]
    head = '<?xml version="1.0" encoding="utf-8"?>\n<resources>\n'
    tail = "</resources>\n"
    lead_blank_ok = False

    def comment(self, t):
        return "<!-- %s -->\n" % t

    def entity(self, k, v):
        return '<string name="%s">%s</string>' % (k, v)


FORMATS = [Props(), Dtd(), Ini(), Inc(), IncF(), Po(), Ftl(), Android()]
TEXT_FMTS = {"properties", "dtd", "ini", "inc", "po"}
UNSUPPORTED = ["foo.unknown", "a.txt", "README", "a.properties.orig", "strings.xml.bak", "a.json", "a.dtdx", "po", "a.ftl~",
               "a.inc.in", "", "a.PROPERTIES", "xproperties", "a.pot.x", "a.html", "a.js", "strings.xm"]
# the canonical name of every format the property quantifies over
SUPPORTED = ["a.properties", "x/y.dtd", "a.ini", "defines.inc", "a.po", "a.ftl", "strings.xml", "res/values/strings.xml"]
OTHER_NAMES = ["a.pot", "a.properties\n", "mystrings-x.xml", "a.inc", "stringsxml", "x.strings.foo.xml", "a.dtd/", ".po"]


# ------------------------------------------------------------------ versions
def rblank(rng):
    return rng.choice([0, 0, 0, 1, 1, 2, 3])


def base_version(f, rng, nrec):
    items = []
    if isinstance(f, Ini):
        items.append(("S", 0, None, None, rng.random() < 0.3))
    if isinstance(f, IncF):
        items.append(("S", 0, None, None, rng.random() < 0.5))
    ks = rng.sample(range(len(f.keys)), min(nrec, len(f.keys)))
    for k in ks:
        items.append(("E", k, rng.randrange(40), rng.randrange(len(f.acomments)) if rng.random() < 0.3 else None,
                      rblank(rng)))
    if can_standalone(f):
        for _ in range(rng.choice([0, 0, 1, 2, 3])):       # with replacement: a comment may be repeated
            items.insert(rng.randrange(first_free(f, items), len(items) + 1),
                         ("C", rng.randrange(len(f.scomments)), None, None, None))
    if isinstance(f, IncF):
        items.append(("S", 1, None, None, False))
    return items


def can_standalone(f):
    return not (isinstance(f, Inc) and not isinstance(f, IncF))


def first_free(f, items):
    return 1 if items and items[0][0] == "S" and items[0][1] == 0 else 0


def last_free(f, items):
    return len(items) - 1 if isinstance(f, IncF) and items and items[-1][0] == "S" else len(items)


def edit(f, rng, items):
    """one add / remove / re-value / reorder / comment edit"""
    items = list(items)
    lo, hi = first_free(f, items), last_free(f, items)
    ents = [i for i in range(lo, hi) if items[i][0] == "E"]
    kind = rng.choice(["add", "remove", "revalue", "reorder", "comment", "scomment", "blank"])
    if kind == "add":
        have = {it[1] for it in items if it[0] == "E"}
        free = [k for k in range(len(f.keys)) if k not in have]
        if free:
            items.insert(rng.randrange(lo, hi + 1), ("E", rng.choice(free), rng.randrange(40),
                                                     rng.randrange(len(f.acomments)) if rng.random() < 0.3 else None,
                                                     rblank(rng)))
    elif kind == "remove" and ents:
        del items[rng.choice(ents)]
    elif kind == "revalue" and ents:
        i = rng.choice(ents)
        it = items[i]
        items[i] = (it[0], it[1], it[2] + 1 + rng.randrange(5), it[3], it[4])
    elif kind == "reorder" and hi - lo >= 2:
        i = rng.randrange(lo, hi)
        it = items.pop(i)
        items.insert(rng.randrange(lo, hi), it)
    elif kind == "comment" and ents:
        i = rng.choice(ents)
        it = items[i]
        items[i] = (it[0], it[1], it[2], rng.choice([None] + list(range(len(f.acomments)))), it[4])
    elif kind == "scomment" and can_standalone(f):
        have = [i for i in range(lo, hi) if items[i][0] == "C"]
        if have and rng.random() < 0.5:
            del items[rng.choice(have)]
        else:
            # mostly a comment the version does not have yet, sometimes a repeated one
            free = [c for c in range(len(f.scomments)) if c not in {it[1] for it in items if it[0] == "C"}]
            if rng.random() < 0.25 or not free:
                free = list(range(len(f.scomments)))
            items.insert(rng.randrange(lo, hi + 1), ("C", rng.choice(free), None, None, None))
    elif kind == "blank" and items:
        i = rng.randrange(len(items))
        it = items[i]
        if it[0] != "C":
            items[i] = (it[0], it[1], it[2], it[3], rblank(rng))
    return items


def rec_ids(v):
    """records of a version; a standalone comment is identified by its text and its occurrence number"""
    seen = {}
    out = []
    for it in v:
        if it[0] == "C":
            seen[it[1]] = seen.get(it[1], 0) + 1
            out.append(("C", it[1], seen[it[1]]))
        else:
            out.append((it[0], it[1], 0))
    return out


def ref_order(versions):
    """independent reference for the order claim: the newest version's order; every record that only an older
    version has goes right after the record it followed there (after earlier insertions at the same place)"""
    res = rec_ids(versions[0])
    for v in versions[1:]:
        at = 0
        for r in rec_ids(v):
            if r in res:
                at = res.index(r) + 1
            else:
                res.insert(at, r)
                at += 1
    return res


def expected(f, versions):
    """key -> rendered own text of the newest version having it; expected entity key order"""
    texts = {}
    for v in versions:
        for it in v:
            if it[0] == "E" and it[1] not in texts:
                texts[it[1]] = f.entity(f.keys[it[1]], f.values[it[2] % len(f.values)])
    order = [r[1] for r in ref_order(versions) if r[0] == "E"]
    return texts, order


# ------------------------------------------------------------------ oracle
def adjacent_ws(desc):
    return any(a[0] == "W" and b[0] == "W" for a, b in zip(desc, desc[1:]))


def version_ok(f, items, desc):
    """precondition of the property + 'by construction' check: junk-free, and the real parser sees
    exactly the intended entities in the intended order"""
    if any(e[0] == "J" for e in desc):
        return False
    got = [e[1] for e in desc if e[0] == "E"]
    want = [f.key_repr(it[1]) for it in items if it[0] == "E"]
    return got == want


def oracle(f, versions, texts, r):
    """None or a message.  `versions` = item lists (newest first), `texts` their renderings, r = implementation result"""
    if r.get("exc") == "Hang":
        return "merge does not terminate"
    if "exc" in r:
        return "merge raised %s: %s" % (r["exc"], r.get("msg"))
    v = r["r"]
    if not v["canon"].startswith("ok "):
        return "supported format refused: %s" % v["canon"]
    rep = v["reparse"]
    if any(e[0] == "J" for e in rep):
        return "merged text re-parses with junk"
    exp_text, exp_order = expected(f, versions)
    keys = [e[1] for e in rep if e[0] == "E"]
    want = {f.key_repr(k): t for k, t in exp_text.items()}
    if sorted(keys) != sorted(want):
        missing = sorted(set(want) - set(keys))
        dup = sorted({k for k in keys if keys.count(k) > 1})
        extra = sorted(set(keys) - set(want))
        return "keys not exactly once: missing %s duplicated %s foreign %s" % (missing, dup, extra)
    if f.fmt != "android":
        for e in rep:
            if e[0] == "E" and e[2] != want[e[1]]:
                return "key %s does not carry the text of the newest version having it" % e[1]
    else:
        # parse-identical: the newest version's parsed text for the key
        newest = {}
        for d in v["versions"]:
            for e in d:
                if e[0] == "E":
                    newest.setdefault(e[1], e[2])
        for e in rep:
            if e[0] == "E" and e[2] != newest.get(e[1]):
                return "key %s does not carry the text of the newest version having it" % e[1]
    if keys != [f.key_repr(k) for k in exp_order]:
        return "entry order differs from newest-order-with-older-entries-after-their-neighbour"
    if len(set(texts)) == 1:
        if f.fmt == "android":
            if [e[:3] for e in rep if e[0] in "EC"] != [e[:3] for e in v["versions"][0] if e[0] in "EC"]:
                return "single/identical versions: result is not parse-identical to the input"
        elif v["text"] != texts[0]:
            return "single/identical versions: result is not the input"
    return None


def classify(v):
    return v.get("finding")


# ------------------------------------------------------------------ run
def gen_cases(ctx, f):
    """[(versions newest first as item lists)]"""
    rng = ctx.rng("c15", f.fmt, type(f).__name__)
    cases = []
    # bounded-exhaustive: all pairs of versions over three records (every ordered sub-sequence), one value pattern each
    sub = [p for n in range(1, 4) for p in itertools.permutations(range(3), n)]

    def mk(seq, salt):
        items = [("E", k, salt + 7 * k, None, False) for k in seq]
        if isinstance(f, Ini):
            items.insert(0, ("S", 0, None, None, False))
        if isinstance(f, IncF):
            items = [("S", 0, None, None, False)] + items + [("S", 1, None, None, False)]
        return items
    for a in sub:
        cases.append([mk(a, 0)])
        for b in sub:
            cases.append([mk(a, 0), mk(b, 1)])
    triples = [(a, b, c) for a in sub for b in sub for c in sub]
    for a, b, c in (triples if ctx.tier != "quick" else rng.sample(triples, 250)):
        cases.append([mk(a, 0), mk(b, 1), mk(c, 2)])
    exhaustive = len(cases)
    # histories: chains of edits over the common pool, one to four versions
    for _ in range(ctx.n(700, 12000)):
        n = rng.choice([1, 2, 2, 3, 3, 4])
        v = base_version(f, rng, rng.randrange(1, 6))
        chain = [v]
        for _ in range(n - 1):
            for _ in range(rng.randrange(0, 4)):
                v = edit(f, rng, v)
            chain.append(v)
        if rng.random() < 0.5:
            chain.reverse()
        elif rng.random() < 0.2:
            rng.shuffle(chain)
        cases.append(chain)
    # identical versions
    for _ in range(ctx.n(60, 600)):
        v = base_version(f, rng, rng.randrange(1, 6))
        cases.append([v] * rng.randrange(2, 5))
    return cases, exhaustive


def junk_variants(rng, f, texts):
    """outside the property's domain (correspondence only): drop the final newline, inject junk, duplicate keys"""
    texts = list(texts)
    i = rng.randrange(len(texts))
    t = texts[i]
    r = rng.random()
    if r < 0.3 and t.endswith("\n"):
        texts[i] = t[:-1]
    elif r < 0.6:
        pos = rng.randrange(len(t) + 1)
        texts[i] = t[:pos] + rng.choice(["??", "\n]]>", "=", "<", "\n\n\n", " ", "\"", "#"]) + t[pos:]
    else:
        lines = t.split("\n")
        j = rng.randrange(len(lines))
        lines.insert(j, lines[rng.randrange(len(lines))])
        texts[i] = "\n".join(lines)
    return texts


def run(ctx):
    out = Outcome()
    out.rule = ("per format (properties, dtd, ini, inc plain and inside #filter emptyLines, po, ftl, android strings.xml): all single "
                "versions, all PAIRS of versions that are ordered sub-sequences of three records (15x15) and all (thorough) / 250 sampled "
                "(quick) TRIPLES, plus seeded histories of one to four versions derived from a common record pool by add / remove / "
                "re-value / reorder / attached-comment / standalone-comment / blank-line edits (chain order, reversed and shuffled), plus "
                "identical versions x2..4; every version is newline-terminated and checked junk-free with the real parser. "
                "non-trivial = at least two versions and the merge contains a key the newest version lacks or a re-valued key; "
                "distinct = distinct (format, merged text)")
    total_adj = 0
    for f in FORMATS:
        tag = type(f).__name__
        rng = ctx.rng("c15.run", tag)
        cases, exhaustive = gen_cases(ctx, f)
        rendered = []
        for vs in cases:
            lead = rng.random() < 0.15
            rendered.append([f.render(v, lead_blank=lead and f.lead_blank_ok) for v in vs])
        out.count("%s.cases" % tag, len(cases))
        out.count("%s.exhaustive" % tag, exhaustive)
        res = pool.pmap("impl.channels", "impl_merge", [[f.fmt, f.name, ts] for ts in rendered], timeout=5.0)
        # correspondence lines
        tlines, elines = [], []
        for ts, r in zip(rendered, res):
            tlines.append("merge.texts %s %s" % (f.fmt, " ".join(C.enc(t) for t in ts)) if f.fmt in TEXT_FMTS else None)
            elines.append(r["r"].get("ents") if "r" in r else None)
        tmodel = drive(ctx, tlines)
        emodel = drive(ctx, elines)
        for vs, ts, r, tm, em in zip(cases, rendered, res, tmodel, emodel):
            out.evaluations += 1
            in_domain = True
            if "r" in r and "versions" in r["r"]:
                for items, d in zip(vs, r["r"]["versions"]):
                    if adjacent_ws(d):
                        total_adj += 1
                    if not version_ok(f, items, d):
                        in_domain = False
            if not in_domain:
                out.count("%s.skipped_not_junk_free" % tag)
                bad = None
            else:
                bad = oracle(f, vs, ts, r)
            canon = r["r"]["canon"] if "r" in r else "exc " + str(r.get("exc"))
            if bad:
                out.violations.append({"what": "%s: %s" % (tag, bad), "input": {"fmt": tag, "texts": ts, "versions": vs},
                                       "output": r.get("r", {}).get("text"), "finding": None})
                out.count("%s.violations" % tag)
                continue
            if tm is not None and tm != canon:
                out.disagreements.append({"op": "merge.texts", "fmt": tag, "texts": ts, "impl": canon, "model": tm})
            elif em is not None and em != canon:
                out.disagreements.append({"op": "merge.ents", "fmt": tag, "texts": ts, "impl": canon, "model": em})
            if in_domain and len(vs) >= 2 and "r" in r:
                newest = {it[1] for it in vs[0] if it[0] == "E"}
                older = {it[1] for v in vs[1:] for it in v if it[0] == "E"}
                vals = {}
                reval = False
                for v in vs:
                    for it in v:
                        if it[0] == "E":
                            if it[1] in vals and vals[it[1]] != it[2] % len(f.values):
                                reval = True
                            vals.setdefault(it[1], it[2] % len(f.values))
                if (older - newest) or reval:
                    out.nontrivial.add((tag, r["r"]["text"]))
                    out.count("%s.nontrivial" % tag)
                    if (len(out.samples) < 16 and len(vs) >= 3 and out.distribution.get("sampled." + tag, 0) < 2
                            and any(it[0] == "C" or it[3] is not None for v in vs for it in v)):
                        out.count("sampled." + tag)
                        out.samples.append({"fmt": tag, "versions": ts, "merged": r["r"]["text"]})
        # outside the domain: correspondence only
        rj = ctx.rng("c15.junk", tag)
        jt = [junk_variants(rj, f, ts) for ts in rj.sample(rendered, min(len(rendered), ctx.n(250, 4000)))]
        jres = pool.pmap("impl.channels", "impl_merge", [[f.fmt, f.name, ts, True, False] for ts in jt], timeout=5.0)
        jl = ["merge.texts %s %s" % (f.fmt, " ".join(C.enc(t) for t in ts)) if f.fmt in TEXT_FMTS else None for ts in jt]
        jm = drive(ctx, jl)
        je = drive(ctx, [r["r"].get("ents") if "r" in r else None for r in jres])
        for ts, r, tm, em in zip(jt, jres, jm, je):
            out.evaluations += 1
            out.count("%s.out_of_domain" % tag)
            if r.get("exc") == "Hang":
                canon = "err Hang"
            elif "r" in r:
                canon = r["r"]["canon"]
            else:
                out.count("%s.out_of_domain_exc_%s" % (tag, r.get("exc")))
                continue
            if tm is not None and tm != canon:
                out.disagreements.append({"op": "merge.texts", "fmt": tag, "texts": ts, "impl": canon, "model": tm, "domain": "outside"})
            elif em is not None and em != canon and canon != "err Hang":
                out.disagreements.append({"op": "merge.ents", "fmt": tag, "texts": ts, "impl": canon, "model": em, "domain": "outside"})
    # parser selection / refusal
    rs = ctx.rng("c15.select")
    names = list(UNSUPPORTED) + list(SUPPORTED) + list(OTHER_NAMES)
    alpha = ["a", ".", "properties", "dtd", "ini", "inc", "ftl", "po", "t", "strings", "xml", "/", "\n", "x", "-", "pot"]
    for _ in range(ctx.n(300, 3000)):
        names.append("".join(rs.choice(alpha) for _ in range(rs.randrange(1, 6))))
    sres = pool.pmap("impl.channels", "impl_select", [[n, "a"] for n in names], timeout=5.0)
    smodel = drive(ctx, ["merge.channels %s %s" % (C.enc(n), C.enc("a")) for n in names])
    for n, r, sm in zip(names, sres, smodel):
        out.evaluations += 1
        if "r" not in r:
            out.violations.append({"what": "select: merge_channels raised %s: %s" % (r.get("exc"), r.get("msg")),
                                   "input": {"name": n}, "finding": None})
            continue
        canon = r["r"]["canon"]
        refused = canon == "err MergeNotSupportedError"
        # unsupported = the code itself finds no parser for the name (and the clearly foreign names of UNSUPPORTED)
        if (n in UNSUPPORTED or not r["r"]["has"]) and not refused:
            out.violations.append({"what": "select: unsupported file type %r is not refused" % n, "input": {"name": n}, "finding": None})
        elif (n in SUPPORTED or r["r"]["has"]) and refused:
            out.violations.append({"what": "select: supported file type %r refused" % n, "input": {"name": n}, "finding": None})
        elif sm is not None:
            cls = r["r"].get("cls")
            expect = "err external" if cls in ("FluentParser", "AndroidParser") else canon
            if sm != expect:
                out.disagreements.append({"op": "merge.channels", "name": n, "impl": canon, "model": sm})
        if refused:
            out.nontrivial.add(("refused", n))
        out.count("select.%s" % ("refused" if refused else "accepted"))
    # excluded points of the theorems' hypotheses, probed on the real code (informational, not judged)
    probes = [
        ("dupkey.single", "a.properties", ["a=1\na=2\n"]),
        ("dupkey.single.dtd", "a.dtd", ['<!ENTITY a "1">\n<!ENTITY a "2">\n']),
        ("junk.identical", "a.properties", ["??\na=1\n", "??\na=1\n"]),
        ("junk.identical.dtd", "a.dtd", ['<!ENTITY a "1">\n??\n', '<!ENTITY a "1">\n??\n']),
        ("inisection.keyclash", "a.ini", ["[a]\na=1\n"]),
        ("inisection.other", "a.ini", ["[S]\na=1\n", "[O]\na=0\nb=2\n"]),
    ]
    pres = pool.pmap("impl.channels", "impl_probe", [[n, ts] for _, n, ts in probes], timeout=5.0)
    for (tag, n, ts), r in zip(probes, pres):
        same = "r" in r and r["r"] == ts[0]
        out.count("probe.%s.%s" % (tag, "input_returned" if same else "input_changed"))
        out.notes.append("probe %s: merge_channels(%r, %r) -> %r" % (tag, n, ts, r.get("r", r.get("exc"))))
    out.contracts["versions_with_adjacent_whitespace_entries"] = total_adj
    if total_adj:
        out.notes.append("hypothesis NoAdjWs of merge_identical does not hold for %d generated versions" % total_adj)
    return out


def drive(ctx, lines):
    """run the non-None protocol lines through the driver, keep positions"""
    if not ctx.model_ok:
        return [None] * len(lines)
    idx = [i for i, l in enumerate(lines) if l is not None]
    res = C.run_driver_parallel([lines[i] for i in idx])
    out = [None] * len(lines)
    for i, r in zip(idx, res):
        out[i] = r
    return out


def replay(payload):
    res = []
    byname = {type(f).__name__: f for f in FORMATS}
    for v in payload.get("violations", []):
        i = v["input"]
        if "texts" in i:
            f = byname[i["fmt"]]
            vs = [[tuple(it) for it in ver] for ver in i["versions"]]
            r = pool.pmap("impl.channels", "impl_merge", [[f.fmt, f.name, i["texts"]]], timeout=10.0)[0]
            res.append({"input": i, "oracle": oracle(f, vs, i["texts"], r)})
        else:
            r = pool.pmap("impl.channels", "impl_select", [[i["name"], "a"]], timeout=10.0)[0]
            res.append({"input": i, "result": r})
    return {"violates": any(r.get("oracle") for r in res), "cases": res}

"""C15 — Cross-channel merge keeps every string once, newest wins, order stable."""
import itertools
import json

from lib import common as C
from lib import pool
from lib.runner import Outcome

ID = "C15"
LEAN_TARGETS = ["CLModel.Props.C15"]
M = "CLModel.Props.C15"
THEOREMS = [
    (M, "C15.merged_keys", "the merged dict has no key twice; a non-whitespace key is in it iff it is a key of some version's dict"),
    (M, "C15.merged_entity_keys", "an entity key is in the merge iff some entry of some version has it"),
    (M, "C15.newest_wins", "the entry under a key is the one of the first (newest) version whose dict has the key"),
    (M, "C15.newest_text", "the text stored for a string is entity.all of the newest version that has the string"),
    (M, "C15.merged_text", "the merged text is the concatenation of the merged dict's entry texts in dict order"),
    (M, "C15.order_spec", "key order = the C20 closed form folded over the versions, starting from the newest version's order"),
    (M, "C15.order_step", "one step of that fold spelled out: unanchored older-only keys first, then each key followed by the older-only keys anchored at it"),
    (M, "C15.newest_order_kept", "the newest version's keys keep their relative order in the merge"),
    (M, "C15.merge_single", "merging one version returns its text (given a lossless parse, no key twice)"),
    (M, "C15.merge_identical", "merging n+1 identical junk-free versions returns the text (no hypothesis on neighbouring white-space any more)"),
    (M, "C15.walk_no_adjacent_whitespace", "Parser.walk of every regex format never yields two neighbouring Whitespace entries (the white-space "
        "expressions are greedy one-character repeats): the former NoAdjWs hypothesis is a theorem about the parser models"),
    (M, "C15.merge_single_total", "for EVERY text of a regex format (DTD: no byte-order mark) the walk terminates with entries the merge accepts, and "
        "merge_channels(name, [s]) == s unless an entity key occurs twice — no hypothesis about the walk left (C01 totality/losslessness composed in)"),
    (M, "C15.merge_identical_total", "the same for n+1 identical junk-free versions"),
    (M, "C15.equal_keys_collapse", "entries with equal keys collapse to the newest: a key carried by entries of several versions (e.g. the sticky "
        "DocumentWrapper of an Android root attribute, keyed by the attribute NAME) is in the merge exactly once, with the text of the newest version having it"),
    (M, "C15.merge_single_dup", "a single version WITH a repeated key: merge_channels returns the serialised OrderedDict — each key once at the place of its "
        "first occurrence with the text of its LAST occurrence (closed form, any text of any regex format)"),
    (M, "C15.version_dict_closed_form", "closed form of parse_resource for ANY entry list: keys = first occurrences in file order, value = last entry with the key"),
    (M, "C15.diff_never_sees_duplicates", "at every step of reduce(merge_two) both key lists handed to AddRemove are duplicate-free, so the diff is the closed form "
        "AR.spec: the misplacement AddRemove shows for repeated right-only keys cannot occur inside merge_channels"),
    (M, "C15.comment_copies", "the duplicate-comment counter: the merge holds an n-th copy of a stand-alone comment text iff some version has at least n "
        "copies (number of copies = maximum over the versions); attached comments travel with their string (newest_text)"),
    (M, "C15.merged_strict_shape", "when every version's dict alternates strictly entry / white-space, so does the merge (prune never leaves two neighbouring "
        "white-space entries; the merge starts with a non-white-space entry when every version does)"),
    (M, "C15.merge_reparses_dtd_partial", "RE-PARSE (DTD, every version printed `<!ENTITY k \"v\">` per safe record, distinct keys): the merged text is itself such a "
        "printed file and DTDParser.walk parses it without junk into the union of keys, each once, newest record"),
    (M, "C15.merge_reparses_inc_partial", "RE-PARSE (.inc, every version printed `#define k v` per safe record, distinct keys): the same with DefinesParser.walk "
        "(no blank line or leading newline — which would be Junk — can arise)"),
    (M, "C15.merge_identical_entries", "the same at entry level, for any parser (Fluent, Android)"),
    (M, "C15.unsupported_refused", "a file name no parser pattern matches is refused with MergeNotSupportedError"),
    (M, "C15.refused_iff_unsupported", "MergeNotSupportedError is the answer exactly when no parser pattern matches the name"),
    (M, "C15.merge_reparses_properties_partial", "RE-PARSE (.properties, every version printed from safe records with distinct keys): merge_channels succeeds and "
        "PropertiesParser.walk parses the merged text without junk into entities whose keys are exactly the union of the versions' keys, each once, "
        "every key carrying the record of the newest version that has it"),
    (M, "C15.merge_result_history_free", "HISTORY: in every state a process reaches (merges, compare, lint, serialize, getParser, readUnicode, walk, "
        "matcher / configuration / checker operations in any order) the merge step of the state machine returns Merge.mergeTexts of THIS call's "
        "arguments (corollary of C18.out_independent_all)"),
    (M, "C15.merge_result_state_free", "… and in fact in EVERY state, reachable or not: two states give the same merge result, the function of the arguments"),
    (M, "C15.merge_named_history_free", "merge_channels(name, resources) — parser lookup, refusal, merge on the SHARED parser instance — returns "
        "Merge.mergeChannels name resources in every state of a process without parser plugins"),
    (M, "C15.merge_history_free", "whole histories: for ANY sequence interleaving merges with the other operations of the tools, from any state, the result "
        "of every merge step is the function of that step's own arguments"),
    (M, "C15.refusal_history_free", "in every state MergeNotSupportedError is raised exactly when no parser pattern matches THIS name, whatever names "
        "were looked up (refused or accepted) before"),
    (M, "C15.lookup_leaves_no_trace", "getParser(path), found or not, and a refused merge_channels leave the process state as it was (no memo of names or extensions)"),
    (M, "C15.merge_single_in_any_history", "merging a single version returns the input in the middle of any history (hypotheses of merge_single_total only)"),
    (M, "C15.merge_identical_in_any_history", "merging n+1 identical junk-free versions returns the input in the middle of any history"),
    (M, "C15.history_reachable", "non-vacuity of the reachable form: every history of merges and other operations (no add_rules / add_paths on a live "
        "configuration) from a fresh interpreter ends in a state C18's theorems apply to, with the entry points unchanged"),
    (M, "C15.merge_reparses_ini_partial", "RE-PARSE (.ini, every version `[sec]` + printed safe ini records with the same section, distinct keys none equal to the "
        "section name): IniParser.walk parses the merged text without junk into the section and entities with exactly the union of keys, each once, newest record"),
]
PARTIAL = [
    "the re-parse (the merged text re-parses without junk into the expected entities) is a THEOREM for .properties, .ini, DTD and .inc on the class of printed "
    "safe records (merge_reparses_{properties,ini,dtd,inc}_partial: one record per line, safe keys/values, distinct keys per version; ini: one `[section]` header "
    "shared by all versions; no comments, blank lines, escapes; entity ORDER of the re-parse not stated there, it is the dict order of order_spec); not for PO "
    "(C02 has the round trip of a single PO record only) and not for layouts with comments / blank lines: there it is checked by the oracle with the real parsers "
    "on every generated case (no junk, keys exactly once, texts, order)",
    "Fluent and Android are covered at entry level only (merge.ents: entries taken from the real parsers, WITH their keys: for Android the sticky DocumentWrapper "
    "entries must be keyed '<?xml?><resources>' / attribute name / '>' / '</resources>' — input contract, checked on every generated Android version); "
    "their parsers are external; well-formedness of the merged XML and the root attributes are judged by the oracle (expat)",
    "merge_single / merge_identical need 'no entity key twice in the version' (NodupKeys): forced, see merge_single_dup for what is returned otherwise "
    "(each key once, first position, last text) — the two clauses 'every key once' and 'a single version is returned' contradict each other on such a "
    "file, so it is outside the property's domain; probed on the real code (probe.dupkey.*) and tied by the dupkey correspondence stream",
    "a DTD that starts with a byte-order mark is excluded from merge_single_total (the DTD walk drops the mark; witness in Props/C15.lean)",
    "history theorems: the state machine holds the Contexts of the five regex-format singletons; the Fluent / Android singletons are external parsers "
    "(mergeNamed answers Err.external and keeps the state) — their merges inside process histories are judged by the oracle on the real code and tied at "
    "entry level (merge.ents); NoPlugins (no third-party parser entry point) is a hypothesis of the by-name theorems, with a negation witness",
]
LEVEL_TEXT = ("Lean 4 theorems over an executable transliteration of merge_channels/merge_resources/merge_two/prune/getParser: for ALL "
              "lists of versions the merged dict has every non-whitespace key of every version exactly once, with the entry of the newest "
              "version having it, in the order given by the folded C20 closed form; single and identical versions are returned unchanged; "
              "unknown file types are refused.  The model is tied to the Python by differential runs at text level (five regex formats) "
              "and at entry level (all seven formats), and an independent oracle re-parses every merged output with the real parsers")
LEVEL_NOTE = ("trusted: Lean kernel; hand-written model of merge.py (tied by the merge.texts / merge.ents / merge.channels correspondence); "
              "parser models of C01; object identity of Whitespace/Junk modelled as (version, index); the re-parse claim is a theorem for printed "
              "properties/ini/dtd/inc files and checked with the real parsers elsewhere; termination/losslessness of the walk (C01) and the absence of "
              "neighbouring white-space entries are theorems about the parser models, no longer hypotheses")
TECHNIQUE = "Lean 4 proof over executable model (reusing the C20 closed form) + differential correspondence + re-parse oracle"
TRUSTED = [
    "hand-written model CLModel/Merge/Channels.lean of merge.py and parser.getParser (tied by the merge.* correspondence)",
    "Python object identity (Whitespace instances as dict keys, Junk keys with the process-wide counter) modelled as (version, index)",
    "parser models CLModel/Parser/{Base,Formats}.lean (C01) for the text-level operations",
    "the state machine CLModel/History/Machine.lean (C18) + CLModel/Merge/History.lean as the list of ALL mutable state a merge can read: tied by the "
    "c15.hist correspondence (whole histories in one fresh interpreter vs MergeH.run) and by C18's state digests",
]
ASSUMPTIONS = [
    "versions are newline-terminated and junk-free (as the property states); other inputs run as correspondence only",
    "no third-party parser entry points (pkg_resources 'compare_locales.parsers') are installed",
    "texts are valid UTF-8 without carriage returns",
]


# ------------------------------------------------------------------ formats
class F:
    """renders records of one format.  A version is a list of items:
       ("E", key index, value index, attached comment index | None, blank line after?)
       ("C", standalone comment index, _, _, _)       always followed by a blank line
       ("S", structural id, _, _, blank?)             section / instruction present in every version"""
    keys = ["alpha", "beta.label", "gamma", "delta2", "epsilon_x", "zeta"]
    acomments = ["about this", "Localization note", "License text", "x"]
    scomments = ["Section one", "second block", "License block", "zz top"]
    head = ""
    tail = ""
    blank_ok = True
    lead_blank_ok = True
    space_blank_ok = True       # a blank line may contain a space

    def blank(self, b):
        """b: 0/False none, 1/True one blank line, 2 a blank line holding a space, 3 two blank lines"""
        if not b or not self.blank_ok:
            return ""
        if b == 2 and self.space_blank_ok:
            return " \n"
        if b == 3:
            return "\n\n"
        return "\n"

    def structural(self, sid):
        raise KeyError(sid)

    def render(self, items, lead_blank=False):
        out = [self.head]
        if lead_blank and self.lead_blank_ok:
            out.append("\n")
        for it in items:
            if it[0] == "E":
                c = self.comment(self.acomments[it[3]]) if it[3] is not None else ""
                out.append(c + self.entity(self.keys[it[1]], self.values[it[2] % len(self.values)]) + "\n")
                out.append(self.blank(it[4]))
            elif it[0] == "C":
                out.append(self.standalone(self.scomments[it[1]]))
            else:
                out.append(self.structural(it[1]) + "\n")
                out.append(self.blank(it[4]))
        out.append(self.tail)
        return "".join(out)

    def standalone(self, text):
        return self.comment(text) + "\n"

    def key_repr(self, ki):
        return repr(self.keys[ki])


class Props(F):
    fmt, name = "properties", "browser/a.properties"
    values = ["One", "Two words", "x\\u0041y \\n z", "tail \\\n   cont", "with = eq : colon", "é ü ß", "", "%S foo %1$S",
              "back\\\\slash", "  padded"]

    def comment(self, t):
        return "# %s\n" % t

    def entity(self, k, v):
        return "%s = %s" % (k, v)


class Dtd(F):
    fmt, name = "dtd", "a.dtd"
    keys = ["alpha", "beta.label", "gamma-x", "delta2", "eps_x", "zeta"]
    values = ["One", "Two &amp; more", "it's", "", "multi\n  line", "&brand; x", "é ü", "a > b"]

    def comment(self, t):
        return "<!-- %s -->\n" % t

    def entity(self, k, v):
        return '<!ENTITY %s "%s">' % (k, v)


class Ini(F):
    fmt, name = "ini", "a.ini"
    values = ["One", "Two words", "x=y", "é ü", "[brackets]", "%S"]

    def comment(self, t):
        return "; %s\n" % t

    def entity(self, k, v):
        return "%s=%s" % (k, v)

    def structural(self, sid):
        return "[Strings]"


class Inc(F):
    """.inc without blank lines (they are junk outside `#filter emptyLines`)"""
    fmt, name = "inc", "a.inc"
    keys = ["alpha", "beta_label", "gamma", "delta2", "eps_x", "zeta"]
    values = ["One", "Two words", "", "é ü", "#hash x"]
    blank_ok = False
    lead_blank_ok = False
    space_blank_ok = False

    def comment(self, t):
        return "# %s\n" % t

    def entity(self, k, v):
        return "#define %s %s" % (k, v) if v else "#define %s" % k

    def standalone(self, text):
        # no blank lines available: a standalone comment cannot be written in this mode
        raise KeyError("standalone")


class IncF(Inc):
    """.inc wrapped in `#filter emptyLines` … `#unfilter emptyLines`"""
    blank_ok = True

    def structural(self, sid):
        return "#filter emptyLines" if sid == 0 else "#unfilter emptyLines"

    def standalone(self, text):
        return self.comment(text) + "\n"


class Po(F):
    fmt, name = "po", "a.po"
    keys = ["alpha", "two words", "with \\\"quote\\\"", "ctx|delta", "ctx|alpha", "zeta\\n"]
    values = ["Eins", "", "multi\"\n\"line", "é ü", "tab\\t x"]

    def comment(self, t):
        return "# %s\n" % t

    def entity(self, k, v):
        if "|" in k:
            c, i = k.split("|")
            return 'msgctxt "%s"\nmsgid "%s"\nmsgstr "%s"' % (c, i, v)
        return 'msgid "%s"\nmsgstr "%s"' % (k, v)

    def standalone(self, text):
        # the PO comment expression includes its newline: two more make the comment standalone
        return self.comment(text) + "\n\n"

    def key_repr(self, ki):
        k = self.keys[ki]
        un = lambda s: s.replace("\\\\", "\\").replace("\\t", "\t").replace("\\r", "\r").replace("\\n", "\n").replace('\\"', '"')
        if "|" in k:
            c, i = k.split("|")
            return repr((un(i), un(c)))
        return repr((un(k), None))


class Ftl(F):
    fmt, name = "ftl", "a.ftl"
    keys = ["alpha", "beta-label", "-term", "delta2", "eps_x", "zeta"]
    values = ["One", "{ $x } things", "multi\n    line", "One\n    .title = T", "é ü", "{ -term } x"]
    scomments = ["Section one", "second block", "License block", "zz top"]

    def comment(self, t):
        return "# %s\n" % t

    def entity(self, k, v):
        return "%s = %s" % (k, v)

    def standalone(self, text):
        lvl = "#" * (1 + len(text) % 3)
        return "%s %s\n\n" % (lvl, text)


class Android(F):
    fmt, name = "android", "res/values/strings.xml"
    keys = ["alpha", "beta_label", "gamma", "delta2", "eps_x", "zeta"]
    values = ["One", "Two &amp; more", "it\\'s", "", "<![CDATA[x <b>y</b>]]>", "é ü", "%1$s x"]
    head = '<?xml version="1.0" encoding="utf-8"?>\n<resources>\n'
    tail = "</resources>\n"
    lead_blank_ok = False

    def comment(self, t):
        return "<!-- %s -->\n" % t

    def entity(self, k, v):
        return '<string name="%s">%s</string>' % (k, v)


class AndroidRoot(Android):
    """strings.xml whose document wrapper varies between versions: xmlns declarations and attributes of the
    `<resources>` root that are absent / identical / different / in another order, with or without XML declaration,
    indented strings, comments and blank lines between them.  The root is the structural item
    ("S", 0, attrs, header style, blank) with attrs = ((attribute index, value index), ...)."""
    head = ""
    scale = 0.3                 # share of the per-format case budget (the other Android stream stays as it is)
    IND = "  "
    ATTRS = [("xmlns:tools", ["http://schemas.android.com/tools"]),
             ("tools:ignore", ["MissingTranslation", "MissingTranslation,UnusedResources", "UnusedResources"]),
             ("tools:locale", ["en", "en-US"]),
             ("xmlns:xliff", ["urn:oasis:names:tc:xliff:document:1.2"]),
             ("xmlns:moz", ["http://mozac.org/tools", "http://mozac.org/tools/v2"]),
             ("locale", ["en", "de"]),
             # values that need XML escaping when the wrapper is written back: (source literal with its quotes, value)
             ("note", [('"a &amp; b"', "a & b"), ('"x &lt; y &gt; z"', "x < y > z"), ('"say &quot;hi&quot;"', 'say "hi"'),
                       ("'say \"hi\"'", 'say "hi"'), ('"it\'s"', "it's"), ("'a &apos; \"b\"'", "a ' \"b\""),
                       ('"line&#10;two&#9;tab"', "line\ntwo\ttab"), ('"\u00e9 \u00fc \u00df \u2014 \u65e5\u672c"', "\u00e9 \u00fc \u00df \u2014 \u65e5\u672c"),
                       ('"&amp;amp; &#38;lt;"', "&amp; &lt;"), '""']),
             ("desc", [("'1 &lt; 2 &amp;&amp; \"q\"'", '1 < 2 && "q"'), ('"plain"', "plain"), ('"&#13;cr &#x41;"', "\rcr A")]),
             # NOT in the random pool (see NRANDOM): an attribute named like the string `alpha` (known finding, directed cases only)
             ("alpha", ["x", "y"])]
    NRANDOM = 8                 # attributes rand_root / edit_root draw from
    CLASH = 8
    HEADERS = ['<?xml version="1.0" encoding="utf-8"?>\n', '<?xml version="1.0" encoding="UTF-8" standalone="no"?>\n', ""]
    XLIFF = '<xliff:g id="x">%1$s</xliff:g> y'
    values = Android.values + [XLIFF]

    def _val(self, a, v):
        """(source literal, value) of value number v of attribute a"""
        x = self.ATTRS[a][1][v % len(self.ATTRS[a][1])]
        if isinstance(x, tuple):
            return x
        if x == '""':
            return ('""', "")
        return ('"%s"' % x, x)

    def root_src(self, items):
        """[(name, source literal)] as written into the file (same order and additions as root_attrs)"""
        src = {}
        for it in items:
            if it[0] == "S":
                src = {self.ATTRS[a][0]: self._val(a, v)[0] for a, v in it[2]}
        return [(n, src.get(n, '"%s"' % val)) for n, val in self.root_attrs(items)]

    def root_attrs(self, items):
        """[(name, value)] of the root as rendered: the declared attributes in their order, plus the namespace
        declarations the version needs (a `tools:` attribute, an `<xliff:g>` in a value) when it does not declare them"""
        decl = []
        for it in items:
            if it[0] == "S":
                decl = [(self.ATTRS[a][0], self._val(a, v)[1]) for a, v in it[2]]
        names = [n for n, _ in decl]
        if any(n.startswith("tools:") for n in names) and "xmlns:tools" not in names:
            decl.append(("xmlns:tools", self.ATTRS[0][1][0]))
        if "xmlns:xliff" not in names and any(
                it[0] == "E" and self.values[it[2] % len(self.values)] == self.XLIFF for it in items):
            decl.append(("xmlns:xliff", self.ATTRS[3][1][0]))
        return decl

    def render(self, items, lead_blank=False):
        hs, rb = 0, False
        for it in items:
            if it[0] == "S":
                hs, rb = it[3] or 0, it[4]
        out = [self.HEADERS[hs], "<resources", "".join(" %s=%s" % a for a in self.root_src(items)), ">\n", self.blank(rb)]
        for it in items:
            if it[0] == "E":
                if it[3] is not None:
                    out.append(self.IND + self.comment(self.acomments[it[3]]))
                out.append(self.IND + self.entity(self.keys[it[1]], self.values[it[2] % len(self.values)]) + "\n")
                out.append(self.blank(it[4]))
            elif it[0] == "C":
                out.append(self.IND + self.standalone(self.scomments[it[1]]))
        out.append(self.tail)
        return "".join(out)

    def rand_root(self, rng):
        k = rng.choice([0, 1, 2, 2, 3, 4])
        idx = rng.sample(range(self.NRANDOM), k)
        return tuple((a, rng.randrange(6)) for a in idx)

    def edit_root(self, rng, items):
        """one edit of the root between channels: re-value / drop / add / reorder an attribute, change the header"""
        items = list(items)
        i = [j for j, it in enumerate(items) if it[0] == "S"][0]
        it = items[i]
        attrs = list(it[2])
        hs = it[3] or 0
        kind = rng.choice(["same", "revalue", "revalue", "drop", "add", "reorder", "header"])
        if kind == "revalue" and attrs:
            j = rng.randrange(len(attrs))
            attrs[j] = (attrs[j][0], attrs[j][1] + 1 + rng.randrange(2))
        elif kind == "drop" and attrs:
            del attrs[rng.randrange(len(attrs))]
        elif kind == "add":
            free = [a for a in range(self.NRANDOM) if a not in {x[0] for x in attrs}]
            if free:
                attrs.insert(rng.randrange(len(attrs) + 1), (rng.choice(free), rng.randrange(6)))
        elif kind == "reorder" and len(attrs) > 1:
            rng.shuffle(attrs)
        elif kind == "header":
            hs = rng.randrange(len(self.HEADERS))
        items[i] = (it[0], it[1], tuple(attrs), hs, it[4])
        return items


FORMATS = [Props(), Dtd(), Ini(), Inc(), IncF(), Po(), Ftl(), Android(), AndroidRoot()]
TEXT_FMTS = {"properties", "dtd", "ini", "inc", "po"}
UNSUPPORTED = ["foo.unknown", "a.txt", "README", "a.properties.orig", "strings.xml.bak", "a.json", "a.dtdx", "po", "a.ftl~",
               "a.inc.in", "", "a.PROPERTIES", "xproperties", "a.pot.x", "a.html", "a.js", "strings.xm"]
# a supported name followed by another suffix (backup / reject / template files): the parser patterns are anchored with `$`
_SFX = [".properties", ".dtd", ".ini", ".inc", ".po", ".pot", ".ftl", "strings.xml"]
_TAILS = [".orig", ".rej", ".bak", "~", ".in", ".x", "x", ".swp", "-old", " ", ".properties.txt"]
UNSUPPORTED += ["dir/" + ("a" if sfx.startswith(".") else "") + sfx + tail for sfx in _SFX for tail in _TAILS]
# the canonical name of every format the property quantifies over
SUPPORTED = ["a.properties", "x/y.dtd", "a.ini", "defines.inc", "a.po", "a.ftl", "strings.xml", "res/values/strings.xml",
             "a.orig.properties", "a.properties.dtd", "dir.ini/b.inc", "x.po.ftl", "a.dtd.bak/strings.xml", "a.txt.po"]
OTHER_NAMES = ["a.pot", "a.properties\n", "mystrings-x.xml", "a.inc", "stringsxml", "x.strings.foo.xml", "a.dtd/", ".po"]


# ------------------------------------------------------------------ versions
def rblank(rng):
    return rng.choice([0, 0, 0, 1, 1, 2, 3])


def base_version(f, rng, nrec):
    items = []
    if isinstance(f, Ini):
        items.append(("S", 0, None, None, rng.random() < 0.3))
    if isinstance(f, IncF):
        items.append(("S", 0, None, None, rng.random() < 0.5))
    if isinstance(f, AndroidRoot):
        items.append(("S", 0, f.rand_root(rng), rng.choice([0, 0, 0, 1, 2]), rng.random() < 0.2))
    ks = rng.sample(range(len(f.keys)), min(nrec, len(f.keys)))
    for k in ks:
        items.append(("E", k, rng.randrange(40), rng.randrange(len(f.acomments)) if rng.random() < 0.3 else None,
                      rblank(rng)))
    if can_standalone(f):
        for _ in range(rng.choice([0, 0, 1, 2, 3])):       # with replacement: a comment may be repeated
            items.insert(rng.randrange(first_free(f, items), len(items) + 1),
                         ("C", rng.randrange(len(f.scomments)), None, None, None))
    if isinstance(f, IncF):
        items.append(("S", 1, None, None, False))
    return items


def can_standalone(f):
    return not (isinstance(f, Inc) and not isinstance(f, IncF))


def first_free(f, items):
    return 1 if items and items[0][0] == "S" and items[0][1] == 0 else 0


def last_free(f, items):
    return len(items) - 1 if isinstance(f, IncF) and items and items[-1][0] == "S" else len(items)


def edit(f, rng, items):
    """one add / remove / re-value / reorder / comment edit"""
    items = list(items)
    lo, hi = first_free(f, items), last_free(f, items)
    ents = [i for i in range(lo, hi) if items[i][0] == "E"]
    kind = rng.choice(["add", "remove", "revalue", "reorder", "comment", "scomment", "blank"])
    if kind == "add":
        have = {it[1] for it in items if it[0] == "E"}
        free = [k for k in range(len(f.keys)) if k not in have]
        if free:
            items.insert(rng.randrange(lo, hi + 1), ("E", rng.choice(free), rng.randrange(40),
                                                     rng.randrange(len(f.acomments)) if rng.random() < 0.3 else None,
                                                     rblank(rng)))
    elif kind == "remove" and ents:
        del items[rng.choice(ents)]
    elif kind == "revalue" and ents:
        i = rng.choice(ents)
        it = items[i]
        items[i] = (it[0], it[1], it[2] + 1 + rng.randrange(5), it[3], it[4])
    elif kind == "reorder" and hi - lo >= 2:
        i = rng.randrange(lo, hi)
        it = items.pop(i)
        items.insert(rng.randrange(lo, hi), it)
    elif kind == "comment" and ents:
        i = rng.choice(ents)
        it = items[i]
        items[i] = (it[0], it[1], it[2], rng.choice([None] + list(range(len(f.acomments)))), it[4])
    elif kind == "scomment" and can_standalone(f):
        have = [i for i in range(lo, hi) if items[i][0] == "C"]
        if have and rng.random() < 0.5:
            del items[rng.choice(have)]
        else:
            # mostly a comment the version does not have yet, sometimes a repeated one
            free = [c for c in range(len(f.scomments)) if c not in {it[1] for it in items if it[0] == "C"}]
            if rng.random() < 0.25 or not free:
                free = list(range(len(f.scomments)))
            items.insert(rng.randrange(lo, hi + 1), ("C", rng.choice(free), None, None, None))
    elif kind == "blank" and items:
        i = rng.randrange(len(items))
        it = items[i]
        if it[0] != "C":
            items[i] = (it[0], it[1], it[2], it[3], rblank(rng))
    return items


def rec_ids(v):
    """records of a version; a standalone comment is identified by its text and its occurrence number"""
    seen = {}
    out = []
    for it in v:
        if it[0] == "C":
            seen[it[1]] = seen.get(it[1], 0) + 1
            out.append(("C", it[1], seen[it[1]]))
        else:
            out.append((it[0], it[1], 0))
    return out


def ref_order(versions):
    """independent reference for the order claim: the newest version's order; every record that only an older
    version has goes right after the record it followed there (after earlier insertions at the same place)"""
    res = rec_ids(versions[0])
    for v in versions[1:]:
        at = 0
        for r in rec_ids(v):
            if r in res:
                at = res.index(r) + 1
            else:
                res.insert(at, r)
                at += 1
    return res


def expected(f, versions):
    """key -> rendered own text of the newest version having it; expected entity key order"""
    texts = {}
    for v in versions:
        for it in v:
            if it[0] == "E" and it[1] not in texts:
                texts[it[1]] = f.entity(f.keys[it[1]], f.values[it[2] % len(f.values)])
    order = [r[1] for r in ref_order(versions) if r[0] == "E"]
    return texts, order


# ------------------------------------------------------------------ oracle
def adjacent_ws(desc):
    return any(a[0] == "W" and b[0] == "W" for a, b in zip(desc, desc[1:]))


def version_ok(f, items, desc):
    """precondition of the property + 'by construction' check: junk-free, and the real parser sees
    exactly the intended entities in the intended order"""
    if any(e[0] == "J" for e in desc):
        return False
    got = [e[1] for e in desc if e[0] == "E"]
    want = [f.key_repr(it[1]) for it in items if it[0] == "E"]
    return got == want


def oracle(f, versions, texts, r):
    """None or a message.  `versions` = item lists (newest first), `texts` their renderings, r = implementation result"""
    if r.get("exc") == "Hang":
        return "merge does not terminate"
    if "exc" in r:
        return "merge raised %s: %s" % (r["exc"], r.get("msg"))
    v = r["r"]
    if not v["canon"].startswith("ok "):
        return "supported format refused: %s" % v["canon"]
    rep = v["reparse"]
    if any(e[0] == "J" for e in rep):
        return "merged text re-parses with junk"
    exp_text, exp_order = expected(f, versions)
    keys = [e[1] for e in rep if e[0] == "E"]
    want = {f.key_repr(k): t for k, t in exp_text.items()}
    if sorted(keys) != sorted(want):
        missing = sorted(set(want) - set(keys))
        dup = sorted({k for k in keys if keys.count(k) > 1})
        extra = sorted(set(keys) - set(want))
        return "keys not exactly once: missing %s duplicated %s foreign %s" % (missing, dup, extra)
    if f.fmt != "android":
        for e in rep:
            if e[0] == "E" and e[2] != want[e[1]]:
                return "key %s does not carry the text of the newest version having it" % e[1]
    else:
        # parse-identical: the newest version's parsed text for the key
        newest = {}
        for d in v["versions"]:
            for e in d:
                if e[0] == "E":
                    newest.setdefault(e[1], e[2])
        for e in rep:
            if e[0] == "E" and e[2] != newest.get(e[1]):
                return "key %s does not carry the text of the newest version having it" % e[1]
    if keys != [f.key_repr(k) for k in exp_order]:
        return "entry order differs from newest-order-with-older-entries-after-their-neighbour"
    if len(set(texts)) == 1:
        if f.fmt == "android":
            if [e[:3] for e in rep if e[0] in "EC"] != [e[:3] for e in v["versions"][0] if e[0] in "EC"]:
                return "single/identical versions: result is not parse-identical to the input"
        elif v["text"] != texts[0]:
            return "single/identical versions: result is not the input"
    if isinstance(f, AndroidRoot):
        return root_oracle(f, versions, texts, v)
    return None


def root_oracle(f, versions, texts, v):
    """the document wrapper of a merged strings.xml (independent of the model and of the parser under test: expat):
    well-formed XML with root `resources`; every root attribute / namespace declaration of every version exactly once,
    with the value of the newest version that has it; single / identical versions keep their attribute list as it is"""
    x = v.get("xml") or {"wellformed": False, "err": "not examined"}
    if not x["wellformed"]:
        return "merged text is not well-formed XML (%s)" % x.get("err")
    if x["root"] != "resources":
        return "merged document has root element %r" % x["root"]
    exp = {}
    for items in versions:
        for n, val in f.root_attrs(items):
            exp.setdefault(n, val)
    names = [a[0] for a in x["attrs"]]
    if sorted(names) != sorted(exp):
        return "root attributes not exactly once: missing %s duplicated %s foreign %s" % (
            sorted(set(exp) - set(names)), sorted({n for n in names if names.count(n) > 1}), sorted(set(names) - set(exp)))
    for n, val in x["attrs"]:
        if exp[n] != val:
            return "root attribute %s does not carry the value of the newest version having it (%r, expected %r)" % (n, val, exp[n])
    # (the ORDER of attributes is not significant in XML and not judged: minidom lists namespace declarations differently)
    return None


def wrapper_contract(f, items, desc):
    """input contract of the entry-level model (merge.ents) for Android: the sticky DocumentWrapper entries of a version
    are keyed '<?xml?><resources>', then the ATTRIBUTE NAME of every root attribute (in minidom's order), '>', and at the
    end '</resources>'; the text of an attribute wrapper is ` name="value"`"""
    w = [e for e in desc if e[0] == "?"]
    attrs = f.root_attrs(items)
    n = len(attrs)
    if len(w) != n + 3 or [w[0][1], w[n + 1][1], w[n + 2][1]] != [repr("<?xml?><resources>"), repr(">"), repr("</resources>")]:
        return False
    if desc[0] is not w[0] or desc[-1] is not w[-1] or desc[:n + 2] != w[:n + 2]:
        return False
    return sorted((e[1], attr_of_text(e[3])) for e in w[1:n + 1]) == sorted((repr(a[0]), a) for a in attrs)


def attr_of_text(text):
    """the (name, value) a wrapper text ` name="value"` denotes as XML (expat), or None"""
    from xml.parsers import expat
    p = expat.ParserCreate()
    p.ordered_attributes = True
    got = []
    p.StartElementHandler = lambda name, attrs: got.append(attrs)
    try:
        p.Parse(("<r%s/>" % text).encode("utf-8"), True)
    except expat.ExpatError:
        return None
    return tuple(got[0]) if got and len(got[0]) == 2 else None


CLASH_FINDING = "C15-android-root-attr-key-clash"


def root_attr_key_clash(f, versions):
    """ROOT CAUSE of the known finding: Android, and the NAME of some attribute of a `<resources>` root equals the `name` of
    some string of some version — DocumentWrapper keys and string keys share one key space in merge_resources"""
    if not isinstance(f, AndroidRoot):
        return False
    names = {n for items in versions for n, _ in f.root_attrs(items)}
    keys = {f.keys[it[1]] for items in versions for it in items if it[0] == "E"}
    return bool(names & keys)


def classify(v):
    return v.get("finding")


# ------------------------------------------------------------------ run
def gen_cases(ctx, f):
    """[(versions newest first as item lists)]"""
    rng = ctx.rng("c15", f.fmt, type(f).__name__)
    cases = []
    # bounded-exhaustive: all pairs of versions over three records (every ordered sub-sequence), one value pattern each
    sub = [p for n in range(1, 4) for p in itertools.permutations(range(3), n)]

    def mk(seq, salt):
        items = [("E", k, salt + 7 * k, None, False) for k in seq]
        if isinstance(f, Ini):
            items.insert(0, ("S", 0, None, None, False))
        if isinstance(f, IncF):
            items = [("S", 0, None, None, False)] + items + [("S", 1, None, None, False)]
        if isinstance(f, AndroidRoot):
            # the same attribute with another value per version, another attribute order, one version without a root attribute
            roots = [((0, 0), (1, 0)), ((1, 1), (0, 0), (2, 0)), ((5, 1), (1, 2), (0, 0)), ()]
            items.insert(0, ("S", 0, roots[(salt + len(seq)) % 4 if salt else 0], 0, False))
        return items
    scale = getattr(f, "scale", 1)
    for a in sub:
        cases.append([mk(a, 0)])
        for b in sub:
            cases.append([mk(a, 0), mk(b, 1)])
    triples = [(a, b, c) for a in sub for b in sub for c in sub]
    for a, b, c in (triples if ctx.tier != "quick" and scale == 1 else rng.sample(triples, int(ctx.n(250, 3375) * scale))):
        cases.append([mk(a, 0), mk(b, 1), mk(c, 2)])
    exhaustive = len(cases)
    # histories: chains of edits over the common pool, one to four versions
    for _ in range(int(ctx.n(700, 12000) * scale)):
        n = rng.choice([1, 2, 2, 3, 3, 4])
        v = base_version(f, rng, rng.randrange(1, 6))
        chain = [v]
        for _ in range(n - 1):
            for _ in range(rng.randrange(0, 4)):
                v = edit(f, rng, v)
            if isinstance(f, AndroidRoot):
                for _ in range(rng.randrange(0, 3)):
                    v = f.edit_root(rng, v)
            chain.append(v)
        if rng.random() < 0.5:
            chain.reverse()
        elif rng.random() < 0.2:
            rng.shuffle(chain)
        cases.append(chain)
    # identical versions
    for _ in range(int(ctx.n(60, 600) * scale)):
        v = base_version(f, rng, rng.randrange(1, 6))
        cases.append([v] * rng.randrange(2, 5))
    # directed (no random choice): neighbouring white-space of different length on both sides of an older-only entry,
    # so that `prune` meets a longer run AFTER a shorter one (the replacing branch) as well as the other way round
    def E(k, salt, blank, com=None):
        return ("E", k, salt + 7 * k, com, blank)

    def W(items):
        w = mk((), 0)
        at = 1 if w and w[0][0] == "S" and w[0][1] == 0 else 0
        return w[:at] + items + w[at:]
    for b_new, b_old in [(3, 0), (1, 3), (3, 1), (2, 3), (0, 3)]:
        cases.append([W([E(0, 0, b_new), E(1, 0, 0)]), W([E(0, 1, 0), E(2, 1, b_old), E(1, 1, 0)])])
        cases.append([W([E(0, 0, b_new), E(1, 0, 1)]), W([E(0, 1, b_old), E(2, 1, b_old), E(1, 1, 0), E(3, 1, b_new)]),
                      W([E(3, 2, 0), E(4, 2, b_new), E(0, 2, b_old), E(5, 2, b_old)])])
        cases.append([W([E(0, 0, b_new, 1), E(1, 0, 0)]), W([E(0, 1, 0), E(2, 1, b_old, 0), E(1, 1, 0)])])
    if isinstance(f, AndroidRoot):
        # directed: every root attribute value that needs XML escaping (&amp; &lt; &gt; &quot; " in '…', ' &apos; &#10; &#9; &#13;,
        # non-ASCII, an escaped escape, the empty value) — single version, identical versions, two and three differing versions
        def R(attrs, *ents):
            return [("S", 0, tuple(attrs), 0, False)] + list(ents)
        for v in range(len(f.ATTRS[6][1])):
            a = R([(6, v)], E(0, 0, 0), E(1, 0, 0))
            b = R([(6, v + 1), (7, v)], E(0, 1, 0), E(2, 1, 1))
            c = R([(7, v + 1), (0, 0), (1, v), (6, v + 2)], E(1, 2, 0, 1), E(3, 2, 0))
            cases += [[a], [a, a], [b, b, b], [a, b], [b, a], [a, b, c], [c, a, b]]
        # KNOWN FINDING C15-android-root-attr-key-clash, one deterministic family per run: a root attribute named like a string
        # (`<resources alpha="x">` with `<string name="alpha">`): same version, older version only, across versions …
        cases.append([R([(f.CLASH, 0)], E(0, 0, 0), E(1, 0, 0))])
        cases.append([R([(5, 0)], E(1, 0, 0)), R([(f.CLASH, 1)], E(0, 1, 0), E(1, 1, 0))])
        cases.append([R([(f.CLASH, 0)], E(1, 0, 0)), R([], E(0, 1, 0), E(1, 1, 0))])
        # … and the control: the same attribute where NO version has a string of that name is judged like any other case
        cases.append([R([(f.CLASH, 0)], E(1, 0, 0), E(2, 0, 0)), R([(f.CLASH, 1), (5, 1)], E(2, 1, 0))])
    return cases, exhaustive


def junk_variants(rng, f, texts):
    """outside the property's domain (correspondence only): drop the final newline, inject junk, duplicate keys"""
    texts = list(texts)
    i = rng.randrange(len(texts))
    t = texts[i]
    r = rng.random()
    if r < 0.3 and t.endswith("\n"):
        texts[i] = t[:-1]
    elif r < 0.6:
        pos = rng.randrange(len(t) + 1)
        texts[i] = t[:pos] + rng.choice(["??", "\n]]>", "=", "<", "\n\n\n", " ", "\"", "#"]) + t[pos:]
    else:
        lines = t.split("\n")
        j = rng.randrange(len(lines))
        lines.insert(j, lines[rng.randrange(len(lines))])
        texts[i] = "\n".join(lines)
    return texts


def run_format(ctx, f):
    """correspondence + oracle for one format; returns (Outcome, versions with adjacent white-space, wrapper contract breaches)"""
    out = Outcome()
    total_adj = 0
    bad_wrappers = 0
    tag = type(f).__name__
    rng = ctx.rng("c15.run", tag)
    cases, exhaustive = gen_cases(ctx, f)
    rendered = []
    for vs in cases:
        lead = rng.random() < 0.15
        rendered.append([f.render(v, lead_blank=lead and f.lead_blank_ok) for v in vs])
    out.count("%s.cases" % tag, len(cases))
    out.count("%s.exhaustive" % tag, exhaustive)
    res = pool.pmap("impl.channels", "impl_merge", [[f.fmt, f.name, ts] for ts in rendered], timeout=5.0)
    # correspondence lines
    tlines, elines = [], []
    for ts, r in zip(rendered, res):
        tlines.append("merge.texts %s %s" % (f.fmt, " ".join(C.enc(t) for t in ts)) if f.fmt in TEXT_FMTS else None)
        elines.append(r["r"].get("ents") if "r" in r else None)
    tmodel = drive(ctx, tlines)
    emodel = drive(ctx, elines)
    for vs, ts, r, tm, em in zip(cases, rendered, res, tmodel, emodel):
        out.evaluations += 1
        in_domain = True
        if "r" in r and "versions" in r["r"]:
            for items, d in zip(vs, r["r"]["versions"]):
                if adjacent_ws(d):
                    total_adj += 1
                if not version_ok(f, items, d):
                    in_domain = False
                elif isinstance(f, AndroidRoot) and not wrapper_contract(f, items, d):
                    bad_wrappers += 1
        if not in_domain:
            out.count("%s.skipped_not_junk_free" % tag)
            bad = None
        else:
            bad = oracle(f, vs, ts, r)
        canon = r["r"]["canon"] if "r" in r else "exc " + str(r.get("exc"))
        if bad:
            out.violations.append({"what": "%s: %s" % (tag, bad), "input": {"fmt": tag, "texts": ts, "versions": vs},
                                   "output": r.get("r", {}).get("text"),
                                   "finding": CLASH_FINDING if root_attr_key_clash(f, vs) else None})
            out.count("%s.violations" % tag)
            continue
        if tm is not None and tm != canon:
            out.disagreements.append({"op": "merge.texts", "fmt": tag, "texts": ts, "impl": canon, "model": tm})
        elif em is not None and em != canon:
            out.disagreements.append({"op": "merge.ents", "fmt": tag, "texts": ts, "impl": canon, "model": em})
        if in_domain and len(vs) >= 2 and "r" in r:
            newest = {it[1] for it in vs[0] if it[0] == "E"}
            older = {it[1] for v in vs[1:] for it in v if it[0] == "E"}
            vals = {}
            reval = False
            for v in vs:
                for it in v:
                    if it[0] == "E":
                        if it[1] in vals and vals[it[1]] != it[2] % len(f.values):
                            reval = True
                        vals.setdefault(it[1], it[2] % len(f.values))
            if (older - newest) or reval:
                out.nontrivial.add((tag, r["r"]["text"]))
                out.count("%s.nontrivial" % tag)
                if (len(out.samples) < 16 and len(vs) >= 3 and out.distribution.get("sampled." + tag, 0) < 2
                        and any(it[0] == "C" or it[3] is not None for v in vs for it in v)):
                    out.count("sampled." + tag)
                    out.samples.append({"fmt": tag, "versions": ts, "merged": r["r"]["text"]})
    # outside the domain: correspondence only
    rj = ctx.rng("c15.junk", tag)
    jt = [junk_variants(rj, f, ts) for ts in rj.sample(rendered, min(len(rendered), ctx.n(250, 4000)))]
    jres = pool.pmap("impl.channels", "impl_merge", [[f.fmt, f.name, ts, True, False] for ts in jt], timeout=5.0)
    jl = ["merge.texts %s %s" % (f.fmt, " ".join(C.enc(t) for t in ts)) if f.fmt in TEXT_FMTS else None for ts in jt]
    jm = drive(ctx, jl)
    je = drive(ctx, [r["r"].get("ents") if "r" in r else None for r in jres])
    for ts, r, tm, em in zip(jt, jres, jm, je):
        out.evaluations += 1
        out.count("%s.out_of_domain" % tag)
        if r.get("exc") == "Hang":
            canon = "err Hang"
        elif "r" in r:
            canon = r["r"]["canon"]
        else:
            out.count("%s.out_of_domain_exc_%s" % (tag, r.get("exc")))
            continue
        if tm is not None and tm != canon:
            out.disagreements.append({"op": "merge.texts", "fmt": tag, "texts": ts, "impl": canon, "model": tm, "domain": "outside"})
        elif em is not None and em != canon and canon != "err Hang":
            out.disagreements.append({"op": "merge.ents", "fmt": tag, "texts": ts, "impl": canon, "model": em, "domain": "outside"})
    return out, total_adj, bad_wrappers


def run(ctx):
    out = Outcome()
    out.rule = ("per format (properties, dtd, ini, inc plain and inside #filter emptyLines, po, ftl, android strings.xml): all single "
                "versions, all PAIRS of versions that are ordered sub-sequences of three records (15x15) and all (thorough) / 250 sampled "
                "(quick) TRIPLES, plus seeded histories of one to four versions derived from a common record pool by add / remove / "
                "re-value / reorder / attached-comment / standalone-comment / blank-line edits (chain order, reversed and shuffled), plus "
                "identical versions x2..4; every version is newline-terminated and checked junk-free with the real parser. "
                "non-trivial = at least two versions and the merge contains a key the newest version lacks or a re-valued key; "
                "distinct = distinct (format, merged text).  PROCESS HISTORIES (round 5): sequences of operations in ONE fresh interpreter each — "
                "merge_channels of all formats (single / identical / several versions, same-length siblings, the resource the previous merge ended with "
                "first) interleaved with the other users of the shared parser singletons (getParser(name).readUnicode / readFile / readContents + walk / "
                "parse / iteration / abandoned walk / nothing, ContentComparer.compare, L10nLinter.lint_file, serialize) on unrelated files, on the "
                "versions themselves and on files with junk, and with hasParser / getParser / compare / merge_channels on names that have NO parser "
                "(layout/main.xml, values.xml, foo.properties.orig, README.txt …) before and after supported merges of the same extension; directed "
                "skeletons (merge, other user, merge starting with the last resource) per format and interleaver + random segments, riffled; every merge "
                "step judged by the same oracle from ITS arguments alone, compared with a parser instance created for the call, a sample re-run alone "
                "in a fresh interpreter, and the whole history run through MergeH.run (c15.hist)")
    total_adj = 0
    bad_wrappers = 0
    # the formats are independent of each other: three at a time (results are merged in the order of FORMATS)
    from concurrent.futures import ThreadPoolExecutor
    with ThreadPoolExecutor(1) as hx, ThreadPoolExecutor(3) as ex:
        hist = hx.submit(run_histories, ctx)          # the process histories run beside the per-call streams
        parts = list(ex.map(lambda f: run_format(ctx, f), FORMATS))
        dups = list(ex.map(lambda f: run_dupkeys(ctx, f), FORMATS))
        hist = hist.result()
    out.merge(hist)
    for o in dups:
        out.merge(o)
    for o, a, b in parts:
        for smp in o.samples:
            if len(out.samples) < 16:
                out.samples.append(smp)
        o.samples = []
        out.merge(o)
        total_adj += a
        bad_wrappers += b
    # parser selection / refusal
    rs = ctx.rng("c15.select")
    names = list(UNSUPPORTED) + list(SUPPORTED) + list(OTHER_NAMES)
    alpha = ["a", ".", "properties", "dtd", "ini", "inc", "ftl", "po", "t", "strings", "xml", "/", "\n", "x", "-", "pot"]
    for _ in range(ctx.n(300, 3000)):
        names.append("".join(rs.choice(alpha) for _ in range(rs.randrange(1, 6))))
    sres = pool.pmap("impl.channels", "impl_select", [[n, "a"] for n in names], timeout=5.0)
    smodel = drive(ctx, ["merge.channels %s %s" % (C.enc(n), C.enc("a")) for n in names])
    for n, r, sm in zip(names, sres, smodel):
        out.evaluations += 1
        if "r" not in r:
            out.violations.append({"what": "select: merge_channels raised %s: %s" % (r.get("exc"), r.get("msg")),
                                   "input": {"name": n}, "finding": None})
            continue
        canon = r["r"]["canon"]
        refused = canon == "err MergeNotSupportedError"
        # unsupported = the code itself finds no parser for the name (and the clearly foreign names of UNSUPPORTED)
        if (n in UNSUPPORTED or not r["r"]["has"]) and not refused:
            out.violations.append({"what": "select: unsupported file type %r is not refused" % n, "input": {"name": n}, "finding": None})
        elif (n in SUPPORTED or r["r"]["has"]) and refused:
            out.violations.append({"what": "select: supported file type %r refused" % n, "input": {"name": n}, "finding": None})
        elif sm is not None:
            cls = r["r"].get("cls")
            expect = "err external" if cls in ("FluentParser", "AndroidParser") else canon
            if sm != expect:
                out.disagreements.append({"op": "merge.channels", "name": n, "impl": canon, "model": sm})
        if refused:
            out.nontrivial.add(("refused", n))
        out.count("select.%s" % ("refused" if refused else "accepted"))
    # excluded points of the theorems' hypotheses, probed on the real code (informational, not judged)
    probes = [
        ("dupkey.single", "a.properties", ["a=1\na=2\n"]),
        ("dupkey.single.dtd", "a.dtd", ['<!ENTITY a "1">\n<!ENTITY a "2">\n']),
        ("junk.identical", "a.properties", ["??\na=1\n", "??\na=1\n"]),
        ("junk.identical.dtd", "a.dtd", ['<!ENTITY a "1">\n??\n', '<!ENTITY a "1">\n??\n']),
        ("inisection.keyclash", "a.ini", ["[a]\na=1\n"]),
        ("inisection.other", "a.ini", ["[S]\na=1\n", "[O]\na=0\nb=2\n"]),
        # the C20 second-order effect (left=[0,1], right=[5,0,5,6]) as files: the older version repeats k5
        ("dupkey.older_repeats", "a.properties", ["k0=0\nk1=1\n", "k5=5\nk0=o\nk5=55\nk6=6\n"]),
    ]
    pres = pool.pmap("impl.channels", "impl_probe", [[n, ts] for _, n, ts in probes], timeout=5.0)
    for (tag, n, ts), r in zip(probes, pres):
        same = "r" in r and r["r"] == ts[0]
        out.count("probe.%s.%s" % (tag, "input_returned" if same else "input_changed"))
        out.notes.append("probe %s: merge_channels(%r, %r) -> %r" % (tag, n, ts, r.get("r", r.get("exc"))))
        if tag == "dupkey.older_repeats" and r.get("r") != "k5=55\nk0=0\nk6=6\nk1=1\n":
            out.disagreements.append({"op": "probe.dupkey.older_repeats", "impl": r.get("r", r.get("exc")),
                                      "model": "k5=55\nk0=0\nk6=6\nk1=1\n (diff_never_sees_duplicates: k6 after k0)"})
    out.contracts["versions_with_adjacent_whitespace_entries"] = total_adj
    out.contracts["android_versions_whose_wrapper_keys_are_not_the_attribute_names"] = bad_wrappers
    if bad_wrappers:
        out.notes.append("input contract of merge.ents: %d Android versions have DocumentWrapper entries that are not keyed "
                         "by '<?xml?><resources>' / attribute name / '>' / '</resources>'" % bad_wrappers)
    if total_adj:
        out.notes.append("the real parsers yielded neighbouring Whitespace entries in %d generated versions (the parser models provably "
                         "never do: walk_no_adjacent_whitespace; for Fluent/Android it is the NoAdjWs hypothesis of merge_identical_entries)" % total_adj)
    return out


def inject_dup(rng, f, items):
    """repeat one string of the version at another place, with another value (and possibly another comment)"""
    items = list(items)
    lo, hi = first_free(f, items), last_free(f, items)
    ents = [i for i in range(lo, hi) if items[i][0] == "E"]
    if not ents:
        return items
    it = items[rng.choice(ents)]
    new = ("E", it[1], it[2] + 1 + rng.randrange(5), rng.choice([None, None, it[3], 0]), rblank(rng))
    items.insert(rng.randrange(lo, hi + 1), new)
    return items


def dedup_items(items):
    """what `OrderedDict(pairs)` keeps of a version with repeated strings: the first POSITION of every key"""
    seen, out = set(), []
    for it in items:
        if it[0] == "E":
            if it[1] in seen:
                continue
            seen.add(it[1])
        out.append(it)
    return out


def run_dupkeys(ctx, f):
    """versions WITH a repeated key (outside the property's domain: 'every key once' and 'a single version is returned'
    contradict each other there).  Correspondence of the model on such inputs, and the closed forms the theorems state
    (merge_single_dup / version_dict_closed_form / diff_never_sees_duplicates / order_spec) compared with the real code:
      * single version: output == the entry texts with every repeated key kept once, at its FIRST position, with the text of
        its LAST occurrence;
      * several versions (junk-free re-parse): every key once; it carries the own text of the LAST occurrence in the newest
        version having it; entity order = the usual reference order computed on the de-duplicated versions (first positions)
        — in particular an older-only entry still lands after the neighbour it followed when an OLDER version repeats a key
        (the AddRemove misplacement for repeated right-only keys does not come through).
    A mismatch is reported as a disagreement (the theorems are about the model), never as a violation."""
    out = Outcome()
    tag = type(f).__name__
    rng = ctx.rng("c15.dup", tag)
    cases = []
    for _ in range(ctx.n(45, 500)):
        n = rng.choice([1, 1, 2, 2, 3])
        v = base_version(f, rng, rng.randrange(1, 6))
        chain = [v]
        for _ in range(n - 1):
            for _ in range(rng.randrange(0, 3)):
                v = edit(f, rng, v)
            chain.append(v)
        if rng.random() < 0.5:
            chain.reverse()
        k = rng.randrange(len(chain))
        for j in ({k} | ({rng.randrange(len(chain))} if rng.random() < 0.4 else set())):
            for _ in range(rng.choice([1, 1, 2])):
                chain[j] = inject_dup(rng, f, chain[j])
        cases.append(chain)
    # directed: the C20 example `left=[0,1]`, `right=[5,0,5,6]` as files (newest 0 1, older 5 0 5 6)
    def E(k, salt):
        return ("E", k, salt, None, False)
    wrap = lambda items: (lambda w: w[:1] + items + w[1:] if w and w[0][0] == "S" and w[0][1] == 0 else items + w)(
        [("S", 0, None, None, False)] if isinstance(f, Ini) else
        [("S", 0, None, None, False), ("S", 1, None, None, False)] if isinstance(f, IncF) else
        [("S", 0, (), 0, False)] if isinstance(f, AndroidRoot) else [])
    cases.append([wrap([E(0, 0), E(1, 0)]), wrap([E(5, 1), E(0, 1), E(5, 2), E(2, 1)])])
    cases.append([wrap([E(0, 0), E(1, 0)]), wrap([E(5, 1), E(0, 1), E(5, 2), E(2, 1)]), wrap([E(3, 1), E(0, 1), E(3, 2), E(4, 1), E(1, 3)])])
    rendered = [[f.render(v) for v in vs] for vs in cases]
    res = pool.pmap("impl.channels", "impl_merge", [[f.fmt, f.name, ts] for ts in rendered], timeout=5.0)
    tm = drive(ctx, ["merge.texts %s %s" % (f.fmt, " ".join(C.enc(t) for t in ts)) if f.fmt in TEXT_FMTS else None for ts in rendered])
    em = drive(ctx, [r["r"].get("ents") if "r" in r else None for r in res])
    for vs, ts, r, t, e in zip(cases, rendered, res, tm, em):
        out.evaluations += 1
        out.count("%s.dupkey" % tag)
        if "r" not in r or "versions" not in r["r"]:
            out.count("%s.dupkey_exc_%s" % (tag, r.get("exc")))
            continue
        v = r["r"]
        canon = v["canon"]
        if t is not None and t != canon:
            out.disagreements.append({"op": "merge.texts", "fmt": tag, "texts": ts, "impl": canon, "model": t, "domain": "dupkey"})
            continue
        if e is not None and e != canon:
            out.disagreements.append({"op": "merge.ents", "fmt": tag, "texts": ts, "impl": canon, "model": e, "domain": "dupkey"})
            continue
        if any(x[0] == "J" for d in v["versions"] for x in d) or not all(version_ok(f, it, d) for it, d in zip(vs, v["versions"])):
            out.count("%s.dupkey_input_not_as_intended" % tag)
            continue
        what = None
        if len(vs) == 1:
            d = v["versions"][0]
            last = {}
            for x in d:
                if x[0] in "ESI?":
                    last[x[1]] = x[3]
            seen, parts = set(), []
            for x in d:
                if x[0] in "ESI?":
                    if x[1] in seen:
                        continue
                    seen.add(x[1])
                    parts.append(last[x[1]])
                else:
                    parts.append(x[3])
            if f.fmt != "android" and "".join(parts) != v["text"]:
                what = "single version with a repeated key: not (first position, last text)"
            out.nontrivial.add(("dup1", tag, v["text"]))
        if what is None and not any(x[0] == "J" for x in v["reparse"]):
            keys = [x[1] for x in v["reparse"] if x[0] == "E"]
            newest = {}
            for d in v["versions"]:
                mine = {}
                for x in d:
                    if x[0] == "E":
                        mine[x[1]] = x[2]
                for k2, t2 in mine.items():
                    newest.setdefault(k2, t2)
            order = [f.key_repr(r2[1]) for r2 in ref_order([dedup_items(it) for it in vs]) if r2[0] == "E"]
            if sorted(keys) != sorted(newest):
                what = "repeated keys: a key is not exactly once in the merge"
            elif any(x[0] == "E" and x[2] != newest[x[1]] for x in v["reparse"]):
                what = "repeated keys: a key does not carry the LAST text of the newest version having it"
            elif keys != order:
                what = "repeated keys: entry order differs from the reference order of the de-duplicated versions"
            if len(vs) > 1:
                out.nontrivial.add(("dupN", tag, v["text"]))
        elif what is None:
            out.count("%s.dupkey_reparse_has_junk" % tag)
        if what:
            out.disagreements.append({"op": "dupkey.closedform", "fmt": tag, "texts": ts, "impl": canon, "what": what})
    return out


# ------------------------------------------------------------------ round 5: process histories
# merge_channels owns no parser: it loads every version into the process-wide instance `getParser(name)` returns, the
# object compare / lint / serialize and every direct `getParser(name).readFile/readUnicode/readContents` use.  The unit of
# generation here is a HISTORY: a sequence of operations executed one after another in ONE fresh interpreter, merges of
# every format (single / identical / several versions) interleaved with the other users of the singletons and with
# look-ups of names that have no parser.  Oracle by construction, per merge step (what the property promises for a merge
# depends on that call's arguments only).
HNAMES = {"properties": ["browser/a.properties", "a.properties", "x.orig.properties"], "dtd": ["a.dtd", "x/y.dtd"],
          "ini": ["a.ini", "dir.inc/b.ini"], "inc": ["a.inc", "defines.inc"], "po": ["a.po", "de/a.pot"],
          "ftl": ["a.ftl", "browser/x.po.ftl"],
          "android": ["res/values/strings.xml", "strings.xml", "values-de/strings-extra.xml", "l/mystrings-x.xml"]}
# names WITHOUT a parser that look like the format's (same extension, a supported suffix followed by another one)
LOOKALIKES = {"properties": ["foo.properties.orig", "a.properties~", "properties"], "dtd": ["a.dtdx", "a.dtd.bak"],
              "ini": ["a.ini.in", "a.inix"], "inc": ["a.inc.in", "a.incl"], "po": ["a.po.x", "a.pox", "a.potx"],
              "ftl": ["a.ftl~", "a.ftlx"],
              "android": ["layout/main.xml", "values.xml", "string.xml", "res/values/colors.xml", "AndroidManifest.xml"]}
GENERIC_REFUSED = ["README.txt", "README", "a.json", "foo.unknown", "a.html"]
# contents that are NOT versions of a merge (trailing junk / comment without newline / byte-order mark): loaded by the
# other users of the parser only
JUNKY = {"properties": ["\ufeffa=1\nb=2\n", "a=1\n# trailing comment", "a=1\nzzz", "a=line\\\n"],
         "dtd": ['\ufeff<!ENTITY a "x">\n<!ENTITY b "y">\n', '<!ENTITY a "x">\n<!-- trailing', '<!ENTITY a "x">\njunk <'],
         "ini": ["[Strings]\na=1\n; trailing", "a=1\nzzz", "\ufeff[S]\na=1\n"],
         "inc": ["#define a 1\n\n\n#define b 2\n#filter emptyLines\n", "#define a\n\n#filter emptyLines\n",
                 "#filter emptyLines\n\n\n#define a 1\n#unfilter emptyLines\n\n\n"],
         "po": ['msgid "a"\nmsgstr "b"\n\n# trailing', 'msgid "a"\nmsgstr "b"\n\njunk'],
         "ftl": ["a = 1\n# trailing", "a = 1\njunk {", "\ufeffa = 1\n"],
         "android": ['<?xml version="1.0" encoding="utf-8"?>\n<resources>\n  <string name="a">x</string>\n</resources>\n<!-- after -->']}
H_MAX_VIOLATIONS = 40


def _sibling(v):
    """a value of the SAME LENGTH with other content (first ASCII letter replaced by its successor)"""
    for i, c in enumerate(v):
        if c.isascii() and c.isalpha() and c not in "zZ":
            return v[:i] + chr(ord(c) + 1) + v[i + 1:]
    return None


def hformat(f):
    """the format with same-length siblings of its first values appended (`sib`: value number -> sibling's number)"""
    import copy
    h = copy.copy(f)
    h.values = list(f.values)
    h.sib = {}
    for i in range(min(3, len(f.values))):
        s = _sibling(f.values[i])
        if s is not None and s not in h.values:
            h.sib[i] = len(h.values)
            h.values.append(s)
    return h


def hformats():
    """{class name: the history variant of the format} (deterministic)"""
    return {type(f).__name__: hformat(f) for f in FORMATS}


def samelen_variant(rng, h, items):
    """the version with ONE value replaced by its same-length sibling (same byte length, other content), or None"""
    n0 = len(h.values) - len(h.sib)

    def base(vi):
        return vi % len(h.values)
    cand = [i for i, it in enumerate(items) if it[0] == "E" and base(it[2]) in h.sib]
    if not cand:
        return None
    i = rng.choice(cand)
    it = items[i]
    out = list(items)
    out[i] = (it[0], it[1], h.sib[base(it[2])], it[3], it[4])
    assert n0 <= h.sib[base(it[2])]
    return out


def h_merge_step(h, name, versions):
    return {"op": "merge", "name": name, "fmt": h.fmt, "tag": type(h).__name__, "texts": [h.render(v) for v in versions],
            "versions": [list(v) for v in versions]}


def h_refuse_step(name, text="a"):
    return {"op": "merge", "name": name, "fmt": None, "texts": [text], "refused": True}


def interleavers(rng, h, name, texts, every=False):
    """the OTHER users of the shared parser of `name` (and of the parser table), as [(label, [steps])]; `texts` = contents
    they load (unrelated files of the same format, the versions of neighbouring merges, files with junk)"""
    t = lambda: rng.choice(texts)
    fmt = h.fmt
    out = []
    for via in ("unicode", "file", "contents"):
        for consume in ("walk", "parse", "iter", "none", "partial"):
            out.append(("load.%s.%s" % (via, consume),
                        [{"op": "load", "fmt": fmt, "name": name, "via": via, "consume": consume, "k": rng.randrange(1, 3), "text": t()}]))
    # exception paths: a file that does not exist (readFile raises; inside compare the error is reported and swallowed)
    out.append(("load.missing", [{"op": "load", "fmt": fmt, "name": name, "via": "missing", "consume": "none", "text": ""}]))
    out.append(("compare.missing", [{"op": "compare", "fmt": fmt, "name": name, "ref": t(), "l10n": None}]))
    out.append(("compare", [{"op": "compare", "fmt": fmt, "name": name, "ref": t(), "l10n": t()}]))
    out.append(("lint", [{"op": "lint", "fmt": fmt, "name": name, "cur": t(), "ref": None}]))
    out.append(("lint.ref", [{"op": "lint", "fmt": fmt, "name": name, "cur": t(), "ref": t()}]))
    out.append(("serialize", [{"op": "serialize", "fmt": fmt, "name": name, "ref": t(), "old": t(), "new": []}]))
    look = LOOKALIKES[fmt] + [rng.choice(GENERIC_REFUSED)]
    out.append(("lookup.get", [{"op": "lookup", "names": rng.sample(look, min(3, len(look))) + [name], "how": "get"}]))
    out.append(("lookup.has", [{"op": "lookup", "names": [name] + rng.sample(look, min(3, len(look))), "how": "has"}]))
    out.append(("refuse", [h_refuse_step(rng.choice(LOOKALIKES[fmt]), t())]))
    la = rng.choice(LOOKALIKES[fmt])
    out.append(("compare.lookalike", [{"op": "compare", "fmt": fmt, "name": la, "ref": t(), "l10n": t(), "refused": True}]))
    out.append(("load.lookalike", [{"op": "load", "fmt": fmt, "name": la, "via": "unicode", "consume": "walk", "text": t(), "refused": True}]))
    return out


def seg_pool(rng, h):
    """versions of one file across channels (derived from each other, one same-length sibling), and unrelated files"""
    a = base_version(h, rng, rng.randrange(1, 5))
    pool = [a]
    v = a
    for _ in range(rng.randrange(2, 4)):
        for _ in range(rng.randrange(1, 4)):
            v = edit(h, rng, v)
        if isinstance(h, AndroidRoot) and rng.random() < 0.5:
            v = h.edit_root(rng, v)
        pool.append(v)
    s = samelen_variant(rng, h, a)
    others = [base_version(h, rng, rng.randrange(1, 5)) for _ in range(2)]
    return pool, s, others


def directed_segments(rng, h, every):
    """the skeletons of the class (contents from the generators): a merge, then ANOTHER user of the same parser, then a
    merge that starts with the resource the first one ended with / a merge of the file the other user loaded / same-length
    contents / look-ups of names without a parser BEFORE the merge of the same extension"""
    pool, sib, others = seg_pool(rng, h)
    a, b = pool[0], pool[1]
    o = others[0]
    name = rng.choice(HNAMES[h.fmt])
    otext = [h.render(x) for x in others] + [rng.choice(JUNKY[h.fmt])]
    inter = interleavers(rng, h, name, otext)
    inter_o = interleavers(rng, h, name, [h.render(o)])
    idx = list(range(len(inter)))
    if not every:
        idx = sorted(rng.sample(idx, 9))
    segs = []
    for i in idx:
        lab, st = inter[i]
        segs.append(("D1." + lab, [h_merge_step(h, name, [b, a])] + st + [h_merge_step(h, name, [a])]))
        segs.append(("D2." + lab, [h_merge_step(h, name, [a])] + st + [h_merge_step(h, name, [a, b])]))
        if every or rng.random() < 0.5:
            segs.append(("D3." + lab, [h_merge_step(h, name, [a, a])] + st + [h_merge_step(h, name, [a, a, a])]))
        if not inter_o[i][1][0].get("refused") and inter_o[i][1][0]["op"] != "lookup":
            segs.append(("D4." + lab, inter_o[i][1] + [h_merge_step(h, name, [o])]))
    if sib is not None:
        segs.append(("D5.samelen", [h_merge_step(h, name, [a]), h_merge_step(h, name, [sib]), h_merge_step(h, name, [sib, a])]))
        segs.append(("D5.samelen.load", [h_merge_step(h, name, [sib]), {"op": "load", "fmt": h.fmt, "name": name, "via": "contents",
                                                                       "consume": "walk", "text": h.render(a)},
                                         h_merge_step(h, name, [sib, a])]))
    look = LOOKALIKES[h.fmt]
    segs.append(("D6.lookup-first", [{"op": "lookup", "names": list(look), "how": rng.choice(["get", "has"])}]
                 + [h_refuse_step(n) for n in rng.sample(look, 2)]
                 + [h_merge_step(h, n, [a]) for n in HNAMES[h.fmt]] + [h_refuse_step(look[0])]))
    segs.append(("D6.merge-first", [h_merge_step(h, n, [b]) for n in HNAMES[h.fmt]]
                 + [h_refuse_step(n) for n in look] + [h_merge_step(h, HNAMES[h.fmt][0], [a, b])]))
    return segs


def random_segment(rng, h):
    pool, sib, others = seg_pool(rng, h)
    if sib is not None:
        pool.append(sib)
    name = rng.choice(HNAMES[h.fmt])
    texts = [h.render(x) for x in others + pool] + [rng.choice(JUNKY[h.fmt])]
    steps = []
    last = None
    for _ in range(rng.randrange(4, 10)):
        if rng.random() < 0.5:
            k = rng.choice([1, 1, 2, 2, 3])
            if rng.random() < 0.15:
                vs = [rng.choice(pool)] * rng.randrange(2, 4)
            else:
                vs = [rng.choice(pool) for _ in range(k)]
            if last is not None and rng.random() < 0.4:
                vs[0] = last            # starts with the resource the parser was handed last by a merge
            if rng.random() < 0.2:
                name = rng.choice(HNAMES[h.fmt])
            steps.append(h_merge_step(h, name, vs))
            last = vs[-1]
        else:
            steps += rng.choice(interleavers(rng, h, name, texts))[1]
    return ("R." + type(h).__name__, steps)


def gen_histories(ctx):
    """[[step, ...]]: every inner list runs in ONE fresh interpreter"""
    rng = ctx.rng("c15.hist")
    hs = list(hformats().values())
    segs = []
    every = ctx.tier != "quick"
    for h in hs:
        for _ in range(1 if ctx.tier == "quick" else 3):
            segs += directed_segments(rng, h, every)
    for _ in range(ctx.n(300, 3000)):
        segs.append(random_segment(rng, rng.choice(hs)))
    rng.shuffle(segs)
    nh = max(1, min(len(segs), ctx.n(28, 160)))
    hists = [[] for _ in range(nh)]
    for i, (lab, steps) in enumerate(segs):
        for st in steps:
            st = dict(st)
            st["seg"] = "%d:%s" % (i, lab)
            hists[i % nh].append(st)
    # riffle: in some histories the steps of neighbouring segments alternate (other formats' parsers in between)
    for hsteps in hists:
        if rng.random() < 0.3 and len(hsteps) > 8:
            k = len(hsteps) // 2
            a, b = hsteps[:k], hsteps[k:]
            mixed = []
            while a or b:
                src = a if (a and (not b or rng.random() < 0.5)) else b
                mixed.append(src.pop(0))
            hsteps[:] = mixed
    return hists


def wire_step(st):
    return {k: v for k, v in st.items() if k not in ("versions", "tag", "seg", "refused")}


def run_fresh(histories, timeout=60.0, jobs=14):
    """impl_history(steps) for every history, EACH IN ITS OWN FRESH INTERPRETER (None: no answer within the deadline)"""
    import os
    from concurrent.futures import ThreadPoolExecutor

    def one(steps):
        w = pool.Worker()
        try:
            r = w.call([["impl.channels", "impl_history", [[wire_step(s) for s in steps]]]], timeout + 0.05 * len(steps))
        finally:
            w.close()
        if r is None:
            return None
        r = r[0]
        return r["r"] if "r" in r else [{"canon": "ADAPTER-EXC %s: %s" % (r.get("exc"), r.get("msg"))}] * len(steps)
    if not histories:
        return []
    with ThreadPoolExecutor(min(jobs, os.cpu_count() or 4)) as ex:
        return list(ex.map(one, histories))


def describe_steps(items):
    """impl_describe for [(step, result)] of supported merge steps (parsers created for the purpose, other interpreters)"""
    byname = hformats()
    args = [[st["fmt"], byname[st["tag"]].name, st["texts"], r.get("text")] for st, r in items]
    return pool.pmap("impl.channels", "impl_describe", args, timeout=5.0)


def judge_merge(st, r, d):
    """(message or None, in the property's domain?) for one merge step of a history: `r` what the history's interpreter
    returned, `d` = impl_describe of its arguments and result"""
    canon = r.get("canon", "")
    if st.get("refused"):
        if canon != "err MergeNotSupportedError":
            return "unsupported file type %r is not refused (%s)" % (st["name"], canon[:60]), True
        return None, True
    f = hformats()[st["tag"]]
    vs = [[tuple(it) for it in v] for v in st["versions"]]
    if "r" not in d or "versions" not in d["r"]:
        return None, False
    if not all(version_ok(f, items, desc) for items, desc in zip(vs, d["r"]["versions"])):
        return None, False
    if canon.startswith("ok "):
        rr = {"r": d["r"]}
    elif canon.startswith("err "):
        rr = {"r": dict(d["r"], canon=canon)}
    else:
        rr = {"exc": canon.split(":")[0].replace("exc ", ""), "msg": canon}
    return oracle(f, vs, st["texts"], rr), True


def shrink_history(steps, idx, failing, budget=14):
    """a shorter history whose LAST step still fails the oracle: the segment of the failing step alone, then single
    steps dropped greedily; every candidate runs in its own fresh interpreter"""
    def fails(cand):
        res = run_fresh([cand])[0]
        if res is None or len(res) != len(cand):
            return False
        st, r = cand[-1], res[-1]
        d = describe_steps([(st, r)])[0] if not st.get("refused") else {}
        return judge_merge(st, r, d)[0] is not None
    best = steps[:idx + 1]
    seg = [s for s in best if s.get("seg") == failing.get("seg")]
    used = 0
    if len(seg) < len(best) and seg and seg[-1] is best[-1]:
        used += 1
        if fails(seg):
            best = seg
    i = len(best) - 2
    while i >= 0 and used < budget and len(best) <= 12:
        cand = best[:i] + best[i + 1:]
        used += 1
        if fails(cand):
            best = cand
        i -= 1
    return best


def hist_model_line(steps):
    """(`c15.hist` line, [(step index, sub index | None)] per model step whose output is compared)"""
    toks = ["c15.hist", "P", "0"]
    where = []
    for i, st in enumerate(steps):
        k = st["op"]
        fmt = st.get("fmt")
        if k == "merge":
            toks += ["mchan", C.enc(st["name"]), str(len(st["texts"]))] + [C.enc(t) for t in st["texts"]]
            where.append((i, None))
            continue
        if k == "lookup":
            for j, n in enumerate(st["names"]):
                toks += ["getparser", C.enc(n)]
                where.append((i, j))
            continue
        if fmt not in TEXT_FMTS or st.get("refused"):
            continue
        groups = []
        if k == "load" and st.get("via") == "missing":
            pass                                    # readFile raised before readUnicode: the parser keeps its Context
        elif k == "compare" and st.get("l10n") is None:
            groups.append(["parse", fmt, C.enc(st["ref"])])
        elif k == "load":
            groups.append(["read", fmt, C.enc(st["text"])])
            if st.get("consume") in ("walk", "parse", "iter"):
                groups.append(["rewalk", fmt])
        elif k == "compare":
            if fmt in ("ini", "inc"):
                groups.append(["compare", fmt, C.enc(st["ref"]), C.enc(st["l10n"])])
            else:
                groups += [["parse", fmt, C.enc(st["ref"])], ["parse", fmt, C.enc(st["l10n"])]]
        elif k == "lint":
            if fmt in ("ini", "inc"):
                groups.append(["lint", fmt, "-" if st.get("ref") is None else C.enc(st["ref"]), C.enc(st["cur"])])
            else:
                groups += ([["parse", fmt, C.enc(st["ref"])]] if st.get("ref") is not None else []) + [["parse", fmt, C.enc(st["cur"])]]
        elif k == "serialize":
            groups += [["parse", fmt, C.enc(st["ref"])], ["parse", fmt, C.enc(st["old"])]]
        for g in groups:
            toks += g
            where.append(None)
    return " ".join(toks), where


def run_histories(ctx):
    out = Outcome()
    hists = gen_histories(ctx)
    rng = ctx.rng("c15.hist.sample")
    merges = [(hi, si) for hi, h in enumerate(hists) for si, st in enumerate(h) if st["op"] == "merge"]
    # the same merge step alone in a fresh interpreter (differential), for a sample
    sample = rng.sample(merges, min(len(merges), ctx.n(40, 500)))
    singles = [[dict(hists[hi][si], fresh=False)] for hi, si in sample]
    res = run_fresh(hists + singles)
    hres, sres = res[:len(hists)], res[len(hists):]
    out.count("history.histories", len(hists))
    out.count("history.steps", sum(len(h) for h in hists))
    for h in hists:
        for st in h:
            out.count("history.op.%s" % (st["op"] if not st.get("refused") else st["op"] + ".noparser"))
    # histories that did not answer: retried once, then reported as they are
    for hi, r in enumerate(hres):
        if r is None:
            r = run_fresh([hists[hi]], timeout=240.0)[0]
            hres[hi] = r
            if r is None:
                # which operation does not return?  shortest prefix without an answer (every probe in a fresh interpreter)
                out.count("history.no_answer")
                lo, hi_ = 0, len(hists[hi])
                while lo + 1 < hi_:
                    mid = (lo + hi_) // 2
                    if run_fresh([hists[hi][:mid]], timeout=30.0)[0] is None:
                        hi_ = mid
                    else:
                        lo = mid
                st = hists[hi][hi_ - 1]
                if st["op"] == "merge" and not st.get("refused"):
                    out.violations.append({"what": "history: %s: merge does not terminate [step %d of a history in one interpreter]" % (st["tag"], hi_),
                                           "input": {"history": [wire_step(s) for s in hists[hi][:hi_]], "index": hi_ - 1}, "finding": None})
                else:
                    out.notes.append("history: operation %r (not a merge) did not return within the deadline: %s" % (st["op"], json.dumps(wire_step(st))[:300]))
    todo = [(hi, si) for hi, si in merges if hres[hi] is not None and not hists[hi][si].get("refused")]
    descs = describe_steps([(hists[hi][si], hres[hi][si]) for hi, si in todo])
    dmap = dict(zip(todo, descs))
    elines = [d["r"].get("ents") if "r" in d else None for d in descs]
    emodel = dict(zip(todo, drive(ctx, elines)))
    single_of = {key: (r[0] if r else None) for key, r in zip(sample, sres)}
    failed = []
    for hi, si in merges:
        if hres[hi] is None:
            continue
        st, r = hists[hi][si], hres[hi][si]
        out.evaluations += 1
        d = dmap.get((hi, si), {})
        bad, in_domain = judge_merge(st, r, d)
        canon = r.get("canon", "")
        if st.get("refused"):
            out.count("history.refused" if bad is None else "history.violations")
            out.nontrivial.add(("h.refused", st["name"], si > 0))
        elif not in_domain:
            out.count("history.skipped_not_junk_free")
        if bad:
            failed.append((hi, si, bad))
            continue
        text = r.get("text")
        if "fresh" in r and r["fresh"] != text:
            out.disagreements.append({"op": "history.fresh-instance", "what": "merge_channels on the shared parser and merge_resources on a "
                                      "parser created for the call differ", "step": wire_step(st), "index": si, "shared": text,
                                      "fresh": r.get("fresh"), "fresh_exc": r.get("fresh_exc"),
                                      "before": [wire_step(s) for s in hists[hi][max(0, si - 3):si]]})
            continue
        s1 = single_of.get((hi, si))
        if s1 is not None:
            out.count("history.fresh_interpreter_checked")
            if s1.get("canon") != canon:
                out.disagreements.append({"op": "history.fresh-interpreter", "what": "the same merge_channels call alone in a fresh interpreter "
                                          "returns something else", "step": wire_step(st), "index": si, "in_history": canon[:400],
                                          "alone": str(s1.get("canon"))[:400], "before": [wire_step(s) for s in hists[hi][max(0, si - 3):si]]})
                continue
        em = emodel.get((hi, si))
        if em is not None and canon.startswith("ok ") and em != canon:
            out.disagreements.append({"op": "merge.ents", "fmt": st["tag"], "texts": st["texts"], "impl": canon, "model": em, "domain": "history"})
        if in_domain and not st.get("refused"):
            kind = "single" if len(st["texts"]) == 1 else ("identical" if len(set(st["texts"])) == 1 else "several")
            out.count("history.merge.%s" % kind)
            prev = hists[hi][si - 1]["op"] if si else "start"
            out.nontrivial.add(("h", st["tag"], kind, prev, text if kind == "several" else len(text) % 64))
            if kind == "several" and prev not in ("merge", "start") and out.distribution.get("sampled.history", 0) < 2:
                out.count("sampled.history")
                out.samples.append({"fmt": st["tag"], "history_before": [wire_step(s) for s in hists[hi][max(0, si - 2):si]],
                                    "versions": st["texts"], "merged": text})
    # violations: a concrete failing history each (shrunk for the first ones), all counted
    out.count("history.violations", len(failed))
    for n, (hi, si, bad) in enumerate(failed[:H_MAX_VIOLATIONS]):
        st, r = hists[hi][si], hres[hi][si]
        steps = hists[hi][:si + 1]
        if n < 2:
            try:
                steps = shrink_history(hists[hi], si, st)
            except Exception:       # noqa: shrinking is a convenience
                steps = hists[hi][:si + 1]
        f = hformats().get(st.get("tag"))
        vs = [[tuple(it) for it in v] for v in st.get("versions", [])]
        out.violations.append({
            "what": "history: %s: %s [step %d of %d operations in one interpreter; before it: %s]" % (
                st.get("tag") or "select", bad, len(steps), len(steps), ", ".join(s["op"] for s in steps[-4:-1]) or "nothing"),
            "input": {"history": [dict(wire_step(s), **({"versions": s["versions"], "tag": s["tag"]} if "versions" in s else {}),
                                       **({"refused": True} if s.get("refused") else {})) for s in steps],
                      "index": len(steps) - 1},
            "output": r.get("text", r.get("canon")), "fresh_instance": r.get("fresh"),
            "finding": CLASH_FINDING if (f is not None and root_attr_key_clash(f, vs)) else None})
    # correspondence: the whole history through the state machine (MergeH.run over HistM.step)
    if ctx.model_ok:
        ok_h = [hi for hi in range(len(hists)) if hres[hi] is not None]
        lines, wheres = [], []
        for hi in ok_h:
            l, w = hist_model_line(hists[hi])
            lines.append(l)
            wheres.append(w)
        bad_steps = {(hi, si) for hi, si, _ in failed}
        for hi, w, mo in zip(ok_h, wheres, C.run_driver_parallel(lines) if lines else []):
            got = mo.split(" || ") if mo else []
            if len(got) != len(w):
                out.disagreements.append({"op": "c15.hist", "what": "model answered %d steps for %d" % (len(got), len(w)), "model": mo[:300]})
                continue
            for g, wh in zip(got, w):
                if wh is None:
                    continue
                si, sub = wh
                st, r = hists[hi][si], hres[hi][si]
                out.evaluations += 1
                if sub is not None:
                    each = r.get("each") or []
                    exp = each[sub] if sub < len(each) else "?"
                    same = (g == exp) or (exp == "gp ?" and g != "gp none")
                else:
                    exp = r.get("canon", "")
                    if st.get("fmt") in ("ftl", "android") and exp.startswith("ok "):
                        exp = "err external"
                    same = g == exp
                if not same and (hi, si) not in bad_steps:
                    out.disagreements.append({"op": "c15.hist", "index": si, "step": wire_step(st), "impl": exp[:400], "model": g[:400],
                                              "before": [wire_step(s) for s in hists[hi][max(0, si - 3):si]]})
                out.count("history.model_steps_compared")
    return out


def drive(ctx, lines):
    """run the non-None protocol lines through the driver, keep positions"""
    if not ctx.model_ok:
        return [None] * len(lines)
    idx = [i for i, l in enumerate(lines) if l is not None]
    res = C.run_driver_parallel([lines[i] for i in idx])
    out = [None] * len(lines)
    for i, r in zip(idx, res):
        out[i] = r
    return out


def replay(payload):
    res = []
    byname = {type(f).__name__: f for f in FORMATS}
    for v in payload.get("violations", []):
        i = v["input"]
        if "history" in i:
            steps = i["history"]
            r = run_fresh([steps])[0]
            k = i.get("index", len(steps) - 1)
            if r is None:
                res.append({"input": i, "oracle": "no answer within the deadline"})
                continue
            st = steps[k]
            d = describe_steps([(st, r[k])])[0] if not st.get("refused") else {}
            res.append({"input": i, "result": r[k].get("text", r[k].get("canon")), "oracle": judge_merge(st, r[k], d)[0]})
        elif "texts" in i:
            f = byname[i["fmt"]]
            vs = [[tuple(it) for it in ver] for ver in i["versions"]]
            r = pool.pmap("impl.channels", "impl_merge", [[f.fmt, f.name, i["texts"]]], timeout=10.0)[0]
            res.append({"input": i, "oracle": oracle(f, vs, i["texts"], r)})
        else:
            r = pool.pmap("impl.channels", "impl_select", [[i["name"], "a"]], timeout=10.0)[0]
            res.append({"input": i, "result": r})
    return {"violates": any(r.get("oracle") for r in res), "cases": res}

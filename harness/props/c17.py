"""C17 — Reported line and column numbers point at the right character."""
import itertools
import re

from lib import common as C
from lib import pool
from lib.runner import Outcome

from props import c01

ID = "C17"
LEAN_TARGETS = ["CLModel.Props.C17"]
M = "CLModel.Props.C17"
THEOREMS = [
    (M, "C17.linecol_cursor", "linecol(p) never raises for p >= 0 and equals the text-editor cursor: (1,1) at offset 0, newline -> next line column 1, other character -> next column (all texts, all offsets)"),
    (M, "C17.linecol_spec", "line = 1 + number of newlines before p; column = 1 + distance from the line start (<= p, at text start or after a newline, no newline up to p)"),
    (M, "C17.linecol_lineStart_unique", "that line start is unique, so linecol_spec determines the pair"),
    (M, "C17.linecol_zero_succ", "step rule: offset 0 is (1,1); after a newline next line column 1; else one column further"),
    (M, "C17.linecol_inverse", "the offset is recovered from (line, column): start of that line (one past the (line-1)-th newline) + column - 1"),
    (M, "C17.linecol_injective", "two offsets never share a (line, column)"),
    (M, "C17.linecol_one_based", "line >= 1 and column >= 1 for every offset >= 0"),
    (M, "C17.linecol_monotone", "strictly increasing lexicographically in the offset"),
    (M, "C17.linecol_negative", "excluded point: a negative offset is reported as (1, offset+1), column <= 0"),
    (M, "C17.position_spec", "Entry.position / Junk.position: cursor of span[0]+offset, negative offset = end of span"),
    (M, "C17.value_position_spec", "Entry.value_position: cursor of val_span[0]+offset, negative offset = end of value"),
    (M, "C17.position_identifies", "the pair reported for an offset inside an entry identifies exactly that offset"),
    (M, "C17.junk_message_positions", "Junk.error_message numbers = cursor of the span start, then of the span end"),
    (M, "C17.fluent_value_position", "Fluent: value_position(offset) = position(offset), offsets count from the entry start"),
    (M, "C17.fluent_value_position_default", "Fluent value_position(): start of the value (value inside the entry)"),
    (M, "C17.fluent_value_position_novalue", "Fluent value_position() without a value: end of the id"),
    (M, "C17.fluent_value_position_default_excluded", "excluded point: a value starting before its entry would be reported at the entry's end"),
    (M, "C17.dtd_tuple_position_partial", "DTD (1, c) inside the value's first line = cursor of the c-th value character"),
    (M, "C17.dtd_tuple_later_line_off_by_one", "DTD (l>=2, c): right line, column one too small (defect, proved from the code's arithmetic)"),
    (M, "C17.dtd_tuple_line_zero", "DTD (0, c): reported on the line before the value's line with column c (defect: DTDChecker's (0,0))"),
    (M, "C17.check_pos_in_range_entity", "EntityPos(n) with span[0]+n <= len(text): start of entity <= reported <= end of file"),
    (M, "C17.check_pos_in_range_value", "int offset n into the value with val_span[0]+n <= len(text): same range"),
    (M, "C17.check_pos_in_range_fluent", "Fluent int offset n with span[0]+n <= len(text): same range"),
]
PARTIAL = [
    "dtd_tuple_position_partial: only pairs on the first line of the value are reported at the right character; for later lines and line 0 the code is off (theorems dtd_tuple_later_line_off_by_one / dtd_tuple_line_zero state what it does); which pair expat reports for an XML error is external",
    "check_pos_in_range_*: conditional on the checker's offset staying inside what it indexes; the checkers are not modelled, the claim is checked on the real checkers by the harness (and fails for EntityPos with a pre-comment and DTD line-0 pairs, see findings)",
    "fluent_value_position_default needs the value to start inside the entry (contract of fluent.syntax, monitored)",
]
TRUSTED = [
    "hand-written model CLModel/Parser/Position.lean of linecol / position / value_position / error_message / DTD and Fluent overrides / check-position dispatch (tied by the linecol, c17.* correspondences)",
    "bisect.bisect (C library) modelled by its contract on sorted lists (number of elements <= x); the list of line ends is proved strictly increasing",
    "the regex compiled inside linecol is regenerated from /repo by the translator (parser_base_Parser_Context_linecol_nl) and proved to be the single character newline",
    "parser models CLModel/Parser/{Base,Formats,Fluent}.lean (C01) supply the entries of the file-level correspondence",
]
ASSUMPTIONS = [
    "texts are newline-normalised (no carriage returns), as the property states; other Unicode line breaks are ordinary characters for linecol",
    "Android entities carry no spans (anchors exclude android.py): outside C17",
    "offsets judged by the oracle lie in [0, len(text)]; a (-1,-1) span of an unmatched group (value_position of `#define k`) is reported informationally",
]
LEVEL_TEXT = ("Lean 4 theorems over an executable transliteration of Parser.Context.linecol and the position methods: for ALL texts and ALL "
              "offsets the reported pair is the text-editor cursor position (1-based, newline count + distance from the line start), the "
              "offset is recovered from the pair, the map is strictly monotone; entry/value/junk/Fluent/DTD positions reduce to it. "
              "Model tied to the Python by exhaustive {letter,newline} texts x every offset, by all entries of generated files of six "
              "formats, and by the positions the real compare/lint runs attach to checker results; an independent oracle (count/rfind/split) "
              "checks the property on the implementation")
LEVEL_NOTE = ("trusted: Lean kernel, hand-written model validated by correspondence, bisect by contract; DTD pairs are right only on the first "
              "value line (proved, with the defects for other lines as theorems); range of checker positions proved under 'offset inside what "
              "it indexes' and checked on the real checkers, where three root causes violate it (findings)")
TECHNIQUE = "Lean 4 proof (linecol = cursor, inverse, monotone) + exhaustive/differential correspondence + independent oracle on the implementation"

FORMATS = ["properties", "dtd", "ini", "inc", "po", "ftl"]
CHECK_FORMATS = ["properties", "dtd", "ftl", "ini", "inc"]
LETTERS = ["a", "é", "\x0b", "\x85", " ", "\U0001F600", " ", "\t", "\x0c", "\x1c", "=", "#"]


# ------------------------------------------------------------------ independent reference
def ref_linecol(text, p):
    """1-based line and column of offset p (0 <= p <= len): count the newlines before p, measure from the last one"""
    return text.count("\n", 0, p) + 1, p - (text.rfind("\n", 0, p) + 1) + 1


def ref_offset(text, line, col):
    """the offset a (line, column) pair denotes, by splitting the text into lines; None if there is no such place"""
    lines = text.split("\n")
    if not (1 <= line <= len(lines)) or col < 1 or col - 1 > len(lines[line - 1]):
        return None
    return sum(len(l) + 1 for l in lines[:line - 1]) + col - 1


def judge(text, target, reported):
    """None or a message: `reported` must be the pair of offset `target` and identify exactly that character"""
    if isinstance(reported, str):
        return "raised %s" % reported
    line, col = reported
    if line < 1 or col < 1:
        return "reported (%d, %d) is not 1-based" % (line, col)
    exp = ref_linecol(text, target)
    back = ref_offset(text, line, col)
    if back != target:
        return "reported (%d, %d) denotes offset %r, not offset %d (expected %r)" % (line, col, back, target, exp)
    if (line, col) != exp:
        return "reported (%d, %d), expected %r" % (line, col, exp)
    return None


def parse_lc(s):
    if s == "X":
        return "X"
    a, b = s.split(",")
    return [int(a), int(b)]


class Sub:
    """a context with a scaled budget and its own random streams (reuses the C01 generators)"""

    def __init__(self, ctx, factor):
        self.ctx, self.factor, self.tier = ctx, factor, ctx.tier

    def n(self, quick, thorough):
        return max(1, int(self.ctx.n(quick, thorough) * self.factor))

    def rng(self, *tags):
        return self.ctx.rng("c17", *tags)


# ------------------------------------------------------------------ part 1: the offset map itself
def part_linecol(ctx, out):
    from impl import pos as I
    rng = ctx.rng("c17", "linecol")
    maxlen = 8 if ctx.tier == "quick" else 11
    cases = []          # (text, offsets, judged?)
    for n in range(maxlen + 1):
        for t in itertools.product("a\n", repeat=n):
            text = "".join(t)
            offs = list(range(len(text) + 1))
            rng.shuffle(offs)           # the line list is cached on first use: vary which offset builds it
            cases.append((text, offs + [len(text) + 1, len(text) + 3, -1, -2]))
    exhaustive = len(cases)
    for _ in range(ctx.n(400, 6000)):
        n = rng.randrange(1, 60)
        nlp = rng.choice([0.05, 0.2, 0.5, 0.9])
        text = "".join("\n" if rng.random() < nlp else rng.choice(LETTERS) for _ in range(n))
        offs = list(range(len(text) + 1))
        rng.shuffle(offs)
        cases.append((text, offs[:24] + [0, len(text), len(text) + 2, -1]))
    lines, impl = [], []
    for idx, (text, offs) in enumerate(cases):
        res = I.impl_linecol(text, offs, fresh=(idx % 3 == 0))
        for p, r in zip(offs, res):
            lines.append("linecol %s %d" % (C.enc(text), p))
            impl.append((text, p, r))
    model = C.run_driver_parallel(lines) if ctx.model_ok else [None] * len(lines)
    out.count("linecol.texts", len(cases))
    out.count("linecol.exhaustive_texts", exhaustive)
    for (text, p, r), mo in zip(impl, model):
        out.evaluations += 1
        bad = None
        if 0 <= p <= len(text):
            bad = judge(text, p, parse_lc(r))
            if "\n" in text[:p] and p - text.rfind("\n", 0, p) > 1:
                out.nontrivial.add(("linecol", text, p))
        else:
            out.count("linecol.outside_text_not_judged")
        if bad:
            out.violations.append({"what": "linecol: " + bad, "input": {"op": "linecol", "text": text, "pos": p}})
        elif mo is not None and mo != r:
            out.disagreements.append({"op": "linecol", "text": text, "pos": p, "impl": r, "model": mo})
    if len(out.samples) < 2:
        out.samples.append({"op": "linecol", "text": "a\nbc\n", "pos": 3, "result": I.impl_linecol("a\nbc\n", [3], True)[0]})


# ------------------------------------------------------------------ part 2: entries over explicit spans
def part_spans(ctx, out):
    from impl import pos as I
    maxlen = 4 if ctx.tier == "quick" else 5
    texts = ["".join(t) for n in range(maxlen + 1) for t in itertools.product("a\n", repeat=n)]
    lines, impl = [], []
    for text in texts:
        L = len(text)
        for s in range(L + 1):
            for e in range(s, L + 1):
                for off in range(-2, e - s + 2):
                    r = I.impl_entity(text, s, e, s, e, off)
                    tgt = e if off < 0 else s + off
                    for op, key, line in (("c17.pos", "pos", "c17.pos %s %d %d %d" % (C.enc(text), s, e, off)),
                                          ("c17.vpos", "vpos", "c17.vpos %s %d %d %d" % (C.enc(text), s, e, off)),
                                          ("c17.pos", "jpos", "c17.pos %s %d %d %d" % (C.enc(text), s, e, off))):
                        lines.append(line)
                        impl.append((op + ":" + key, text, {"s": s, "e": e, "off": off}, tgt, r[key], False))
                    if off == 0:
                        lines.append("c17.junk %s %d %d" % (C.enc(text), s, e))
                        impl.append(("c17.junk", text, {"s": s, "e": e}, (s, e), r["jmsg"], False))
        r = I.impl_entity(text, 0, L, None, None, 0)
        lines.append("c17.vpos %s N N 0" % C.enc(text))
        impl.append(("c17.vpos:none", text, {}, None, r["vpos"], False))
    # DTD pairs
    dmax = 5 if ctx.tier == "quick" else 6
    dtexts = ["".join(t) for n in range(1, dmax + 1) for t in itertools.product("a\n", repeat=n)]
    for text in dtexts:
        L = len(text)
        for vs in range(L + 1):
            for ve in sorted({vs, L, (vs + L + 1) // 2}):
                for lp in range(0, 4):
                    for cp in range(0, 4):
                        r = I.impl_dtd_tuple(text, vs, ve, lp, cp)
                        lines.append("c17.dtd %s %d %d %d %d" % (C.enc(text), vs, ve, lp, cp))
                        impl.append(("c17.dtd", text, {"vs": vs, "ve": ve, "lp": lp, "cp": cp}, None, r, False))
    # Fluent
    for text in texts:
        L = len(text)
        for s in range(L + 1):
            for e in range(s, L + 1):
                for ke in sorted({s, min(s + 1, e)}):
                    for vs in sorted({-1, ke, e}):
                        for off in [None, -1, 0, 1, e - s]:
                            ve = e if vs >= 0 else -1
                            r = I.impl_fluent_vpos(text, s, e, ke, vs, ve, off)
                            lines.append("c17.ftl %s %d %d %d %d %d %s" % (C.enc(text), s, e, ke, vs, ve, "N" if off is None else off))
                            if off is None:
                                tgt = vs if vs >= 0 else ke
                            else:
                                tgt = e if off < 0 else s + off
                            impl.append(("c17.ftl", text, {"s": s, "e": e, "ke": ke, "vs": vs, "off": off}, tgt, r, False))
    model = C.run_driver_parallel(lines) if ctx.model_ok else [None] * len(lines)
    for (op, text, args, tgt, r, _), mo in zip(impl, model):
        out.evaluations += 1
        out.count("spans." + op.split(":")[0])
        bad, fid, judged = judge_span_case(op, text, args, tgt, r)
        if judged == "nontrivial":
            out.nontrivial.add((op, text, tuple(sorted((k, str(v)) for k, v in args.items()))))
        elif judged == "not-judged":
            out.count("spans.outside_not_judged")
        if bad:
            out.violations.append({"what": "%s: %s" % (op, bad), "input": dict(args, op=op, text=text, tgt=tgt), "finding": fid})
        elif mo is not None and mo != r:
            out.disagreements.append({"op": op, "text": text, "args": args, "impl": r, "model": mo})


def judge_span_case(op, text, args, tgt, r):
    """oracle for one explicit-span case; returns (message or None, finding id or None, coverage tag)"""
    bad = fid = None
    tag = "judged"
    if op == "c17.junk":
        exp = "%d,%d,%d,%d" % (ref_linecol(text, tgt[0]) + ref_linecol(text, tgt[1]))
        if r != exp:
            bad = "Junk.error_message reports %s, expected %s" % (r, exp)
    elif op == "c17.vpos:none":
        if r != "X":
            bad = "value_position without a value span returned %s instead of failing its assertion" % r
    elif op == "c17.dtd":
        # convention of DTDChecker: 1-based line of the value, 0-based column in that line
        vs, lp, cp = args["vs"], args["lp"], args["cp"]
        vlines = text[vs:args["ve"]].split("\n") if args["ve"] >= vs else [""]
        if 1 <= lp <= len(vlines) and cp <= len(vlines[lp - 1]):
            t = vs + sum(len(x) + 1 for x in vlines[:lp - 1]) + cp
            bad = judge(text, t, parse_lc(r))
            exp = ref_linecol(text, t)
            if bad and lp >= 2 and parse_lc(r) == [exp[0], exp[1] - 1]:
                fid = "C17-dtd-pair-later-line-column"      # exactly: right line, column one too small
            if lp >= 2:
                tag = "nontrivial"
        else:
            tag = "not-judged"
    elif tgt is not None and 0 <= tgt <= len(text):
        bad = judge(text, tgt, parse_lc(r))
        if "\n" in text[:tgt]:
            tag = "nontrivial"
    else:
        tag = "not-judged"
    return bad, fid, tag


def rerun_span_case(i):
    """re-run one explicit-span case on the implementation (for --replay)"""
    from impl import pos as I
    op, text = i["op"], i["text"]
    if op == "c17.dtd":
        r = I.impl_dtd_tuple(text, i["vs"], i["ve"], i["lp"], i["cp"])
    elif op == "c17.ftl":
        r = I.impl_fluent_vpos(text, i["s"], i["e"], i["ke"], i["vs"], i["e"] if i["vs"] >= 0 else -1, i["off"])
    elif op == "c17.vpos:none":
        r = I.impl_entity(text, 0, len(text), None, None, 0)["vpos"]
    elif op == "c17.junk":
        r = I.impl_entity(text, i["s"], i["e"], i["s"], i["e"], 0)["jmsg"]
    else:
        r = I.impl_entity(text, i["s"], i["e"], i["s"], i["e"], i["off"])[op.split(":")[1]]
    tgt = tuple(i["tgt"]) if isinstance(i.get("tgt"), list) else i.get("tgt")
    args = {k: v for k, v in i.items() if k not in ("op", "text", "tgt")}
    return judge_span_case(op, text, args, tgt, r)[0]


# ------------------------------------------------------------------ part 3: every entry of generated files
def part_files(ctx, out):
    sub = Sub(ctx, 0.4)
    for fmt in FORMATS:
        texts, exhaustive = c01.gen_texts(sub, fmt)
        # multi-line material: the C01 alphabets are short on newlines before entities
        rng = ctx.rng("c17", "files", fmt)
        alpha = c01.ALPHA[fmt]
        for _ in range(ctx.n(300, 5000)):
            n = rng.randrange(2, 7)
            texts.append("\n".join("".join(rng.choice(alpha) for _ in range(rng.randrange(0, 5))) for _ in range(n)))
        texts = [t for t in texts if "\r" not in t]
        out.count("files.%s.cases" % fmt, len(texts))
        res = pool.pmap("impl.pos", "impl_file_positions", [[fmt, t] for t in texts], timeout=3.0)
        lines = []
        for t, r in zip(texts, res):
            if fmt == "ftl":
                lines.append("c17.fluent %s %s" % (C.enc(t), r["r"]["body"] if "r" in r else ""))
            else:
                lines.append("c17.file %s %s" % (fmt, C.enc(t)))
        model = C.run_driver_parallel(lines) if ctx.model_ok else [None] * len(lines)
        for t, r, mo in zip(texts, res, model):
            out.evaluations += 1
            if "r" not in r:
                # parsing itself failed: C01's business, not judged here
                out.count("files.%s.parse_failed_not_judged" % fmt)
                continue
            v = r["r"]
            if v["canon"] == "runaway":
                out.count("files.%s.runaway_not_judged" % fmt)
                continue
            bad = None
            nontriv = False
            for rec in v["recs"]:
                for label, tgt, rep in rec["obs"]:
                    if tgt is None:
                        if rep != "AssertionError":
                            bad = "%s of a %s entry at %r returned %r instead of failing its assertion" % (label, rec["k"], rec["span"], rep)
                    elif 0 <= tgt <= len(t):
                        b = judge(t, tgt, rep)
                        if b:
                            bad = "%s of the %s entry at %r (offset %d): %s" % (label, rec["k"], rec["span"], tgt, b)
                        elif rep[0] >= 2 and rep[1] >= 2 and rec["k"] in "EJ":
                            nontriv = True
                    else:
                        out.count("files.%s.offset_outside_text_not_judged" % fmt)
                    if bad:
                        break
                if rec.get("msgval") is False and not bad:
                    bad = "Junk.error_message does not quote the junk text of %r" % (rec["span"],)
                if bad:
                    break
            if nontriv:
                out.nontrivial.add((fmt, v["canon"]))
            if bad:
                out.violations.append({"what": "%s: %s" % (fmt, bad), "input": {"op": "file", "fmt": fmt, "text": t}})
            elif mo is not None and mo != v["canon"]:
                out.disagreements.append({"op": "c17.file", "fmt": fmt, "text": t, "impl": v["canon"], "model": mo})
            if nontriv and out.distribution.get("sampled.file." + fmt, 0) < 1 and " J " in v["canon"]:
                out.count("sampled.file." + fmt)
                out.samples.append({"op": "file", "fmt": fmt, "text": t, "positions": v["canon"]})


# ------------------------------------------------------------------ part 4: positions attached to check / lint messages
VAL = {
    "properties": ["a", " ", "%S", "%1$S", "%2$S", "%d", "%%", "#1", ";", "\\u0041", "\\\n  ", "�", "é", "\\n", "%", "x", "\\"],
    "dtd": ["a", " ", "\n", "&foo;", "&bar;", "&amp;", "<", "<b>", "</b>", "%", "10em", "width: ", "1", ";", "�", "é", "&", "'", "\n\n"],
    "ini": ["a", " ", "�", "%S", "é", "x=y"],
    "inc": ["a", " ", "�", "é", "\t"],
    "ftl": ["a", " ", "{ $x }", "{ -t0 }", "{ m1 }", "\n    ", "\n    .attr = v", "\n    .attr = w", "\n    .other = z",
            "{ $n ->\n        [one] a\n       *[other] b\n    }", "�", "é", "{ \"x\" }", "{", "}", "{ -t0.attr }", "{ m1.attr }"],
}
COMMENT = {
    "properties": lambda rng: "# " + rng.choice(["note", "LOCALIZATION NOTE Localization_and_Plurals", "x\n# y"]) + "\n",
    "dtd": lambda rng: "<!-- " + rng.choice(["note", "x\ny", "LOCALIZATION NOTE"]) + " -->\n",
    "ini": lambda rng: "; " + rng.choice(["note", "x\n; y"]) + "\n",
    "inc": lambda rng: "# " + rng.choice(["note", "x\n# y"]) + "\n",
    "ftl": lambda rng: "# " + rng.choice(["note", "x\n# y"]) + "\n",
}


def gen_value(rng, fmt, lo=0, hi=5):
    v = "".join(rng.choice(VAL[fmt]) for _ in range(rng.randrange(lo, hi)))
    if fmt == "ftl":
        v = v.lstrip(" ") or "a"
    return v


def entity(fmt, key, val):
    if fmt == "properties":
        return "%s%s%s\n" % (key, " = " if len(val) % 2 else "=", val)
    if fmt == "dtd":
        q = '"' if "'" in val or len(val) % 3 else "'"
        sep = "\n  " if len(val) % 5 == 4 else " "
        return "<!ENTITY %s%s%s%s%s>\n" % (key, sep, q, val.replace(q, ""), q)
    if fmt == "ini":
        return "%s=%s\n" % (key, val.replace("\n", " "))
    if fmt == "inc":
        v = val.replace("\n", " ")
        return "#define %s%s\n" % (key, (" " + v) if v else "")
    return "%s = %s\n" % (key, val)


def gen_file(rng, fmt, keys, trouble):
    parts = []
    if fmt == "ini":
        parts.append("[Strings]\n")
    if fmt == "inc":
        parts.append("#filter emptyLines\n\n")
    for k in keys:
        if rng.random() < 0.3:
            parts.append("\n" * rng.randrange(1, 3))
        if rng.random() < 0.4:
            parts.append(COMMENT[fmt](rng))
        parts.append(entity(fmt, k, gen_value(rng, fmt, 1 if fmt in ("ftl", "ini") else 0)))
        if trouble and rng.random() < 0.15:
            parts.append(rng.choice(["??\n", "junk line\n", "<!ENTITY\n", "= x\n", "[[\n"]))
    text = "".join(parts)
    if rng.random() < 0.3:
        text = text.rstrip("\n")
    return text


def gen_pair(rng, fmt):
    n = rng.randrange(1, 4)
    if fmt == "ftl":
        keys = ["-t0", "m1", "m2"][:n]
    else:
        keys = ["k%d" % i for i in range(n)]
    ref = gen_file(rng, fmt, keys, False)
    lk = list(keys)
    if rng.random() < 0.2:
        rng.shuffle(lk)
    l10n = gen_file(rng, fmt, lk, True)
    return ref, l10n


def dtd_value_parses_alone(value):
    """does the value parse inside `<elem>…</elem>` with every entity it references declared (DTDChecker's FIRST
    document)?  If it does, an XML error the checker reports for it comes from its SECOND document, where the whole
    entity text (pre-comment included) sits in the DOCTYPE line."""
    from io import BytesIO
    from xml import sax
    from compare_locales.checks.dtd import DTDChecker
    names = {m.group(1) for m in DTDChecker.eref.finditer(value)} - set(DTDChecker.xmllist)
    decls = "".join('<!ENTITY %s "">' % n for n in sorted(names))
    parser = sax.make_parser()
    parser.setFeature(sax.handler.feature_external_ges, False)
    parser.setContentHandler(sax.handler.ContentHandler())
    try:
        parser.parse(BytesIO(DTDChecker.tmpl % (decls.encode("utf-8"), value.encode("utf-8"))))
    except sax.SAXParseException:
        return False
    return True


def finding_of_check(fmt, chk, ent, text):
    """root-cause predicates of the C17 findings, on the failing check result (not on the input text)"""
    tag, a, b = chk["pos"]
    rep = tuple(chk["reported"])
    vline = ref_linecol(text, ent["vs"][0])[0] if ent["vs"][0] >= 0 else None
    # each finding is recognised by its exact signature, so that any OTHER wrong position stays a fresh violation
    if fmt == "dtd" and tag == "T" and a == 0 and rep == (vline - 1, b):
        return "C17-dtd-pair-line-zero"
    if fmt == "dtd" and tag == "T" and a >= 1 and chk["cat"] == "xmlparse" and chk["tp"] == "error" and ent["vs"][0] >= 0 \
            and rep == ((vline, ref_linecol(text, ent["vs"][0])[1] + b) if a == 1 else (vline + a - 1, b)) \
            and dtd_value_parses_alone(text[ent["vs"][0]:ent["vs"][1]]):
        # the pair was converted as the code documents; it is the pair itself that is in the wrong document's coordinates
        return "C17-dtd-second-document-layout"
    if fmt == "dtd" and tag == "T" and a >= 2 and rep == (vline + a - 1, b):
        return "C17-dtd-pair-later-line-column"
    if tag == "E" and ent.get("pc") and ent["full"] < ent["span"][0] and rep == ref_linecol(text, ent["span"][0] + a):
        return "C17-entitypos-counts-from-precomment"
    return None


def judge_check(text, ent, reported, one_based, target=None):
    """the claim about check messages: start of the entity <= reported <= end of the file (lexicographic);
    lint messages are also 1-based and, where the checker's offset has a defined target offset, identify it"""
    if isinstance(reported, str):
        return "resolving the position raised %s" % reported
    start = ref_linecol(text, ent["span"][0])
    eof = ref_linecol(text, len(text))
    rep = (reported[0], reported[1])
    if rep < start:
        return "reported %r lies before the start %r of its entity" % (rep, start)
    if rep > eof:
        return "reported %r lies beyond the end of the file %r" % (rep, eof)
    if one_based and (rep[0] < 1 or rep[1] < 1):
        return "reported %r is not 1-based" % (rep,)
    if target is not None and 0 <= target <= len(text):
        return judge(text, target, list(rep))
    return None


def lint_target(cls, ent, chk, text):
    """offset a lint message's position must identify, where the checker's convention defines one:
    EntityPos(n) = offset n into the entity text `all`; Fluent int n = offset n from the start of the entry;
    other int n = offset n into the value (judged when the raw value has no escapes before it, so that
    offsets into the unescaped and the raw value coincide)"""
    tag, a, _ = chk["pos"]
    if tag == "E":
        return ent["full"] + a
    if tag == "O" and cls == "fluent":
        return ent["span"][0] + a
    if tag == "O" and 0 <= ent["vs"][0] <= ent["vs"][1] and a >= 0:
        raw = text[ent["vs"][0]:ent["vs"][1]]
        if a == 0 or ("\\" not in raw and "&" not in raw and a <= len(raw)):
            return ent["vs"][0] + a
    return None


def resolve_line(cls, text, ent, chk):
    tag, a, b = chk["pos"]
    return "c17.resolve %s %s %s %d %d %d %d %d %s %d %d" % (
        cls, C.enc(text), ent["kind"], ent["span"][0], ent["span"][1], ent["ks"][1], ent["vs"][0], ent["vs"][1], tag, a, b)


def junk_message(text, span):
    return 'Unparsed content "%s" from line %d column %d to line %d column %d' % (
        (text[span[0]:span[1]],) + ref_linecol(text, span[0]) + ref_linecol(text, span[1]))


def part_checks(ctx, out):
    import shutil
    import tempfile
    base = tempfile.mkdtemp(prefix="verif-c17-run-")     # the real compare/lint read files; removed below whatever happens
    try:
        _part_checks(ctx, out, base)
    finally:
        shutil.rmtree(base, ignore_errors=True)


def _part_checks(ctx, out, base):
    todo = []       # (fmt, text, ent, chk, reported, where)
    for fmt in CHECK_FORMATS:
        rng = ctx.rng("c17", "checks", fmt)
        heavy = fmt in ("properties", "dtd", "ftl")
        pairs = [gen_pair(rng, fmt) for _ in range(ctx.n(500 if heavy else 150, 6000 if heavy else 1500))]
        res = pool.pmap("impl.pos", "impl_compare", [[fmt, r, l, base] for r, l in pairs], timeout=6.0, batch=16)
        for (ref, l10n), r in zip(pairs, res):
            out.evaluations += 1
            if "r" not in r:
                out.count("compare.%s.harness_exc_%s" % (fmt, r.get("exc")))
                continue
            v = r["r"]
            if v["exc"]:
                # compare itself raised (e.g. the DTD checker's IndexError): not a position question
                out.count("compare.%s.raised_not_judged" % fmt)
                continue
            events = list(v["events"])
            for key, o in v["own"].items():
                if any("exc" in c for c in o["checks"]):
                    continue
                for chk in o["checks"]:
                    rx = re.compile(re.escape(chk["msg"]) + r" at line (-?\d+), column (-?\d+) for " + re.escape(o["refkey"]) + r"\Z", re.S)
                    hit = None
                    for i, (cat, data) in enumerate(events):
                        mm = rx.match(data) if cat == chk["tp"] else None
                        if mm:
                            hit = i
                            break
                    if hit is None:
                        out.disagreements.append({"op": "compare-alignment", "fmt": fmt, "ref": ref, "l10n": l10n, "key": key, "check": chk})
                        continue
                    events.pop(hit)
                    todo.append((fmt, l10n, o["ent"], chk, [int(mm.group(1)), int(mm.group(2))], "compare", v["cls"], {"ref": ref}))
            # unparsed content of the l10n file: reported with the positions of its start and end
            junk_events = sorted(d for c, d in events if d.startswith('Unparsed content "'))
            expected = sorted(junk_message(l10n, j["span"]) for j in v["junk"])
            if v["junk"]:
                out.nontrivial.add(("junk-message", fmt, l10n))
            if junk_events != expected:
                out.violations.append({"what": "%s compare: unparsed-content messages %r, expected %r" % (fmt, junk_events, expected),
                                       "input": {"op": "compare", "fmt": fmt, "ref": ref, "l10n": l10n}})
        # lint
        files = []
        for _ in range(ctx.n(300 if heavy else 100, 4000 if heavy else 1000)):
            n = rng.randrange(1, 5)
            keys = (["-t0", "m1", "m2", "m1"] if fmt == "ftl" else ["k0", "k1", "k0", "k2"])[:n]
            rng.shuffle(keys)
            text = gen_file(rng, fmt, keys, True)
            ref = gen_file(rng, fmt, keys, False) if rng.random() < 0.4 else None
            files.append((text, ref))
        res = pool.pmap("impl.pos", "impl_lint", [[fmt, t, r, base] for t, r in files], timeout=6.0, batch=16)
        for (text, ref), r in zip(files, res):
            out.evaluations += 1
            if "r" not in r:
                out.count("lint.%s.harness_exc_%s" % (fmt, r.get("exc")))
                continue
            v = r["r"]
            if v["exc"]:
                out.count("lint.%s.raised_not_judged" % fmt)
                continue
            results = v["results"]
            i = 0
            counts = {}
            for e in v["ents"]:
                counts[e["key"]] = counts.get(e["key"], 0) + 1
            bad = None
            aligned = True
            for e in v["ents"]:
                start = ref_linecol(text, e["span"][0])
                if e["k"] == "J":
                    if i >= len(results):
                        aligned = False
                        break
                    rr = results[i]
                    i += 1
                    if (rr["lineno"], rr["column"]) != start or rr["message"] != junk_message(text, e["span"]):
                        bad = "lint result for unparsed content at %r: line %r column %r %r, expected %r %r" % (
                            e["span"], rr["lineno"], rr["column"], rr["message"], start, junk_message(text, e["span"]))
                    continue
                if counts[e["key"]] > 1:
                    if i >= len(results) or results[i]["message"] != "Duplicate string with ID: %s" % e["key"]:
                        aligned = False
                        break
                    rr = results[i]
                    i += 1
                    out.nontrivial.add(("lint-duplicate", fmt, text))
                    if (rr["lineno"], rr["column"]) != start:
                        bad = "duplicate message for %s: line %r column %r, the entity starts at %r" % (e["key"], rr["lineno"], rr["column"], start)
                if i < len(results) and results[i]["message"] == "Changes to string require a new ID: %s" % e["key"]:
                    rr = results[i]
                    i += 1
                    if (rr["lineno"], rr["column"]) != start:
                        bad = "changed-string message for %s: line %r column %r, the entity starts at %r" % (e["key"], rr["lineno"], rr["column"], start)
                if any("exc" in c for c in e["checks"]):
                    aligned = False
                    break
                for chk in e["checks"]:
                    if i >= len(results) or results[i]["message"] != chk["msg"] or results[i]["level"] != chk["tp"]:
                        aligned = False
                        break
                    rr = results[i]
                    i += 1
                    todo.append((fmt, text, e["ent"], chk, [rr["lineno"], rr["column"]], "lint", v["cls"], {"ref": ref}))
                if not aligned:
                    break
            if aligned and i != len(results):
                aligned = False
            if bad:
                out.violations.append({"what": "%s lint: %s" % (fmt, bad), "input": {"op": "lint", "fmt": fmt, "text": text, "ref": ref}})
            elif not aligned:
                out.disagreements.append({"op": "lint-alignment", "fmt": fmt, "text": text, "ref": ref, "results": results[:6]})
    # judge + correspondence of every resolved check position
    lines = [resolve_line(cls, text, ent, chk) for fmt, text, ent, chk, rep, where, cls, extra in todo]
    model = C.run_driver_parallel(lines) if ctx.model_ok else [None] * len(lines)
    for (fmt, text, ent, chk, rep, where, cls, extra), mo in zip(todo, model):
        out.evaluations += 1
        out.count("checks.%s.%s.%s" % (where, fmt, chk["pos"][0]))
        bad = judge_check(text, ent, rep, one_based=(where == "lint"),
                          target=lint_target(cls, ent, chk, text) if where == "lint" else None)
        canon = "%d,%d" % (rep[0], rep[1])
        if chk["pos"][0] == "T" or chk["pos"][1] > 0:
            out.nontrivial.add((where, fmt, text, chk["msg"], canon))
        if bad:
            fid = finding_of_check(fmt, dict(chk, reported=rep), ent, text)
            out.count("checks.violation.%s" % (fid or "untagged"))
            inp = {"op": where, "fmt": fmt, "text": text, "key_span": ent["span"], "ent": ent, "cls": cls, "check": chk, "reported": rep}
            inp.update(extra)
            out.violations.append({"what": "%s %s: position of %r %s: %s" % (fmt, where, chk["msg"], chk["pos"], bad),
                                   "input": inp, "finding": fid})
        elif mo is not None and mo != canon:
            out.disagreements.append({"op": "c17.resolve", "where": where, "fmt": fmt, "text": text, "check": chk, "ent": ent,
                                      "impl": canon, "model": mo})
        if len(out.samples) < 10 and chk["pos"][0] == "T" and chk["pos"][1] >= 1 and not bad and out.distribution.get("sampled.check", 0) < 2:
            out.count("sampled.check")
            out.samples.append({"op": where, "fmt": fmt, "text": text, "message": chk["msg"], "pos": chk["pos"], "reported": rep})


def classify(v):
    return v.get("finding")


def run(ctx):
    out = Outcome()
    out.rule = ("linecol: every text over {a, newline} up to length 8 (quick) / 11 (thorough) x every offset 0..len (plus offsets outside, "
                "compared with the model only) and seeded random texts over 12 letters incl. other Unicode line breaks; entries over explicit "
                "spans: all texts up to length 4/5 x all spans x offsets (position, value_position, Junk, DTD pairs, Fluent); files: the C01 "
                "generators of six formats (40% of their budget, own seeds) plus multi-line token files, every entry: position(), position(-1), "
                "position(mid), value_position(...) and Junk.error_message; checks: generated ref/l10n pairs and lint files of "
                "properties/dtd/ftl/ini/inc through the real ContentComparer.compare and L10nLinter.lint_file. non-trivial = a judged position "
                "behind at least one newline and not in column 1 (linecol), an entity/junk position with line>=2 and column>=2 (files), a check "
                "position that is a pair or a positive offset; distinct inputs/outcomes counted")
    part_linecol(ctx, out)
    part_spans(ctx, out)
    part_files(ctx, out)
    part_checks(ctx, out)
    # one violation of every kind first (the replay file keeps the first 20)
    kinds, first, rest = set(), [], []
    for v in out.violations:
        k = (v.get("finding"), v["input"].get("op"), v["input"].get("fmt"))
        (rest if k in kinds else first).append(v)
        kinds.add(k)
    out.violations = first + rest
    return out


def replay(payload):
    from impl import pos as I
    res = []
    for v in payload.get("violations", []):
        i = v["input"]
        op = i.get("op")
        o = None
        if op == "linecol":
            r = I.impl_linecol(i["text"], [i["pos"]], True)[0]
            o = judge(i["text"], i["pos"], parse_lc(r))
        elif op == "file":
            r = pool.pmap("impl.pos", "impl_file_positions", [[i["fmt"], i["text"]]], timeout=5.0)[0]
            if "r" in r:
                for rec in r["r"]["recs"]:
                    for label, tgt, rep in rec["obs"]:
                        if tgt is not None and 0 <= tgt <= len(i["text"]):
                            o = o or judge(i["text"], tgt, rep)
        elif op in ("compare", "lint") and "check" in i:
            if op == "compare":
                r = pool.pmap("impl.pos", "impl_compare", [[i["fmt"], i["ref"], i["text"]]], timeout=8.0)[0]
                msgs = [d for _, d in r["r"]["events"]] if "r" in r else []
            else:
                r = pool.pmap("impl.pos", "impl_lint", [[i["fmt"], i["text"], i.get("ref")]], timeout=8.0)[0]
                msgs = ["%s at line %s, column %s" % (x["message"], x["lineno"], x["column"]) for x in r["r"]["results"]] if "r" in r else []
            ent = i.get("ent") or {"span": i["key_span"]}
            needle = "%s at line %d, column %d" % (i["check"]["msg"], i["reported"][0], i["reported"][1])
            if any(m.startswith(needle) for m in msgs):     # the implementation still reports this position
                tgt = lint_target(i.get("cls"), ent, i["check"], i["text"]) if (op == "lint" and "ent" in i) else None
                o = judge_check(i["text"], ent, i["reported"], op == "lint", tgt)
        elif op and op.startswith("c17."):
            o = rerun_span_case(i)
        res.append({"input": i, "oracle": o})
    return {"violates": any(r["oracle"] for r in res), "cases": res}

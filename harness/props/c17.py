"""C17 — Reported line and column numbers point at the right character."""
import itertools
import re

from lib import common as C
from lib import pool
from lib.runner import Outcome

from props import c01

ID = "C17"
LEAN_TARGETS = ["CLModel.Props.C17"]
M = "CLModel.Props.C17"
THEOREMS = [
    (M, "C17.linecol_cursor", "linecol(p) never raises for p >= 0 and equals the text-editor cursor: (1,1) at offset 0, newline -> next line column 1, other character -> next column (all texts, all offsets)"),
    (M, "C17.linecol_spec", "for EVERY text and EVERY offset 0 <= o <= len (o = len included, with or without final newline): line = 1 + number of '\\n' among the first o characters, column = 1 + o - (index just after the last '\\n' before o) [= text.rfind('\\n', 0, o) + 1, written as a function nlEndBefore], and that index is the line start"),
    (M, "C17.linecol_spec_at_end", "o = len(text): line = 1 + number of newlines of the text, column = 1 + length of what follows the last newline"),
    (M, "C17.linecol_no_final_newline", "a text not ending in '\\n': the end of the text is on the LAST line (number of lines = 1 + newlines) in a column >= 2 (a splitlines(True)-style table has no entry for it)"),
    (M, "C17.linecol_after_final_newline", "a text ending in '\\n': the end of the text is column 1 of the line after it"),
    (M, "C17.linecol_only_newline_counts", "only U+000A counts: a text without '\\n' is one line for linecol, whatever FF / VT / CR / U+0085 / U+2028 / U+2029 / FS..RS it contains (the regex compiled inside linecol is regenerated and proved to be the single character)"),
    (M, "C17.linecol_in_text", "0 <= o <= len: 1 <= line <= number of lines, 1 <= column <= length of that line + 1, and (line, column) denotes offset o again (the character at the reported place is the character at o)"),
    (M, "C17.linecol_lineStart_spec", "for every offset (also beyond the text): line = 1 + newlines before p, column = p - b + 1 for the line start b (IsLineStart)"),
    (M, "C17.linecol_cache_transparent", "Parser.Context caches the table of line ends on first use: any sequence of linecol calls on ONE context (whichever call builds the table) returns what a fresh computation returns for each position"),
    (M, "C17.linecol_lineStart_unique", "that line start is unique, so linecol_spec determines the pair"),
    (M, "C17.linecol_zero_succ", "step rule: offset 0 is (1,1); after a newline next line column 1; else one column further"),
    (M, "C17.linecol_inverse", "the offset is recovered from (line, column): start of that line (one past the (line-1)-th newline) + column - 1"),
    (M, "C17.linecol_injective", "two offsets never share a (line, column)"),
    (M, "C17.linecol_one_based", "line >= 1 and column >= 1 for every offset >= 0"),
    (M, "C17.linecol_monotone", "strictly increasing lexicographically in the offset"),
    (M, "C17.linecol_negative", "excluded point: a negative offset is reported as (1, offset+1), column <= 0"),
    (M, "C17.position_spec", "Entry.position / Junk.position: cursor of span[0]+offset, negative offset = end of span"),
    (M, "C17.value_position_spec", "Entry.value_position: cursor of val_span[0]+offset, negative offset = end of value"),
    (M, "C17.position_identifies", "the pair reported for an offset inside an entry identifies exactly that offset"),
    (M, "C17.junk_message_positions", "Junk.error_message numbers = cursor of the span start, then of the span end"),
    (M, "C17.fluent_value_position", "Fluent: value_position(offset) = position(offset), offsets count from the entry start"),
    (M, "C17.fluent_value_position_default", "Fluent value_position(): start of the value (value inside the entry)"),
    (M, "C17.fluent_value_position_novalue", "Fluent value_position() without a value: end of the id"),
    (M, "C17.fluent_value_position_default_excluded", "excluded point: a value starting before its entry would be reported at the entry's end"),
    (M, "C17.dtd_tuple_position_partial", "DTD (1, c) inside the value's first line = cursor of the c-th value character"),
    (M, "C17.dtd_tuple_later_line_off_by_one", "DTD (l>=2, c): right line, column one too small (defect, proved from the code's arithmetic)"),
    (M, "C17.dtd_tuple_line_zero", "DTD (0, c): reported on the line before the value's line with column c (defect: DTDChecker's (0,0))"),
    (M, "C17.check_pos_in_range_entity", "EntityPos(n) with span[0]+n <= len(text): start of entity <= reported <= end of file"),
    (M, "C17.check_pos_in_range_value", "int offset n into the value with val_span[0]+n <= len(text): same range"),
    (M, "C17.check_pos_in_range_fluent", "Fluent int offset n with span[0]+n <= len(text): same range"),
    (M, "C17.base_check_positions", "Checker.check (base.py): every EntityPos it yields is the offset of a U+FFFD inside l10nEnt.all"),
    (M, "C17.properties_check_positions", "PropertiesChecker.check, all entity pairs, unconditional: every position is an EntityPos at a U+FFFD of all, or int 0, or (escape) the offset of a backslash in raw_val, or (printf) the offset of a % in the unescaped val"),
    (M, "C17.properties_check_pos_bound", "... so EntityPos < len(all) and int <= len(raw_val): the offsets stay inside what compare/lint add them to"),
    (M, "C17.properties_val_not_longer", "PropertiesEntity.val is never longer than raw_val, and equal to it when raw_val has no backslash (offsets into val are offsets into raw_val)"),
    (M, "C17.dtd_check_positions", "DTDChecker.check, whatever expat answers: every position is an EntityPos at a U+FFFD, the pair (0,0) of the warnings, the pair errorPos computes from an expat (line, column), int 0 (number/CSS) or an Android content offset"),
    (M, "C17.dtd_expat_mapping", "how the checker maps an expat position back: lnr = line - 1; line 2 -> (1, col - 6); line 2+j -> (1+j, col) with expat's 0-based column unchanged; line 1 -> (0, col - 16)"),
    (M, "C17.dtd_expat_offset_position", "the expat contract composed with errorPos and value_position: if expat reports the character at value offset q as (2 + newlines before q, column in that line [+6 on the <elem> line]), the code reports exactly the file position of val_span[0]+q on the first value line, and the right line with a column one too small on later lines"),
    (M, "C17.dtd_pair_in_range_partial", "under the expat contract (pair (lp >= 1, cp) denotes a place of the value) DTDEntity.value_position((lp, cp)) lies between the start of the entity and the end of the file"),
    (M, "C17.fluent_check_positions", "FluentChecker: after the sort every position is 0 or (span start of a recorded AST node) - entry.span.start"),
    (M, "C17.fluent_check_pos_in_range", "under the fluent.syntax contract entry.start <= node.start <= entry.end every FluentChecker position resolves inside [start of entity, end of file]"),
    (M, "C17.check_pos_target", "ini/inc/po/properties, every text, every entry of its parse, every checker result: the reported pair is the cursor of a U+FFFD inside the entry / of an offset inside the value span (value start, a backslash, or a % when raw_val has no backslash) / or the known pre-comment shift"),
    (M, "C17.target_in_text", "a Target is inside the text (1 <= line <= number of lines, 1 <= column <= line length + 1, denotes an offset of the entry) unless it is the known pre-comment shift"),
    (M, "C17.check_pos_in_range", "check_pos_in_range for compare and lint WITHOUT the abstract hypothesis: start of entity <= reported <= end of file for every checker result of an entry without pre-comment and for every int (value) position"),
    (M, "C17.lint_positions_end_to_end", "L10nLinter.lint_file (composed model), all texts of ini/inc/po/properties: every result belongs to an entry of the parse and sits at the junk start (message: text, start pair, END pair), at the start of THIS occurrence (duplicate / changed ID), or at a Target of a checker finding"),
    (M, "C17.lint_positions_in_text", "... hence 1 <= line <= number of lines, 1 <= column <= line length + 1, pair denotes an offset <= len -- except exactly the known finding shape (U+FFFD warning of an entry with pre-comment)"),
    (M, "C17.compare_positions_end_to_end", "ContentComparer.compare + toJSON (composed model), any observers/filters, with/without merge: every error/warning detail is 'k occurs n times', 'Parser error in en-US', Junk.error_message() with the pairs of START and END of a junk of the localized file, or '<msg> at line l, column c for <key>' with (l, c) a Target of a localized entry"),
    (M, "C17.junk_text_positions", "both pairs of a junk message are inside the text, denote span[0] and span[1], start <= end"),
    (M, "C17.lint_duplicate_own_position", "every occurrence of a duplicated key gets its 'Duplicate string with ID' error at the cursor of ITS OWN span[0]; occurrences at different offsets are reported at different pairs"),
    (M, "C17.position_negative_offsets_agree", "every negative offset means the end of the span: position(-n) = position(-1) (Junk.error_message's position(-1) -> position(-2) is an equivalent mutant)"),
    (M, "C17.android_positions_are_zero_offset", "Android objects carry no spans: position(off) = value_position(off) = (0, off) -- not text positions, outside the property"),
]
PARTIAL = [
    "dtd_tuple_position_partial / dtd_pair_in_range_partial: only pairs on the first line of the value are reported at the right character; for later lines the pair is in range but one column short, line 0 falls before the entity (theorems dtd_tuple_later_line_off_by_one / dtd_tuple_line_zero state what the code does); which pair expat reports for an XML error is external: the range theorem carries the contract 'the pair denotes a place of the value', dtd_check_positions + dtd_expat_mapping say how the checker derives the pair",
    "check_pos_in_range (composed, no abstract hypothesis) covers ini/inc/po (base Checker) and properties (PropertiesChecker); it needs 'no attached pre-comment' for EntityPos results, without which it is false for the code (finding C17-entitypos-counts-from-precomment, kernel-checked witness through the whole lint pipeline); DTD and Fluent keep an external contract (expat pair inside the value, AST spans inside the entry)",
    "check_pos_in_range_entity/_value/_fluent (round 1) stay as the generic conditional lemmas the composed theorems instantiate",
    "fluent_value_position_default needs the value to start inside the entry (contract of fluent.syntax, monitored)",
    "compare_positions_end_to_end / lint_positions_end_to_end are safety statements about a run that returned (that it returns is C05's compare_never_raises_partial / lint_never_raises); the '%' claim of a printf position holds when raw_val has no backslash (offsets into val and raw_val coincide)",
]
TRUSTED = [
    "hand-written model CLModel/Parser/Position.lean of linecol / position / value_position / error_message / DTD and Fluent overrides / check-position dispatch (tied by the linecol, c17.* correspondences)",
    "bisect.bisect (C library) modelled by its contract on sorted lists (number of elements <= x); the list of line ends is proved strictly increasing",
    "the regex compiled inside linecol is regenerated from /repo by the translator (parser_base_Parser_Context_linecol_nl) and proved to be the single character newline",
    "parser models CLModel/Parser/{Base,Formats,Fluent}.lean (C01) supply the entries of the file-level correspondence",
    "composed pipeline model CLModel/Compare/Pipeline.lean (C05: parse + checkers + compare loop + observers + lint) and the checker models Checks/{Base,Properties,Dtd,Fluent}.lean (C05-C08): the end-to-end theorems are about them; tied to the real compare/lint by the c05.compare / c05.lint correspondence, which this check also runs on its own position-centred pairs",
    "CLModel/Parser/PositionCache.lean: the Context object with its cached _lines (tied by c17.lcseq: one shared real context per offset sequence)",
]
ASSUMPTIONS = [
    "texts are newline-normalised (no carriage returns), as the property states; other Unicode line breaks are ordinary characters for linecol",
    "Android entities carry no spans (anchors exclude android.py): every position is (0, offset) (theorem android_positions_are_zero_offset, stream android): outside the claims of C17",
    "offsets judged by the oracle lie in [0, len(text)]; a (-1,-1) span of an unmatched group (value_position of `#define k`) is reported informationally",
]
LEVEL_TEXT = ("Lean 4 theorems over an executable transliteration of Parser.Context.linecol (with its cached line table) and the position "
              "methods: for ALL texts and ALL offsets 0..len the reported pair is 1 + newlines before / 1 + distance from the last newline "
              "(explicit formula, only U+000A counts), lies inside the text and denotes the offset again; entry/value/junk/Fluent/DTD "
              "positions reduce to it. Composed with the checker models (base, properties unconditionally; DTD and Fluent under the "
              "external contract of expat / fluent.syntax) and with the composed compare/lint pipeline model of C05: every lint result "
              "and every error/warning detail of a comparison of ini/inc/po/properties files is explained (junk: start and end pair; "
              "duplicate/changed ID: start of that occurrence; checker finding: U+FFFD / value offset / the known pre-comment shift). "
              "Models tied to the Python by exhaustive {letter,newline} texts x every offset, shared-context offset sequences, all entries "
              "of generated files of six formats, the positions real compare/lint runs attach to checker results, and the whole "
              "report of the real compare/lint on position-centred pairs; an independent oracle (count/rfind/split) checks the property "
              "on the implementation")
LEVEL_NOTE = ("trusted: Lean kernel, hand-written models validated by correspondence, bisect by contract; DTD pairs are right only on the "
              "first value line (proved, with the defects for other lines as theorems; which pair expat reports is external); the composed "
              "range theorem needs 'no attached pre-comment' for EntityPos results, where the code violates the claim (finding, "
              "kernel-checked witness); dtd/ftl/android pipelines are decided by the execution oracle")
TECHNIQUE = "Lean 4 proof (linecol = cursor, inverse, monotone) + exhaustive/differential correspondence + independent oracle on the implementation"

FORMATS = ["properties", "dtd", "ini", "inc", "po", "ftl"]
CHECK_FORMATS = ["properties", "dtd", "ftl", "ini", "inc", "po"]
PIPE_FORMATS = ["properties", "ini", "inc", "po"]      # whole pipeline modelled (C05): c05.compare / c05.lint
LETTERS = ["a", "é", "\x0b", "\x85", " ", "\U0001F600", " ", "\t", "\x0c", "\x1c", "=", "#"]


# ------------------------------------------------------------------ independent reference
def ref_linecol(text, p):
    """1-based line and column of offset p (0 <= p <= len): count the newlines before p, measure from the last one"""
    return text.count("\n", 0, p) + 1, p - (text.rfind("\n", 0, p) + 1) + 1


def ref_offset(text, line, col):
    """the offset a (line, column) pair denotes, by splitting the text into lines; None if there is no such place"""
    lines = text.split("\n")
    if not (1 <= line <= len(lines)) or col < 1 or col - 1 > len(lines[line - 1]):
        return None
    return sum(len(l) + 1 for l in lines[:line - 1]) + col - 1


def judge(text, target, reported):
    """None or a message: `reported` must be the pair of offset `target` and identify exactly that character"""
    if isinstance(reported, str):
        return "raised %s" % reported
    line, col = reported
    if line < 1 or col < 1:
        return "reported (%d, %d) is not 1-based" % (line, col)
    exp = ref_linecol(text, target)
    back = ref_offset(text, line, col)
    if back != target:
        return "reported (%d, %d) denotes offset %r, not offset %d (expected %r)" % (line, col, back, target, exp)
    if (line, col) != exp:
        return "reported (%d, %d), expected %r" % (line, col, exp)
    return None


def parse_lc(s):
    if s == "X":
        return "X"
    a, b = s.split(",")
    return [int(a), int(b)]


class Sub:
    """a context with a scaled budget and its own random streams (reuses the C01 generators)"""

    def __init__(self, ctx, factor):
        self.ctx, self.factor, self.tier = ctx, factor, ctx.tier

    def n(self, quick, thorough):
        return max(1, int(self.ctx.n(quick, thorough) * self.factor))

    def rng(self, *tags):
        return self.ctx.rng("c17", *tags)


# ------------------------------------------------------------------ part 1: the offset map itself
def part_linecol(ctx, out):
    from impl import pos as I
    rng = ctx.rng("c17", "linecol")
    maxlen = 8 if ctx.tier == "quick" else 11
    cases = []          # (text, offsets, judged?)
    for n in range(maxlen + 1):
        for t in itertools.product("a\n", repeat=n):
            text = "".join(t)
            offs = list(range(len(text) + 1))
            rng.shuffle(offs)           # the line list is cached on first use: vary which offset builds it
            cases.append((text, offs + [len(text) + 1, len(text) + 3, -1, -2]))
    exhaustive = len(cases)
    for _ in range(ctx.n(400, 6000)):
        n = rng.randrange(1, 60)
        nlp = rng.choice([0.05, 0.2, 0.5, 0.9])
        text = "".join("\n" if rng.random() < nlp else rng.choice(LETTERS) for _ in range(n))
        offs = list(range(len(text) + 1))
        rng.shuffle(offs)
        cases.append((text, offs[:24] + [0, len(text), len(text) + 2, -1]))
    lines, impl = [], []
    for idx, (text, offs) in enumerate(cases):
        res = I.impl_linecol(text, offs, fresh=(idx % 3 == 0))
        for p, r in zip(offs, res):
            lines.append("linecol %s %d" % (C.enc(text), p))
            impl.append((text, p, r))
    model = C.run_driver_parallel(lines) if ctx.model_ok else [None] * len(lines)
    out.count("linecol.texts", len(cases))
    out.count("linecol.exhaustive_texts", exhaustive)
    for (text, p, r), mo in zip(impl, model):
        out.evaluations += 1
        bad = None
        if 0 <= p <= len(text):
            bad = judge(text, p, parse_lc(r))
            if "\n" in text[:p] and p - text.rfind("\n", 0, p) > 1:
                out.nontrivial.add(("linecol", text, p))
        else:
            out.count("linecol.outside_text_not_judged")
        if bad:
            out.violations.append({"what": "linecol: " + bad, "input": {"op": "linecol", "text": text, "pos": p}})
        elif mo is not None and mo != r:
            out.disagreements.append({"op": "linecol", "text": text, "pos": p, "impl": r, "model": mo})
    if len(out.samples) < 2:
        out.samples.append({"op": "linecol", "text": "a\nbc\n", "pos": 3, "result": I.impl_linecol("a\nbc\n", [3], True)[0]})
    # the cached line table: whole offset sequences on ONE context object (the first call builds the table),
    # model = the Context object with its `_lines` attribute (c17.lcseq); oracle: every in-text offset is judged
    seqs = []
    for idx, (text, offs) in enumerate(cases):
        if idx % 4 == 1 or idx >= exhaustive:
            o2 = list(offs)
            rng.shuffle(o2)
            seqs.append((text, o2[:12]))
    # texts that end without a newline / with other line-break characters, last offset first
    for t in ["a", "a\nb", "\n\nb", "a\x0cb", "a\u2028b\nc", "a\x85\nb", "\x1c\x1d\x1e", "a\x0bb\n", "ab\n\ncd"]:
        seqs.append((t, [len(t)] + list(range(len(t)))))
        seqs.append((t, list(range(len(t) + 1))))
    slines = ["c17.lcseq %s %s" % (C.enc(t), " ".join(str(o) for o in offs)) for t, offs in seqs]
    smodel = C.run_driver_parallel(slines) if ctx.model_ok else [None] * len(slines)
    for (text, offs), mo in zip(seqs, smodel):
        out.evaluations += 1
        out.count("linecol.sequences")
        r = I.impl_linecol_seq(text, offs)
        bad = None
        for p, one in zip(offs, r.split(" ")):
            if 0 <= p <= len(text):
                bad = bad or judge(text, p, parse_lc(one))
        if len(offs) > 1 and "\n" in text:
            out.nontrivial.add(("lcseq", text, tuple(offs)))
        if bad:
            out.violations.append({"what": "linecol on one shared context: " + bad, "input": {"op": "lcseq", "text": text, "offsets": offs}})
        elif mo is not None and mo != r:
            out.disagreements.append({"op": "c17.lcseq", "text": text, "offsets": offs, "impl": r, "model": mo})


# ------------------------------------------------------------------ part 2: entries over explicit spans
def part_spans(ctx, out):
    from impl import pos as I
    maxlen = 4 if ctx.tier == "quick" else 5
    texts = ["".join(t) for n in range(maxlen + 1) for t in itertools.product("a\n", repeat=n)]
    lines, impl = [], []
    for text in texts:
        L = len(text)
        for s in range(L + 1):
            for e in range(s, L + 1):
                for off in range(-2, e - s + 2):
                    r = I.impl_entity(text, s, e, s, e, off)
                    tgt = e if off < 0 else s + off
                    for op, key, line in (("c17.pos", "pos", "c17.pos %s %d %d %d" % (C.enc(text), s, e, off)),
                                          ("c17.vpos", "vpos", "c17.vpos %s %d %d %d" % (C.enc(text), s, e, off)),
                                          ("c17.pos", "jpos", "c17.pos %s %d %d %d" % (C.enc(text), s, e, off))):
                        lines.append(line)
                        impl.append((op + ":" + key, text, {"s": s, "e": e, "off": off}, tgt, r[key], False))
                    if off == 0:
                        lines.append("c17.junk %s %d %d" % (C.enc(text), s, e))
                        impl.append(("c17.junk", text, {"s": s, "e": e}, (s, e), r["jmsg"], False))
                        lines.append("c17.junkmsg %s %d %d" % (C.enc(text), s, e))
                        impl.append(("c17.junkmsg", text, {"s": s, "e": e}, (s, e), I.impl_junk_message(text, s, e), False))
        r = I.impl_entity(text, 0, L, None, None, 0)
        lines.append("c17.vpos %s N N 0" % C.enc(text))
        impl.append(("c17.vpos:none", text, {}, None, r["vpos"], False))
    # DTD pairs
    dmax = 5 if ctx.tier == "quick" else 6
    dtexts = ["".join(t) for n in range(1, dmax + 1) for t in itertools.product("a\n", repeat=n)]
    for text in dtexts:
        L = len(text)
        for vs in range(L + 1):
            for ve in sorted({vs, L, (vs + L + 1) // 2}):
                for lp in range(0, 4):
                    for cp in range(0, 4):
                        r = I.impl_dtd_tuple(text, vs, ve, lp, cp)
                        lines.append("c17.dtd %s %d %d %d %d" % (C.enc(text), vs, ve, lp, cp))
                        impl.append(("c17.dtd", text, {"vs": vs, "ve": ve, "lp": lp, "cp": cp}, None, r, False))
    # Fluent
    for text in texts:
        L = len(text)
        for s in range(L + 1):
            for e in range(s, L + 1):
                for ke in sorted({s, min(s + 1, e)}):
                    for vs in sorted({-1, ke, e}):
                        for off in [None, -1, 0, 1, e - s]:
                            ve = e if vs >= 0 else -1
                            r = I.impl_fluent_vpos(text, s, e, ke, vs, ve, off)
                            lines.append("c17.ftl %s %d %d %d %d %d %s" % (C.enc(text), s, e, ke, vs, ve, "N" if off is None else off))
                            if off is None:
                                tgt = vs if vs >= 0 else ke
                            else:
                                tgt = e if off < 0 else s + off
                            impl.append(("c17.ftl", text, {"s": s, "e": e, "ke": ke, "vs": vs, "off": off}, tgt, r, False))
    model = C.run_driver_parallel(lines) if ctx.model_ok else [None] * len(lines)
    for (op, text, args, tgt, r, _), mo in zip(impl, model):
        out.evaluations += 1
        out.count("spans." + op.split(":")[0])
        bad, fid, judged = judge_span_case(op, text, args, tgt, r)
        if judged == "nontrivial":
            out.nontrivial.add((op, text, tuple(sorted((k, str(v)) for k, v in args.items()))))
        elif judged == "not-judged":
            out.count("spans.outside_not_judged")
        if bad:
            out.violations.append({"what": "%s: %s" % (op, bad), "input": dict(args, op=op, text=text, tgt=tgt), "finding": fid})
        elif mo is not None and mo != r:
            out.disagreements.append({"op": op, "text": text, "args": args, "impl": r, "model": mo})


def judge_span_case(op, text, args, tgt, r):
    """oracle for one explicit-span case; returns (message or None, finding id or None, coverage tag)"""
    bad = fid = None
    tag = "judged"
    if op == "c17.junk":
        exp = "%d,%d,%d,%d" % (ref_linecol(text, tgt[0]) + ref_linecol(text, tgt[1]))
        if r != exp:
            bad = "Junk.error_message reports %s, expected %s" % (r, exp)
    elif op == "c17.junkmsg":
        # the whole message: the junk text, then the pair of its START, then the pair of its END
        exp = C.enc(junk_message(text, list(tgt)))
        if r != exp:
            bad = "Junk.error_message() is %s, expected %s" % (r, exp)
        if "\n" in text[:tgt[1]]:
            tag = "nontrivial"
    elif op == "c17.vpos:none":
        if r != "X":
            bad = "value_position without a value span returned %s instead of failing its assertion" % r
    elif op == "c17.dtd":
        # convention of DTDChecker: 1-based line of the value, 0-based column in that line
        vs, lp, cp = args["vs"], args["lp"], args["cp"]
        vlines = text[vs:args["ve"]].split("\n") if args["ve"] >= vs else [""]
        if 1 <= lp <= len(vlines) and cp <= len(vlines[lp - 1]):
            t = vs + sum(len(x) + 1 for x in vlines[:lp - 1]) + cp
            bad = judge(text, t, parse_lc(r))
            exp = ref_linecol(text, t)
            if bad and lp >= 2 and parse_lc(r) == [exp[0], exp[1] - 1]:
                fid = "C17-dtd-pair-later-line-column"      # exactly: right line, column one too small
            if lp >= 2:
                tag = "nontrivial"
        else:
            tag = "not-judged"
    elif tgt is not None and 0 <= tgt <= len(text):
        bad = judge(text, tgt, parse_lc(r))
        if "\n" in text[:tgt]:
            tag = "nontrivial"
    else:
        tag = "not-judged"
    return bad, fid, tag


def rerun_span_case(i):
    """re-run one explicit-span case on the implementation (for --replay)"""
    from impl import pos as I
    op, text = i["op"], i["text"]
    if op == "c17.dtd":
        r = I.impl_dtd_tuple(text, i["vs"], i["ve"], i["lp"], i["cp"])
    elif op == "c17.ftl":
        r = I.impl_fluent_vpos(text, i["s"], i["e"], i["ke"], i["vs"], i["e"] if i["vs"] >= 0 else -1, i["off"])
    elif op == "c17.vpos:none":
        r = I.impl_entity(text, 0, len(text), None, None, 0)["vpos"]
    elif op == "c17.junk":
        r = I.impl_entity(text, i["s"], i["e"], i["s"], i["e"], 0)["jmsg"]
    elif op == "c17.junkmsg":
        r = I.impl_junk_message(text, i["s"], i["e"])
    else:
        r = I.impl_entity(text, i["s"], i["e"], i["s"], i["e"], i["off"])[op.split(":")[1]]
    tgt = tuple(i["tgt"]) if isinstance(i.get("tgt"), list) else i.get("tgt")
    args = {k: v for k, v in i.items() if k not in ("op", "text", "tgt")}
    return judge_span_case(op, text, args, tgt, r)[0]


# ------------------------------------------------------------------ part 3: every entry of generated files
def part_files(ctx, out):
    sub = Sub(ctx, 0.4)
    for fmt in FORMATS:
        texts, exhaustive = c01.gen_texts(sub, fmt)
        # multi-line material: the C01 alphabets are short on newlines before entities
        rng = ctx.rng("c17", "files", fmt)
        alpha = c01.ALPHA[fmt]
        for _ in range(ctx.n(300, 5000)):
            n = rng.randrange(2, 7)
            texts.append("\n".join("".join(rng.choice(alpha) for _ in range(rng.randrange(0, 5))) for _ in range(n)))
        texts.extend(DIRECTED.get(fmt, []))
        for _ in range(ctx.n(60, 600)):
            # directed material with random lines before it, so that positions are behind newlines
            if DIRECTED.get(fmt):
                pre = "\n".join("".join(rng.choice(alpha) for _ in range(rng.randrange(0, 3))) for _ in range(rng.randrange(0, 3)))
                texts.append(pre + ("\n" if pre else "") + rng.choice(DIRECTED[fmt]) + rng.choice(["", "\n", rng.choice(alpha)]))
        texts = [t for t in texts if "\r" not in t]
        out.count("files.%s.cases" % fmt, len(texts))
        res = pool.pmap("impl.pos", "impl_file_positions", [[fmt, t] for t in texts], timeout=3.0)
        lines = []
        for t, r in zip(texts, res):
            if fmt == "ftl":
                lines.append("c17.fluent %s %s" % (C.enc(t), r["r"]["body"] if "r" in r else ""))
            else:
                lines.append("c17.file %s %s" % (fmt, C.enc(t)))
        model = C.run_driver_parallel(lines) if ctx.model_ok else [None] * len(lines)
        for t, r, mo in zip(texts, res, model):
            out.evaluations += 1
            if "r" not in r:
                # parsing itself failed: C01's business, not judged here
                out.count("files.%s.parse_failed_not_judged" % fmt)
                continue
            v = r["r"]
            if v["canon"] == "runaway":
                out.count("files.%s.runaway_not_judged" % fmt)
                continue
            bad = None
            nontriv = False
            for rec in v["recs"]:
                for label, tgt, rep in rec["obs"]:
                    if tgt is None:
                        if rep != "AssertionError":
                            bad = "%s of a %s entry at %r returned %r instead of failing its assertion" % (label, rec["k"], rec["span"], rep)
                    elif 0 <= tgt <= len(t):
                        b = judge(t, tgt, rep)
                        if b:
                            bad = "%s of the %s entry at %r (offset %d): %s" % (label, rec["k"], rec["span"], tgt, b)
                        elif rep[0] >= 2 and rep[1] >= 2 and rec["k"] in "EJ":
                            nontriv = True
                    else:
                        out.count("files.%s.offset_outside_text_not_judged" % fmt)
                    if bad:
                        break
                if rec.get("msgval") is False and not bad:
                    bad = "Junk.error_message does not quote the junk text of %r" % (rec["span"],)
                if rec.get("raw_none") is False and not bad:
                    bad = "raw_val of the comment at %r (no value span) is not None" % (rec["span"],)
                if bad:
                    break
            if nontriv:
                out.nontrivial.add((fmt, v["canon"]))
            if bad:
                out.violations.append({"what": "%s: %s" % (fmt, bad), "input": {"op": "file", "fmt": fmt, "text": t}})
            elif mo is not None and mo != v["canon"]:
                out.disagreements.append({"op": "c17.file", "fmt": fmt, "text": t, "impl": v["canon"], "model": mo})
            if nontriv and out.distribution.get("sampled.file." + fmt, 0) < 1 and " J " in v["canon"]:
                out.count("sampled.file." + fmt)
                out.samples.append({"op": "file", "fmt": fmt, "text": t, "positions": v["canon"]})


    part_android(ctx, out)


DIRECTED = {
    # parameter entities (DTDParser.getNext falls back to rePE when the base parser says Junk)
    "dtd": ['<!ENTITY % brandDTD SYSTEM "chrome://branding/locale/brand.dtd">\n%brandDTD;\n',
            '<!ENTITY % a SYSTEM \'x\'>%a;', '<!ENTITY k "v">\n<!ENTITY % b SYSTEM "u">\n  %b; <!-- c -->\n<!ENTITY l "w">',
            '<!ENTITY % a SYSTEM "x">\n%b', '\ufeff<!ENTITY % a SYSTEM "x"> %a;\n<!ENTITY k "v">',
            '<!-- c -->\n<!ENTITY % a SYSTEM "x">%a;\n'],
    # reKey matches but createEntity raises BadEntity (getNext falls through to Junk)
    "po": ['msgid "a"\n', 'msgid "a"\nmsgstr\n', 'msgid "a"\n\nmsgid "b"\nmsgstr "c"\n', '# c\nmsgid "a"\nx\n',
           'msgctxt "c"\nmsgid "a"\nmsgstr "b"\n\nmsgid\n', 'msgid "a"\nmsgstr "b"\n\nmsgid "a"\nmsgstr "c"\n'],
    "inc": ["#define k\n", "#define k  \n#define l v\n", "\n#define k v\n"],
}

ANDROID = [
    '<?xml version="1.0" encoding="utf-8"?>\n<resources>\n  <!-- c -->\n  <string name="a">v</string>\n  <string name="b">w\nx</string>\n</resources>\n',
    '<resources><string name="a">v</string></resources>', '<resources><string', 'junk', '', '<resources>\n<string name="a">%</string>\n<x/>\n</resources>',
]


def part_android(ctx, out):
    """Android objects have no spans: every position is (0, offset).  Not judged as text positions (android.py is not
    an anchor of C17); tied to the model (Lint.position / valuePosition in `node` mode) and counted."""
    from impl import pos as I
    lines = ["c17.node %d" % o for o in (-1, 0, 3)]
    model = C.run_driver_parallel(lines) if ctx.model_ok else [None] * 3
    exp = dict(zip((-1, 0, 3), model))
    for text in ANDROID:
        out.evaluations += 1
        try:
            recs = I.impl_android_positions(text)
        except Exception as e:
            out.count("android.parse_raised_%s" % type(e).__name__)
            continue
        for rec in recs:
            for off, p, v in rec["pos"]:
                out.count("android.positions_not_text_positions")
                mo = exp.get(off)
                if mo is not None and v != "none" and "%s %s" % (p, v) != mo:
                    out.disagreements.append({"op": "c17.node", "cls": rec["cls"], "off": off, "impl": "%s %s" % (p, v), "model": mo})
                if p != "0,%d" % off:
                    # the documented behaviour changed: report it through the correspondence channel
                    out.disagreements.append({"op": "android-position", "cls": rec["cls"], "off": off, "impl": p, "model": "0,%d" % off})
            if rec["msg"] is not None:
                out.count("android.junk_message_%s" % rec["msg"])
    for fmt in FORMATS:
        out.evaluations += 1
        r = I.impl_noctx(fmt)
        if r != [0, 0]:
            out.violations.append({"what": "%s: walk() without a context yields %r entries" % (fmt, r), "input": {"op": "noctx", "fmt": fmt}})


# ------------------------------------------------------------------ part 4: positions attached to check / lint messages
VAL = {
    "properties": ["a", " ", "%S", "%1$S", "%2$S", "%d", "%%", "#1", ";", "\\u0041", "\\\n  ", "�", "é", "\\n", "%", "x", "\\"],
    "dtd": ["a", " ", "\n", "&foo;", "&bar;", "&amp;", "<", "<b>", "</b>", "%", "10em", "width: ", "1", ";", "�", "é", "&", "'", "\n\n"],
    "ini": ["a", " ", "�", "%S", "é", "x=y"],
    "inc": ["a", " ", "�", "é", "\t"],
    "po": ["a", " ", "�", "é", "\\n", "\\t", "%s", "x y"],
    "ftl": ["a", " ", "{ $x }", "{ -t0 }", "{ m1 }", "\n    ", "\n    .attr = v", "\n    .attr = w", "\n    .other = z",
            "{ $n ->\n        [one] a\n       *[other] b\n    }", "�", "é", "{ \"x\" }", "{", "}", "{ -t0.attr }", "{ m1.attr }"],
}
COMMENT = {
    "properties": lambda rng: "# " + rng.choice(["note", "LOCALIZATION NOTE Localization_and_Plurals", "x\n# y"]) + "\n",
    "dtd": lambda rng: "<!-- " + rng.choice(["note", "x\ny", "LOCALIZATION NOTE"]) + " -->\n",
    "ini": lambda rng: "; " + rng.choice(["note", "x\n; y"]) + "\n",
    "inc": lambda rng: "# " + rng.choice(["note", "x\n# y"]) + "\n",
    "po": lambda rng: "# " + rng.choice(["note", "x\n# y", "�"]) + "\n",
    "ftl": lambda rng: "# " + rng.choice(["note", "x\n# y"]) + "\n",
}


def gen_value(rng, fmt, lo=0, hi=5):
    v = "".join(rng.choice(VAL[fmt]) for _ in range(rng.randrange(lo, hi)))
    if fmt == "ftl":
        v = v.lstrip(" ") or "a"
    return v


def entity(fmt, key, val):
    if fmt == "properties":
        return "%s%s%s\n" % (key, " = " if len(val) % 2 else "=", val)
    if fmt == "dtd":
        q = '"' if "'" in val or len(val) % 3 else "'"
        sep = "\n  " if len(val) % 5 == 4 else " "
        return "<!ENTITY %s%s%s%s%s>\n" % (key, sep, q, val.replace(q, ""), q)
    if fmt == "ini":
        return "%s=%s\n" % (key, val.replace("\n", " "))
    if fmt == "inc":
        v = val.replace("\n", " ")
        return "#define %s%s\n" % (key, (" " + v) if v else "")
    if fmt == "po":
        v = val.replace("\n", " ").replace('"', "")
        if len(v) % 4 == 3:
            return 'msgctxt "c"\nmsgid "%s"\nmsgstr ""\n"%s"\n\n' % (key, v)      # string list over two lines
        return 'msgid "%s"\nmsgstr "%s"\n\n' % (key, v)
    return "%s = %s\n" % (key, val)


def gen_file(rng, fmt, keys, trouble):
    parts = []
    if fmt == "ini":
        parts.append("[Strings]\n")
    if fmt == "inc":
        parts.append("#filter emptyLines\n\n")
    for k in keys:
        if rng.random() < 0.3:
            parts.append("\n" * rng.randrange(1, 3))
        if rng.random() < 0.4:
            parts.append(COMMENT[fmt](rng))
        parts.append(entity(fmt, k, gen_value(rng, fmt, 1 if fmt in ("ftl", "ini") else 0)))
        if trouble and rng.random() < 0.15:
            parts.append(rng.choice(["??\n", "junk line\n", "<!ENTITY\n", "= x\n", "[[\n", "??\n\n??\n", "msgid\n"]))
    text = "".join(parts)
    if rng.random() < 0.3:
        text = text.rstrip("\n")
    return text


def gen_pair(rng, fmt):
    n = rng.randrange(1, 4)
    if fmt == "ftl":
        keys = ["-t0", "m1", "mkey"][:n]        # "…key": counted as an access key, not as a string (keyRE)
    else:
        keys = ["k0", "k1", "key2"][:n]
    rk = list(keys)
    lk = list(keys)
    if rng.random() < 0.2:
        rng.shuffle(lk)
    # duplicated keys on either side (Parser.findDuplicates), a key only in one file (missing / obsolete)
    if rng.random() < 0.15:
        lk.insert(rng.randrange(len(lk) + 1), rng.choice(keys))
    if rng.random() < 0.1:
        rk.insert(rng.randrange(len(rk) + 1), rng.choice(keys))
    if rng.random() < 0.15:
        lk.append("m9" if fmt == "ftl" else "k9")
    if rng.random() < 0.15 and len(lk) > 1:
        lk.pop(rng.randrange(len(lk)))
    ref = gen_file(rng, fmt, rk, False)
    l10n = gen_file(rng, fmt, lk, True)
    return ref, l10n


def dtd_value_parses_alone(value):
    """does the value parse inside `<elem>…</elem>` with every entity it references declared (DTDChecker's FIRST
    document)?  If it does, an XML error the checker reports for it comes from its SECOND document, where the whole
    entity text (pre-comment included) sits in the DOCTYPE line."""
    from io import BytesIO
    from xml import sax
    from compare_locales.checks.dtd import DTDChecker
    names = {m.group(1) for m in DTDChecker.eref.finditer(value)} - set(DTDChecker.xmllist)
    decls = "".join('<!ENTITY %s "">' % n for n in sorted(names))
    parser = sax.make_parser()
    parser.setFeature(sax.handler.feature_external_ges, False)
    parser.setContentHandler(sax.handler.ContentHandler())
    try:
        parser.parse(BytesIO(DTDChecker.tmpl % (decls.encode("utf-8"), value.encode("utf-8"))))
    except sax.SAXParseException:
        return False
    return True


def finding_of_check(fmt, chk, ent, text):
    """root-cause predicates of the C17 findings, on the failing check result (not on the input text)"""
    tag, a, b = chk["pos"]
    rep = tuple(chk["reported"])
    vline = ref_linecol(text, ent["vs"][0])[0] if ent["vs"][0] >= 0 else None
    # each finding is recognised by its exact signature, so that any OTHER wrong position stays a fresh violation
    if fmt == "dtd" and tag == "T" and a == 0 and rep == (vline - 1, b):
        return "C17-dtd-pair-line-zero"
    if fmt == "dtd" and tag == "T" and a >= 1 and chk["cat"] == "xmlparse" and chk["tp"] == "error" and ent["vs"][0] >= 0 \
            and rep == ((vline, ref_linecol(text, ent["vs"][0])[1] + b) if a == 1 else (vline + a - 1, b)) \
            and dtd_value_parses_alone(text[ent["vs"][0]:ent["vs"][1]]):
        # the pair was converted as the code documents; it is the pair itself that is in the wrong document's coordinates
        return "C17-dtd-second-document-layout"
    if fmt == "dtd" and tag == "T" and a >= 2 and rep == (vline + a - 1, b):
        return "C17-dtd-pair-later-line-column"
    if tag == "E" and ent.get("pc") and ent["full"] < ent["span"][0] and rep == ref_linecol(text, ent["span"][0] + a):
        return "C17-entitypos-counts-from-precomment"
    return None


def judge_check(text, ent, reported, one_based, target=None):
    """the claim about check messages: start of the entity <= reported <= end of the file (lexicographic);
    lint messages are also 1-based and, where the checker's offset has a defined target offset, identify it"""
    if isinstance(reported, str):
        return "resolving the position raised %s" % reported
    start = ref_linecol(text, ent["span"][0])
    eof = ref_linecol(text, len(text))
    rep = (reported[0], reported[1])
    if rep < start:
        return "reported %r lies before the start %r of its entity" % (rep, start)
    if rep > eof:
        return "reported %r lies beyond the end of the file %r" % (rep, eof)
    if one_based and (rep[0] < 1 or rep[1] < 1):
        return "reported %r is not 1-based" % (rep,)
    if target is not None and 0 <= target <= len(text):
        return judge(text, target, list(rep))
    return None


def lint_target(cls, ent, chk, text):
    """offset a lint message's position must identify, where the checker's convention defines one:
    EntityPos(n) = offset n into the entity text `all`; Fluent int n = offset n from the start of the entry;
    other int n = offset n into the value (judged when the raw value has no escapes before it, so that
    offsets into the unescaped and the raw value coincide)"""
    tag, a, _ = chk["pos"]
    if tag == "E":
        return ent["full"] + a
    if tag == "O" and cls == "fluent":
        return ent["span"][0] + a
    if tag == "O" and 0 <= ent["vs"][0] <= ent["vs"][1] and a >= 0:
        raw = text[ent["vs"][0]:ent["vs"][1]]
        if chk.get("cat") == "escape" and a <= len(raw):
            return ent["vs"][0] + a         # PropertiesChecker's "unknown escape": the offset indexes raw_val itself
        if a == 0 or ("\\" not in raw and "&" not in raw and a <= len(raw)):
            return ent["vs"][0] + a
    return None


def claimed_char(cls, ent, chk, text):
    """the character a lint position claims to point at, where the checker's message names one:
    U+FFFD for the encoding warning, the backslash of an unknown escape, the '%' of a printf error"""
    tag, a, _ = chk["pos"]
    if tag == "E" and chk.get("cat") == "encodings":
        return "\ufffd"
    if tag == "O" and chk.get("cat") == "escape":
        return "\\"
    if tag == "O" and chk.get("cat") == "printf" and chk["msg"] in ("Found single %", "Mixed ordered and non-ordered args"):
        return "%"
    return None


def resolve_line(cls, text, ent, chk):
    tag, a, b = chk["pos"]
    return "c17.resolve %s %s %s %d %d %d %d %d %s %d %d" % (
        cls, C.enc(text), ent["kind"], ent["span"][0], ent["span"][1], ent["ks"][1], ent["vs"][0], ent["vs"][1], tag, a, b)


def junk_message(text, span):
    return 'Unparsed content "%s" from line %d column %d to line %d column %d' % (
        (text[span[0]:span[1]],) + ref_linecol(text, span[0]) + ref_linecol(text, span[1]))


def part_checks(ctx, out):
    import shutil
    import tempfile
    base = tempfile.mkdtemp(prefix="verif-c17-run-")     # the real compare/lint read files; removed below whatever happens
    try:
        _part_checks(ctx, out, base)
    finally:
        shutil.rmtree(base, ignore_errors=True)


def _part_checks(ctx, out, base):
    todo = []       # (fmt, text, ent, chk, reported, where)
    for fmt in CHECK_FORMATS:
        rng = ctx.rng("c17", "checks", fmt)
        heavy = fmt in ("properties", "dtd", "ftl")
        pairs = [gen_pair(rng, fmt) for _ in range(ctx.n(500 if heavy else 150, 6000 if heavy else 1500))]
        # a third of the runs with a merge file (skips are collected), a quarter with observers that answer
        # "ignore" / "warning" (the missing / report branches); the reported positions must not depend on either
        opts = [(rng.random() < 0.33, rng.choice(["error", "error", "error", "mixed", "ignore", "warning"])) for _ in pairs]
        res = pool.pmap("impl.pos", "impl_compare", [[fmt, r, l, base, m, rv] for (r, l), (m, rv) in zip(pairs, opts)],
                        timeout=6.0, batch=16)
        for (ref, l10n), (mrg, rv), r in zip(pairs, opts, res):
            out.evaluations += 1
            if "r" not in r:
                out.count("compare.%s.harness_exc_%s" % (fmt, r.get("exc")))
                continue
            v = r["r"]
            if v["exc"]:
                # compare itself raised (e.g. the DTD checker's IndexError): not a position question
                out.count("compare.%s.raised_not_judged" % fmt)
                continue
            events = list(v["events"])
            for key, o in v["own"].items():
                if any("exc" in c for c in o["checks"]):
                    continue
                for chk in o["checks"]:
                    rx = re.compile(re.escape(chk["msg"]) + r" at line (-?\d+), column (-?\d+) for " + re.escape(o["refkey"]) + r"\Z", re.S)
                    hit = None
                    for i, (cat, data) in enumerate(events):
                        mm = rx.match(data) if cat == chk["tp"] else None
                        if mm:
                            hit = i
                            break
                    if hit is None:
                        out.disagreements.append({"op": "compare-alignment", "fmt": fmt, "ref": ref, "l10n": l10n, "key": key, "check": chk})
                        continue
                    events.pop(hit)
                    todo.append((fmt, l10n, o["ent"], chk, [int(mm.group(1)), int(mm.group(2))], "compare", v["cls"], {"ref": ref}))
            # unparsed content of the l10n file: reported with the positions of its start and end
            junk_events = sorted(d for c, d in events if d.startswith('Unparsed content "'))
            expected = sorted(junk_message(l10n, j["span"]) for j in v["junk"])
            if v["junk"]:
                out.nontrivial.add(("junk-message", fmt, l10n))
            if junk_events != expected:
                out.violations.append({"what": "%s compare: unparsed-content messages %r, expected %r" % (fmt, junk_events, expected),
                                       "input": {"op": "compare", "fmt": fmt, "ref": ref, "l10n": l10n}})
            # duplicated keys: one message per key, "<key> occurs <n> times" (warning for the reference, error for l10n)
            dup_events = sorted([c, d] for c, d in v["events"] if re.search(r" occurs \d+ times\Z", d))
            dup_expected = sorted([["warning", "%s occurs %d times" % (k, n)] for k, n in v["ref_dups"]] +
                                  [["error", "%s occurs %d times" % (k, n)] for k, n in v["l10n_dups"]])
            if dup_expected:
                out.nontrivial.add(("dup-message", fmt, l10n, ref))
                out.count("compare.%s.with_duplicates" % fmt)
            if dup_events != dup_expected:
                out.violations.append({"what": "%s compare: duplicate messages %r, expected %r" % (fmt, dup_events, dup_expected),
                                       "input": {"op": "compare", "fmt": fmt, "ref": ref, "l10n": l10n}})
            out.count("compare.%s.merge_%s.rv_%s" % (fmt, int(mrg), rv))
        # lint
        files = []
        for _ in range(ctx.n(300 if heavy else 100, 4000 if heavy else 1000)):
            n = rng.randrange(1, 5)
            keys = (["-t0", "m1", "m2", "m1"] if fmt == "ftl" else ["k0", "k1", "k0", "k2"])[:n]
            rng.shuffle(keys)
            text = gen_file(rng, fmt, keys, True)
            ref = gen_file(rng, fmt, keys, False) if rng.random() < 0.4 else None
            files.append((text, ref))
        res = pool.pmap("impl.pos", "impl_lint", [[fmt, t, r, base] for t, r in files], timeout=6.0, batch=16)
        for (text, ref), r in zip(files, res):
            out.evaluations += 1
            if "r" not in r:
                out.count("lint.%s.harness_exc_%s" % (fmt, r.get("exc")))
                continue
            v = r["r"]
            if v["exc"]:
                out.count("lint.%s.raised_not_judged" % fmt)
                continue
            results = v["results"]
            i = 0
            counts = {}
            for e in v["ents"]:
                counts[e["key"]] = counts.get(e["key"], 0) + 1
            bad = None
            aligned = True
            for e in v["ents"]:
                start = ref_linecol(text, e["span"][0])
                if e["k"] == "J":
                    if i >= len(results):
                        aligned = False
                        break
                    rr = results[i]
                    i += 1
                    if (rr["lineno"], rr["column"]) != start or rr["message"] != junk_message(text, e["span"]):
                        bad = "lint result for unparsed content at %r: line %r column %r %r, expected %r %r" % (
                            e["span"], rr["lineno"], rr["column"], rr["message"], start, junk_message(text, e["span"]))
                    continue
                if counts[e["key"]] > 1:
                    if i >= len(results) or results[i]["message"] != "Duplicate string with ID: %s" % e["key"]:
                        aligned = False
                        break
                    rr = results[i]
                    i += 1
                    out.nontrivial.add(("lint-duplicate", fmt, text))
                    if (rr["lineno"], rr["column"]) != start:
                        bad = "duplicate message for %s: line %r column %r, the entity starts at %r" % (e["key"], rr["lineno"], rr["column"], start)
                if i < len(results) and results[i]["message"] == "Changes to string require a new ID: %s" % e["key"]:
                    rr = results[i]
                    i += 1
                    if (rr["lineno"], rr["column"]) != start:
                        bad = "changed-string message for %s: line %r column %r, the entity starts at %r" % (e["key"], rr["lineno"], rr["column"], start)
                if any("exc" in c for c in e["checks"]):
                    aligned = False
                    break
                for chk in e["checks"]:
                    if i >= len(results) or results[i]["message"] != chk["msg"] or results[i]["level"] != chk["tp"]:
                        aligned = False
                        break
                    rr = results[i]
                    i += 1
                    todo.append((fmt, text, e["ent"], chk, [rr["lineno"], rr["column"]], "lint", v["cls"], {"ref": ref}))
                if not aligned:
                    break
            if aligned and i != len(results):
                aligned = False
            if bad:
                out.violations.append({"what": "%s lint: %s" % (fmt, bad), "input": {"op": "lint", "fmt": fmt, "text": text, "ref": ref}})
            elif not aligned:
                out.disagreements.append({"op": "lint-alignment", "fmt": fmt, "text": text, "ref": ref, "results": results[:6]})
    # files the comparer / linter cannot read or has no parser for (no position to report, or the fixed (1, 1))
    from impl import pos as I
    for kind in ("noparser", "ref-unreadable", "l10n-unreadable"):
        out.evaluations += 1
        r = I.impl_compare_broken(kind, base)
        exp = [] if kind == "noparser" else [["error", True]]
        if r["exc"] or r["events"] != exp:
            out.violations.append({"what": "compare of an unreadable / unknown file (%s): raised %r, events %r, expected %r" % (
                kind, r["exc"], r["events"], exp), "input": {"op": "broken", "kind": kind}})
    out.evaluations += 1
    r = I.impl_lint_broken(base)
    if r.get("results") != [[1, 1, "error"]]:
        out.violations.append({"what": "lint of an unreadable file: %r, expected one error at line 1, column 1" % (r,),
                               "input": {"op": "broken", "kind": "lint-unreadable"}})
    # judge + correspondence of every resolved check position
    lines = [resolve_line(cls, text, ent, chk) for fmt, text, ent, chk, rep, where, cls, extra in todo]
    model = C.run_driver_parallel(lines) if ctx.model_ok else [None] * len(lines)
    for (fmt, text, ent, chk, rep, where, cls, extra), mo in zip(todo, model):
        out.evaluations += 1
        out.count("checks.%s.%s.%s" % (where, fmt, chk["pos"][0]))
        tgt = lint_target(cls, ent, chk, text) if where == "lint" else None
        bad = judge_check(text, ent, rep, one_based=(where == "lint"), target=tgt)
        if not bad and tgt is not None and 0 <= tgt < len(text):
            ch = claimed_char(cls, ent, chk, text)
            if ch is not None and text[tgt] != ch:
                bad = "reported %r identifies offset %d, where the character is %r, not the %r the message is about" % (
                    tuple(rep), tgt, text[tgt], ch)
            elif ch is not None:
                out.count("checks.lint.claimed_character_verified")
        canon = "%d,%d" % (rep[0], rep[1])
        if where == "compare" and chk.get("cat") == "printf" and chk["pos"][0] == "O" and chk["pos"][1] > 0 \
                and "\\" in text[ent["vs"][0]:ent["vs"][0] + chk["pos"][1]]:
            # printf offsets index the unescaped value but are added to the start of the raw value: in range, not at the '%'
            # (theorem check_pos_target claims the '%' only for raw values without backslash; kernel-checked witness)
            out.count("checks.compare.printf_offset_behind_escapes_observed")
        if chk["pos"][0] == "T" or chk["pos"][1] > 0:
            out.nontrivial.add((where, fmt, text, chk["msg"], canon))
        if bad:
            fid = finding_of_check(fmt, dict(chk, reported=rep), ent, text)
            out.count("checks.violation.%s" % (fid or "untagged"))
            inp = {"op": where, "fmt": fmt, "text": text, "key_span": ent["span"], "ent": ent, "cls": cls, "check": chk, "reported": rep}
            inp.update(extra)
            out.violations.append({"what": "%s %s: position of %r %s: %s" % (fmt, where, chk["msg"], chk["pos"], bad),
                                   "input": inp, "finding": fid})
        elif mo is not None and mo != canon:
            out.disagreements.append({"op": "c17.resolve", "where": where, "fmt": fmt, "text": text, "check": chk, "ent": ent,
                                      "impl": canon, "model": mo})
        if len(out.samples) < 10 and chk["pos"][0] == "T" and chk["pos"][1] >= 1 and not bad and out.distribution.get("sampled.check", 0) < 2:
            out.count("sampled.check")
            out.samples.append({"op": where, "fmt": fmt, "text": text, "message": chk["msg"], "pos": chk["pos"], "reported": rep})


def part_pipeline(ctx, out):
    """the composed pipeline model of C05 (`Pipe.compareTexts` / `Pipe.lintText`: parse + checker + compare loop +
    observers + lint), about which the round-4 end-to-end theorems speak, against the real compare + toJSON and
    lint_file on C17's own position-centred pairs (multi-line values, pre-comments, duplicated keys, junk)"""
    cases = []
    for fmt in PIPE_FORMATS:
        rng = ctx.rng("c17", "pipeline", fmt)
        for _ in range(ctx.n(110, 900)):
            ref, l10n = gen_pair(rng, fmt)
            cases.append((fmt, ref, l10n, rng.random() < 0.3))
    lat = lambda t: t.encode("utf-8").decode("latin-1")
    res = pool.pmap("impl.pipeline", "impl_pipeline", [[f, lat(r), lat(l), m] for f, r, l, m in cases], timeout=10.0, batch=8)
    lines, idx = [], []
    for i, ((fmt, ref, l10n, m), r0) in enumerate(zip(cases, res)):
        r = r0.get("r", r0)
        if "ref_text" not in r:
            out.count("pipeline.%s.harness_exc_%s" % (fmt, r0.get("exc")))
            continue
        lines.append("c05.compare %s %s %s %d" % (fmt, C.enc(r["ref_text"]), C.enc(r["l10n_text"]), 1 if m else 0))
        idx.append((i, "compare"))
        lines.append("c05.lint %s %s %s" % (fmt, C.enc(r["ref_text"]), C.enc(r["l10n_text"])))
        idx.append((i, "lint"))
        lines.append("c05.lint %s - %s" % (fmt, C.enc(r["l10n_text"])))
        idx.append((i, "lint_noref"))
    model = C.run_driver_parallel(lines) if ctx.model_ok else [None] * len(lines)
    for (i, k), mo in zip(idx, model):
        fmt, ref, l10n, m = cases[i]
        r = res[i].get("r", res[i])
        out.evaluations += 1
        out.count("pipeline.%s.%s" % (fmt, k))
        im = r[k]
        if mo is not None and im != mo:
            out.disagreements.append({"op": "c05." + k, "fmt": fmt, "merge": m, "ref": ref, "l10n": l10n, "impl": im[:600], "model": mo[:600]})
        elif " at line " in im or "from line " in im or (k != "compare" and im != "ok "):
            out.nontrivial.add(("pipeline", fmt, k, im))


def classify(v):
    return v.get("finding")


def run(ctx):
    out = Outcome()
    out.rule = ("linecol: every text over {a, newline} up to length 8 (quick) / 11 (thorough) x every offset 0..len (plus offsets outside, "
                "compared with the model only) and seeded random texts over 12 letters incl. other Unicode line breaks; entries over explicit "
                "spans: all texts up to length 4/5 x all spans x offsets (position, value_position, Junk, DTD pairs, Fluent); files: the C01 "
                "generators of six formats (40% of their budget, own seeds) plus multi-line token files, every entry: position(), position(-1), "
                "position(mid), value_position(...) and Junk.error_message; checks: generated ref/l10n pairs and lint files of "
                "properties/dtd/ftl/ini/inc through the real ContentComparer.compare and L10nLinter.lint_file. non-trivial = a judged position "
                "behind at least one newline and not in column 1 (linecol), an entity/junk position with line>=2 and column>=2 (files), a check "
                "position that is a pair or a positive offset; distinct inputs/outcomes counted. Round 4: whole offset sequences on ONE "
                "cached context (c17.lcseq), the whole Junk.error_message text over all spans, DTD parameter entities / PO BadEntity / "
                "valueless #define as directed files, Android entries (positions (0, offset), counted, not judged), compare pairs with "
                "duplicated / missing / obsolete keys, a third with a merge file and varying observer answers, gettext files, unreadable "
                "files, and the composed C05 pipeline model (c05.compare / c05.lint) on these pairs")
    import time
    for part in (part_linecol, part_spans, part_files, part_checks, part_pipeline):
        t0 = time.time()
        part(ctx, out)
        out.count("seconds." + part.__name__, int(round(time.time() - t0)))
    # one violation of every kind first (the replay file keeps the first 20)
    kinds, first, rest = set(), [], []
    for v in out.violations:
        k = (v.get("finding"), v["input"].get("op"), v["input"].get("fmt"))
        (rest if k in kinds else first).append(v)
        kinds.add(k)
    out.violations = first + rest
    return out


def replay(payload):
    from impl import pos as I
    res = []
    for v in payload.get("violations", []):
        i = v["input"]
        op = i.get("op")
        o = None
        if op == "linecol":
            r = I.impl_linecol(i["text"], [i["pos"]], True)[0]
            o = judge(i["text"], i["pos"], parse_lc(r))
        elif op == "lcseq":
            r = I.impl_linecol_seq(i["text"], i["offsets"])
            for p_, one in zip(i["offsets"], r.split(" ")):
                if 0 <= p_ <= len(i["text"]):
                    o = o or judge(i["text"], p_, parse_lc(one))
        elif op == "noctx":
            o = None if I.impl_noctx(i["fmt"]) == [0, 0] else "walk() without a context yields entries"
        elif op == "broken":
            if i["kind"] == "lint-unreadable":
                o = None if I.impl_lint_broken().get("results") == [[1, 1, "error"]] else "lint of an unreadable file is not one error at (1, 1)"
            else:
                rr = I.impl_compare_broken(i["kind"])
                o = None if (not rr["exc"] and rr["events"] == ([] if i["kind"] == "noparser" else [["error", True]])) else "unexpected %r" % (rr,)
        elif op == "file":
            r = pool.pmap("impl.pos", "impl_file_positions", [[i["fmt"], i["text"]]], timeout=5.0)[0]
            if "r" in r:
                for rec in r["r"]["recs"]:
                    for label, tgt, rep in rec["obs"]:
                        if tgt is not None and 0 <= tgt <= len(i["text"]):
                            o = o or judge(i["text"], tgt, rep)
        elif op in ("compare", "lint") and "check" in i:
            if op == "compare":
                r = pool.pmap("impl.pos", "impl_compare", [[i["fmt"], i["ref"], i["text"]]], timeout=8.0)[0]
                msgs = [d for _, d in r["r"]["events"]] if "r" in r else []
            else:
                r = pool.pmap("impl.pos", "impl_lint", [[i["fmt"], i["text"], i.get("ref")]], timeout=8.0)[0]
                msgs = ["%s at line %s, column %s" % (x["message"], x["lineno"], x["column"]) for x in r["r"]["results"]] if "r" in r else []
            ent = i.get("ent") or {"span": i["key_span"]}
            needle = "%s at line %d, column %d" % (i["check"]["msg"], i["reported"][0], i["reported"][1])
            if any(m.startswith(needle) for m in msgs):     # the implementation still reports this position
                tgt = lint_target(i.get("cls"), ent, i["check"], i["text"]) if (op == "lint" and "ent" in i) else None
                o = judge_check(i["text"], ent, i["reported"], op == "lint", tgt)
        elif op and op.startswith("c17."):
            o = rerun_span_case(i)
        res.append({"input": i, "oracle": o})
    return {"violates": any(r["oracle"] for r in res), "cases": res}

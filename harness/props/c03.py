"""C03 — Comparison reports exactly the missing, obsolete and changed strings."""
import itertools

from lib import common as C
from lib import pool
from lib.runner import Outcome

ID = "C03"
LEAN_TARGETS = ["CLModel.Props.C03"]
M = "CLModel.Props.C03"
THEOREMS = [
    (M, "C03.compare_total", "the comparison loop never raises: every keyed lookup it performs succeeds, for all entity lists and filters"),
    (M, "C03.stats_once", "the stats dict is pushed to the observers exactly once per comparison"),
    (M, "C03.class_rules", "meaning of the classes: missing = last reference entity not junk and key absent from l10n; obsolete symmetric; "
                           "shared = key binding by name, else unchanged iff equals, else changed"),
    (M, "C03.missing_set", "all files (duplicates allowed): the missingEntity notifications are exactly the distinct reference keys of class "
                           "missing, each once; missing = their number, missing_w = their reference word sum"),
    (M, "C03.missing_exact", "duplicate-free files: missing strings = non-junk reference entities whose key is absent from l10n, in reference order"),
    (M, "C03.obsolete_set", "all files: the obsoleteEntity notifications are exactly the distinct l10n keys of class obsolete, each once; "
                            "obsolete = their number"),
    (M, "C03.obsolete_exact", "duplicate-free l10n: obsolete strings = (as a set, each once) the non-junk l10n entities whose key is absent from the reference"),
    (M, "C03.shared_once", "every shared key is counted in exactly one of keys / unchanged / changed (the class rule); the three counters sum to "
                           "the number of distinct shared keys; unchanged_w / changed_w are the reference word sums over the same sets"),
    (M, "C03.counts_partition", "missing + changed + unchanged + keys = number of distinct reference keys other than unshared reference junk; report = 0"),
    (M, "C03.counts_partition_nodup", "duplicate-free reference whose junk keys do not occur in l10n: missing + changed + unchanged + keys = "
                                      "number of non-junk reference entities"),
    (M, "C03.words_partition", "missing_w + changed_w + unchanged_w = reference word sum over the distinct reference keys that are missing, changed or unchanged"),
    (M, "C03.missing_file", "add(): missing = number of non-junk reference entities, missing_w = their word sum, in two updateStats calls; nothing if ignored"),
    (M, "C03.po_keys_never_bindings", "gettext tuple keys are never key bindings; shared gettext strings are classified by equals"),
    (M, "C03.distinct_ok", "first-occurrence de-duplication is a duplicate-free list with the same members (the 'distinct keys' the theorems quantify over exist)"),
    # ---- round 4
    (M, "C03.job_leaves_other_locales_alone", "one comparer, many jobs: compare()/add()/remove() on files whose locale is not L leaves summary[L] of the "
        "ObserverList and of every project observer untouched (false if the per-locale dicts of Observer.__init__ are shared)"),
    (M, "C03.session_summary_is_locale_sum", "after any sequence of compare/add/remove calls on one ContentComparer, summary[L][k] of the list and of each "
        "project observer = its old value + the sum over the calls that touch locale L only of what that call's notifications and stats count"),
    (M, "C03.compare_job_adds_its_counts", "one compare() inside a session pushes exactly the stats of compareEntities (under the verdicts "
        "ObserverList.notify returns for the project filters) and the nine counters of the localized file's locale grow by them, no other locale's"),
    (M, "C03.unfiltered_job_is_plain_comparison", "with unfiltered project observers the verdict is 'error' for every key: missing_set, obsolete_set, "
        "shared_once, counts_partition describe each job of a session"),
    (M, "C03.fluent_equals_is_erased_equality", "FluentEntity.equals = same id, same value and (messages) same attributes in order, compared on the AST "
        "with every span erased; comments are not looked at"),
    (M, "C03.fluent_attribute_equals", "FluentAttribute.equals = same name and same span-erased pattern"),
    (M, "C03.fluent_equals_equivalence", "between two messages or two terms equals is reflexive, symmetric and transitive"),
    (M, "C03.fluent_equals_ignores_spans_and_comments", "an entry equals its re-spanned self, word counts do not depend on spans, the entity lists of a "
        "Fluent file do not depend on comments"),
    (M, "C03.fluent_word_counts", "WordCounter: a select expression counts the text of ALL its variants and nothing of the selector; literals and "
        "references count nothing; a message counts value and attributes, a term its value only"),
    (M, "C03.fluent_classes_are_equals", "the equality classes handed to the comparison loop for two Fluent files agree iff equals holds: changed <=> not equals"),
    (M, "C03.fluent_words_partition", "missing_w + changed_w + unchanged_w add up for Fluent files (instance of words_partition on the AST-level entity lists)"),
    (M, "C03.unchanged_by_value_not_raw", "a shared non-binding key is unchanged iff key and val (unescaped) agree; raw_val is not looked at; words are "
        "those of the reference val"),
    (M, "C03.properties_same_unescape_same_value", ".properties: val = documented unescape of raw_val (C02), so raw texts that unescape to one text are one value"),
    (M, "C03.duplicates_same_key_sequence", "reference with duplicated keys vs a localization with the identical key sequence: nothing missing/obsolete, "
        "changed + unchanged + keys = number of DISTINCT reference keys"),
    # ---- round 5
    (M, "C03.job_result_history_free", "one PROCESS (several comparers + the process-wide memo, which has no content): after ANY history of "
        "compare/add/remove calls on files of any formats, a call decides the same about the merge file and is the SAME block of notifications "
        "and stats pushes as before the history, so it adds the same to every counter of every locale (list and project observers); false if "
        "count_words / val / equals / the diff consult a table filled by earlier calls"),
    (M, "C03.job_counts_as_in_fresh_process", "in a process that started fresh, a call after any history adds to every counter exactly what the "
        "same call reports as the first call of a fresh process (what the cross-format differential of the harness runs)"),
    (M, "C03.keyed_probe_spec", "KeyedTuple: `x in entities` holds exactly for entity keys and the tuple's own entity objects; entities[key] is the LAST "
        "entity with that key, an absent key raises TypeError"),
]
PARTIAL = [
    "the parsers of Fluent / Android / DTD(&-entities) are inputs: the comparison of Fluent files is modelled from the fluent.syntax AST "
    "(count_words, equals are Lean functions: c03.ftlcmp / c03.ftlwords / c03.ftleq), of Android and DTD files from the real entity lists "
    "(key, junk flag, count_words, equality class under the real equals)",
    "checkers: modelled end to end for .properties / .ini / .inc / .po jobs of a session (composition with the C05/C06 models: the FULL details "
    "and all eleven counters are compared); for dtd / ftl / android jobs the checker's messages are an input of the session model (placed and "
    "counted by the model, produced by the real checker) and, in the single-comparison stream c03.cmp, subtracted as before",
    "session theorems: what a job adds is stated over its own event block (existentially quantified history); that the block of a job does not "
    "depend on anything accumulated before (only on the filters) is job_result_history_free (round 5, all job shapes) — given that both calls "
    "return (a details tree can make Tree.__getitem__ raise for one history and not for another: C10's domain)",
    "process-wide state: the model's memo component is EMPTY because the code has none; Junk.junkid (a process-wide counter that only names "
    "junk keys) is reset by the harness before every job and the text-level model starts every job at 0",
    "Fluent equals is an equivalence between entries of the same class only: across classes (a Term against a Message) it is not symmetric "
    "(kernel-checked witness in Props/C03.lean); the comparer never evaluates that case (keys differ)",
]
LEVEL_TEXT = ("Lean 4 theorems over executable transliterations of ContentComparer.compare's loop, of ContentComparer.compare/add/remove driven "
              "through ONE ObserverList for a sequence of (locale, file) jobs, and of Fluent count_words/equals on the AST: for ALL pairs of "
              "entity lists, including duplicate keys, the loop terminates without error, the missing / obsolete notifications are exactly the "
              "set differences of the non-junk keys, every shared key is counted in exactly one of keys/unchanged/changed (by VALUE, not raw "
              "text; for Fluent by AST equality modulo spans and comments), the counters and word sums partition the distinct reference keys; "
              "for ANY job sequence the summary of a locale is the sum over that locale's jobs only, for the list and every project observer; "
              "in one process a call's notifications and stats do not depend on any earlier call of any format on any comparer; "
              "tied to the Python by differential runs of the real compare()/add()/remove() on generated (records, edit script) pairs in all "
              "seven formats and on generated multi-locale sessions, with an independent by-construction oracle")
LEVEL_NOTE = ("trusted: Lean kernel; hand-written models CLModel/Compare/{Content,Session,FluentEnt}.lean (validated by correspondence on every "
              "run) on top of the Observer/Tree models (C10), the pipeline models (C05: parser, values, checkers, merge) and AddRemove (C20); "
              "for dtd/android the entity lists (key, junk flag, count_words, equality classes) are taken from the real parsers, for Fluent the "
              "fluent.syntax AST; regexes keyRE, re_br, re_sgml are regenerated from /repo on every run")
TECHNIQUE = "Lean 4 proof over executable model (corollaries of the AddRemove closed form) + differential correspondence + by-construction oracle"
TRUSTED = [
    "hand-written model CLModel/Compare/Content.lean of ContentComparer.compare/add, Observer.notify, Parser.findDuplicates, Entry.count_words "
    "(tied by the c03.cmp / c03.add / c03.words correspondence)",
    "hand-written model CLModel/Compare/Session.lean of ContentComparer.compare/add/remove on the ObserverList model, incl. the no-parser, "
    "read-error and copy branches and KeyedTuple.__contains__/__getitem__ (tied by c03.sess / c03.keyed)",
    "hand-written model CLModel/Compare/FluentEnt.lean of WordCounter, BaseNode.equals / scalars_equal, FluentEntity.equals, "
    "FluentAttribute.equals (tied by c03.ftlwords / c03.ftleq / c03.ftlcmp; the fluent.syntax AST is an input)",
    "entity abstraction (key, junk, words, equality class) computed from the real parser objects by harness/impl/compare.py (dtd, android; "
    "and all formats in c03.cmp)",
    "hand-written process machine Sess.Proc (comparers + empty memo; tied by c03.proc on cross-format histories); the harness's own unescapers "
    "and word counter for the cross-format pool (props/c03.py x_val / x_count, cross-checked against hand-annotated counts on every run)",
]
ASSUMPTIONS = ["the oracle judges comparisons in which nothing is filtered: one or two project observers without filter, or two project observers "
               "that partition the files between them (every file owned by one); entity- and file-level filter verdicts are exercised in the "
               "correspondence only",
               "files are read as UTF-8 text without carriage returns",
               "sessions: Junk.junkid is reset before every job (junk keys are process-global counters, not part of any report)",
               "cross-format histories: 'fresh process' = a fork of a pool worker that has imported the code and run nothing (for a sample of "
               "calls: a new interpreter)"]

FORMATS = ["properties", "dtd", "ini", "inc", "ftl", "po", "android"]

# semantic value, number of words after the documented markup stripping (<br> -> newline, tags removed, split on white-space)
VALUES = [
    ("two words", 2),
    ("Hello <b>bold</b> world", 3),
    ("line<br/>break", 2),
    ("one", 1),
    ("three little words", 3),
    ("first<br>second part", 3),
    ("<span class=\"c\">tagged text</span> tail", 3),
    ("wide   gaps here", 3),
    ("caf\u00e9 \u00fcber", 2),
    ("a<br />b<br\t/>c", 3),
    ("1 < 2 apples", 4),
    ("open <b unclosed", 3),
    ("two <a>x</a> <br> y", 3),
    ("<br>", 0),
    ("x", 1),
    ("Other <i>it</i>", 2),
    ("", 0),
]
EMPTY = len(VALUES) - 1
# formats in which a record may carry an empty value (Fluent needs a value or an attribute; gettext's empty msgstr is value index -1)
EMPTY_OK = ("properties", "dtd", "ini", "inc", "android")

# Fluent only: (value text or None, ((attribute name, attribute text), ...)); value index = len(VALUES) + position.
# A multi-line value is printed with an indented continuation line; the parsed text keeps the line break.
FTL_SHAPES = [
    ("two words", (("title", "tip text"),)),
    ("two words", (("title", "another tip"),)),
    ("two words", (("title", "tip text"), ("accesskey", "T"))),
    (None, (("label", "Only an attribute"),)),
    (None, (("label", "Other attribute text"),)),
    (None, (("label", "Only an attribute"), ("title", "tip text"))),
    ("first line\nsecond line", ()),
    ("first line\nsecond line", (("title", "tip text"),)),
    ("first line\nsecond line", (("title", "another tip"),)),
    ("first line\nother second line", (("title", "tip text"),)),
    ("one", (("aria-label", "spoken one"),)),
]


def fval(vi):
    """Fluent: (value text or None, attributes) of a value index"""
    if vi < len(VALUES):
        return (VALUES[vi][0], ())
    return FTL_SHAPES[vi - len(VALUES)]


def legal_vis(fmt, key):
    """value indices a record with this key may carry in this format"""
    if fmt == "ftl":
        vis = [i for i in range(len(VALUES) + len(FTL_SHAPES)) if i != EMPTY]
        if key.startswith("-"):
            vis = [i for i in vis if fval(i)[0] is not None]      # a term needs a value
        return vis
    if fmt in EMPTY_OK:
        return list(range(len(VALUES)))
    return [i for i in range(len(VALUES)) if i != EMPTY]


def siblings(fmt, key, vi):
    """Fluent: the other shapes with the same value text (they differ in attributes only)"""
    if fmt != "ftl" or vi < 0:
        return []
    return [j for j in legal_vis(fmt, key) if j != vi and fval(j)[0] == fval(vi)[0]]

KEYS = {
    "properties": ["alpha", "menu.accesskey", "gamma", "beta", "openKey", "KEYS", "monkey_biz", "k", "a.b", "delta", "Key", "ke-y"],
    "dtd": ["alpha", "menu.accesskey", "gamma", "beta", "openKey", "KEYS", "monkey_biz", "k", "a.b", "delta", "Key", "ke-y"],
    "ini": ["alpha", "menuaccesskey", "gamma", "beta", "openKey", "KEYS", "monkey_biz", "k", "a.b", "delta", "Key", "ke-y"],
    "inc": ["alpha", "menu_accesskey", "gamma", "beta", "openKey", "KEYS", "monkey_biz", "k", "a_b", "delta", "Key", "ke_y"],
    "ftl": ["alpha", "menu-accesskey", "gamma", "beta", "openKey", "KEYS", "monkey_biz", "k", "-term", "delta", "Key", "-brand-key"],
    "po": [("alpha", None), ("Press any key", None), ("gamma", None), ("beta", None), ("openKey", "menu"), ("alpha", "ctx"),
           ("monkey biz", None), ("k", None), ("Key", None), ("delta", "key"), ("Open file", None), ("x y", "z")],
    "android": ["alpha", "menu_accesskey", "gamma", "beta", "openKey", "KEYS", "monkey_biz", "k", "a_b", "delta", "Key", "ke_y"],
}
JUNK = {"properties": "junk line here", "dtd": "<!ENTITY broken>", "ini": "junk line", "inc": "junk", "ftl": "= junk",
        "po": "garbage", "android": "<foo/>"}


# ------------------------------------------------------------------ printers
def xml_esc(s):
    return s.replace("&", "&amp;").replace("<", "&lt;").replace(">", "&gt;")


def print_record(fmt, key, vi, variant):
    """raw text of one record with value index `vi` (variant 1: a different spelling of the same value)"""
    if vi >= 3000:
        return print_xraw(fmt, key, vi)
    if vi >= 2000:
        return print_spelling(fmt, key, vi)
    if vi >= 1000:
        return ftl_render(key, FTL_FLAT[vi - 1000][1], variant)
    val = value_of(fmt, key, vi)
    if fmt == "properties":
        raw = val
        if variant and val:
            raw = "\\u%04x" % ord(val[0]) + val[1:]
        if not val:
            return "%s =" % key if variant else "%s=" % key
        return "%s = %s" % (key, raw) if variant else "%s=%s" % (key, raw)
    if fmt == "dtd":
        if variant and "'" not in val:
            return "<!ENTITY %s '%s'>" % (key, val)
        return '<!ENTITY %s "%s">' % (key, val.replace('"', "&quot;"))
    if fmt == "ini":
        return ("; a comment\n" if variant else "") + "%s=%s" % (key, val)
    if fmt == "inc":
        if not val:
            return "# a comment\n#define %s " % key if variant else "#define %s" % key
        return ("# a comment\n" if variant else "") + "#define %s %s" % (key, val)
    if fmt == "ftl":
        text, attrs = fval(vi)
        out = ("# a comment\n" if variant else "") + key + " ="
        if text is not None:
            out += " " + text.replace("\n", "\n    ")
        for name, atext in attrs:
            out += "\n    .%s = %s" % (name, atext)
        return out
    if fmt == "po":
        msgid, ctxt = key

        def q(s):
            return '"' + s.replace("\\", "\\\\").replace('"', '\\"').replace("\t", "\\t").replace("\n", "\\n") + '"'
        out = ""
        if ctxt is not None:
            out += "msgctxt %s\n" % q(ctxt)
        out += "msgid %s\n" % q(msgid)
        if variant and val:
            out += 'msgstr ""\n%s %s\n' % (q(val[:1]), q(val[1:]))
        else:
            out += "msgstr %s\n" % q(val)
        return out
    if fmt == "android":
        if variant and "]]>" not in val:
            return '  <string name="%s"><![CDATA[%s]]></string>' % (key, val)
        return '  <string name="%s">%s</string>' % (key, xml_esc(val))
    raise ValueError(fmt)


def print_file(fmt, items, blank):
    """items: list of ("rec", key, value index, variant) | ("junk",); blank: separate entries by an empty line"""
    lines = []
    for it in items:
        if it[0] == "junk":
            lines.append(JUNK[fmt])
        else:
            _, key, vi, variant = it
            lines.append(print_record(fmt, key, vi, variant))
    sep = "\n\n" if (blank and fmt != "inc") else "\n"
    if fmt == "po":
        sep = "\n"          # records end with a newline already: entries are separated by an empty line
    body = sep.join(lines) + ("\n" if lines else "")
    if fmt == "ini":
        return "[Strings]\n" + body
    if fmt == "android":
        return '<?xml version="1.0" encoding="utf-8"?>\n<resources>\n' + body + "</resources>\n"
    return body


def value_of(fmt, key, vi):
    """the raw value index -1 is the empty msgstr of a gettext template"""
    if vi < 0:
        return ""
    if vi >= 3000:
        return x_val(fmt, XRAW[vi - 3000][0])
    if vi >= 2000:
        return SPELLINGS[vi - 2000][2]
    if fmt == "ftl":
        return fval(vi)[0]
    return VALUES[vi][0]


def sem(fmt, key, vi):
    """what the comparison looks at: gettext falls back to the msgid for an empty msgstr; a Fluent message is its value and
    its attributes, a Fluent term its value only (attributes of terms are private)"""
    if vi < 0:
        return key[0]
    if vi >= 3000:
        return ("x", x_val(fmt, XRAW[vi - 3000][0]))
    if vi >= 2000:
        return SPELLINGS[vi - 2000][2]
    if vi >= 1000:
        return ftl_sig(key, FTL_FLAT[vi - 1000][1])
    if fmt == "ftl":
        text, attrs = fval(vi)
        return (text,) if key.startswith("-") else (text, attrs)
    return VALUES[vi][0]


def words(fmt, key, vi):
    if vi >= 3000:
        return XRAW[vi - 3000][1][fmt]
    if vi >= 2000:
        return SPELLINGS[vi - 2000][3]
    if vi >= 1000:
        return ftl_words(key, FTL_FLAT[vi - 1000][1])
    if fmt == "ftl":
        text, attrs = fval(vi)
        n = len(text.split()) if text is not None else 0
        if key is None or not key.startswith("-"):
            n += sum(len(atext.split()) for _, atext in attrs)
        return n
    if vi < 0:
        return len(key[0].split())          # msgids of the pool carry no markup
    return VALUES[vi][1]


def is_binding(fmt, key):
    return fmt != "po" and ("key" in key or "Key" in key)


# ------------------------------------------------------------------ round 4: explicit raw spellings (raw_val differs, val is the same)
# (format, raw text as written in the file, the value it stands for, words of that value); value index = 2000 + position
SPELLINGS = [
    ("properties", "café time", "café time", 2),
    ("properties", "caf\\u00e9 time", "café time", 2),
    ("properties", "caf\\u00E9 \\\n      time", "café time", 2),          # line continuation: backslash, newline, indentation dropped
    ("properties", "c\\af\\u00e9\\ time", "café time", 2),                 # `\c` -> c for any other character
    ("properties", "caf\\u00e8 time", "cafè time", 2),                     # another value
    ("properties", "one\\ttab", "one\ttab", 2),
    ("properties", "one\\u0009tab", "one\ttab", 2),
    # values the PropertiesChecker / base Checker has something to say about (as localizations of one another)
    ("properties", "%1$S and %2$S", "%1$S and %2$S", 3),
    ("properties", "%2$S und %1$S", "%2$S und %1$S", 3),
    ("properties", "%1$S und %3$S", "%1$S und %3$S", 3),
    ("properties", "%d und %S", "%d und %S", 3),
    ("properties", "bad \\q escape", "bad q escape", 3),
    ("properties", "moji \ufffd bake", "moji \ufffd bake", 3),
    ("dtd", "Tom &amp; Jerry", "Tom & Jerry", 3),
    ("dtd", "Tom &#38; Jerry", "Tom & Jerry", 3),
    ("dtd", "Tom &#x26; Jerry", "Tom & Jerry", 3),
    ("dtd", "Tom &#x0026; Jerry", "Tom & Jerry", 3),
    ("dtd", "Tom &lt; Jerry", "Tom < Jerry", 3),
    ("dtd", "caf&eacute; time", "café time", 2),
    ("dtd", "café time", "café time", 2),
    ("android", "Tom &amp; Jerry", "Tom & Jerry", 3),
    ("android", "Tom &#38; Jerry", "Tom & Jerry", 3),
    ("android", "<![CDATA[Tom & Jerry]]>", "Tom & Jerry", 3),
    ("android", "Tom &lt; Jerry", "Tom < Jerry", 3),
    ("po", '"" "Tom & " "Jerry"', "Tom & Jerry", 3),
    ("po", '"Tom & Jerry"', "Tom & Jerry", 3),
    ("po", '"Tom &\\tJerry"', "Tom &\tJerry", 3),
]


def print_spelling(fmt, key, vi):
    raw = SPELLINGS[vi - 2000][1]
    if fmt == "properties":
        return "%s = %s" % (key, raw)
    if fmt == "dtd":
        return '<!ENTITY %s "%s">' % (key, raw)
    if fmt == "android":
        return '  <string name="%s">%s</string>' % (key, raw)
    if fmt == "po":
        msgid, ctxt = key
        out = "" if ctxt is None else 'msgctxt "%s"\n' % ctxt
        return out + 'msgid "%s"\nmsgstr %s\n' % (msgid, raw)
    raise ValueError(fmt)


# ------------------------------------------------------------------ round 5: ONE raw text, seven formats — the unescaped values differ
# A raw text R (what `raw_val` of the parsed entity is) written into a file of every format under the SAME key; per format the
# number of words of the value the format makes of it (hand-annotated; None = R is not a value in that format).  The word
# count of a string is a function of (format, R): `.properties` and gettext turn `\n` `\t` `\\` (`.properties` also
# `\uXXXX`) into characters, DTD resolves character references and named entities, ini / inc / Fluent text / Android text
# (after XML decoding, which is the parser's `raw_val` already) take R literally.  value index = 3000 + position.
def _x(raw, default, **special):
    d = {f: default for f in FORMATS}
    d.update(special)
    return (raw, d)


XRAW = [
    _x(r"Line one\nLine two", 3, properties=4, po=4),
    _x(r"tab\there", 1, properties=2, po=2),
    _x(r"A\u0020B", 1, properties=2, po=None),                   # `\u` is not a gettext escape: no such msgstr
    _x(r"x\\\ny", 1, properties=2, po=2),                        # `\\` then `\n`
    _x(r"C:\\temp\\new dir", 2),
    _x("Tom &amp; Jerry", 3),
    _x("one&#32;two", 1, dtd=2),
    _x("one&#x20;two&#10;three", 1, dtd=3),
    _x("a &lt;br&gt; b", 3, dtd=2),                              # DTD: `<br>` after unescaping, a line break for the counter
    _x("x&nbsp;y", 1, dtd=2),
    _x('msgstr "a b"', 3, po=2),                                 # gettext: this IS the msgstr line; elsewhere three words
    _x("A B", 2),                                                # the `.properties` value of `A\u0020B`
    _x("one two", 2),                                            # the DTD value of `one&#32;two`
    _x("Line one Line two", 4),
    _x("x&#160;y", 1, dtd=2),
    # the same VALUE as another raw text in some formats only: whether two strings are equal depends on the format
    _x("tab\there", 2),                                          # a real tab: the `.properties` / gettext value of `tab\there`
    _x("caf\u00e9 one", 2),
    _x(r"caf\u00e9 one", 2, po=None),                             # `.properties`: the same value as `café one`
    _x("caf&eacute; one", 2),                                    # DTD: the same value as `café one`
    _x("Tom & Jerry", 3),                                        # DTD: the value of `Tom &amp; Jerry`
]
XKEYS = ["title", "alpha", "gamma", "beta", "delta", "openKey"]
XEXT = {"properties": "x%d.properties", "dtd": "x%d.dtd", "ini": "x%d.ini", "inc": "x%d.inc", "ftl": "x%d.ftl", "po": "x%d.po",
        "android": "x%d/strings.xml"}


def _props_unescape(raw):
    """`.properties`: `\\uXXXX` (1-4 hex digits), `\\n` `\\r` `\\t` `\\\\`, backslash + newline + indentation dropped, `\\c` -> c"""
    out, i = [], 0
    while i < len(raw):
        c = raw[i]
        if c != "\\" or i + 1 == len(raw):
            out.append(c)
            i += 1
            continue
        n = raw[i + 1]
        if n == "u":
            j = i + 2
            while j < len(raw) and j < i + 6 and raw[j] in "0123456789abcdefABCDEF":
                j += 1
            if j > i + 2:
                out.append(chr(int(raw[i + 2:j], 16)))
                i = j
                continue
        if n == "\n":
            i += 2
            while i < len(raw) and raw[i] in " \t":
                i += 1
            continue
        out.append({"n": "\n", "r": "\r", "t": "\t", "\\": "\\"}.get(n, n))
        i += 2
    return "".join(out)


_DTD_NAMED = {"amp": "&", "lt": "<", "gt": ">", "quot": '"', "nbsp": "\u00a0", "apos": "'", "eacute": "\u00e9"}


def _dtd_unescape(raw):
    """DTD: `&name;` for the names of the pool, `&#NN;`, `&#xHH;`; anything else stays"""
    out, i = [], 0
    while i < len(raw):
        if raw[i] == "&":
            j = raw.find(";", i)
            if j > i:
                name = raw[i + 1:j]
                if name in _DTD_NAMED:
                    out.append(_DTD_NAMED[name])
                    i = j + 1
                    continue
                if name[:2] in ("#x", "#X") and name[2:] and all(ch in "0123456789abcdefABCDEF" for ch in name[2:]):
                    out.append(chr(int(name[2:], 16)))
                    i = j + 1
                    continue
                if name[:1] == "#" and name[1:].isdigit():
                    out.append(chr(int(name[1:])))
                    i = j + 1
                    continue
        out.append(raw[i])
        i += 1
    return "".join(out)


def _po_unescape(body):
    out, i = [], 0
    while i < len(body):
        if body[i] == "\\" and i + 1 < len(body) and body[i + 1] in '\\trn"':
            out.append({"\\": "\\", "t": "\t", "r": "\r", "n": "\n", '"': '"'}[body[i + 1]])
            i += 2
        else:
            out.append(body[i])
            i += 1
    return "".join(out)


def x_val(fmt, raw):
    """the value format `fmt` makes of the raw text (independent of the implementation)"""
    if fmt == "properties":
        return _props_unescape(raw)
    if fmt == "dtd":
        return _dtd_unescape(raw)
    if fmt == "po":
        return _po_unescape(raw[len('msgstr "'):-1] if raw.startswith('msgstr "') else raw)
    return raw


def x_count(val):
    """the documented word count, by a scanner: `<br>` / `<br/>` (white-space allowed before the slash) is a line break, then
    every `<name …>` / `</name …>` up to the next `>` on the same line is dropped, then white-space separated words"""
    def wordch(ch):
        return ch.isalnum() or ch == "_"
    out, i = [], 0
    while i < len(val):                                   # pass 1: line breaks
        if val.startswith("<br", i):
            j = i + 3
            while j < len(val) and val[j] in " \t\r\n":
                j += 1
            if j < len(val) and val[j] == "/":
                j += 1
            if j < len(val) and val[j] == ">":
                out.append("\n")
                i = j + 1
                continue
        out.append(val[i])
        i += 1
    val, out, i = "".join(out), [], 0
    while i < len(val):                                   # pass 2: tags
        if val[i] == "<":
            j = i + 1
            if j < len(val) and val[j] == "/":
                j += 1
            k = j
            while k < len(val) and wordch(val[k]):
                k += 1
            if k > j:
                # `.*?>` with backtracking into the name: the first `>` after at least one name character, not across a newline
                e = j + 1
                while e < len(val) and val[e] not in ">\n":
                    e += 1
                if e < len(val) and val[e] == ">":
                    i = e + 1
                    continue
        out.append(val[i])
        i += 1
    return len("".join(out).split())


def x_selfcheck():
    """the hand-annotated word counts of the pool against the independent unescapers + counter"""
    bad = []
    for raw, ann in XRAW:
        for fmt in FORMATS:
            if ann[fmt] is not None and x_count(x_val(fmt, raw)) != ann[fmt]:
                bad.append((raw, fmt, ann[fmt], x_count(x_val(fmt, raw))))
    return bad


def x_partners():
    """pairs of raw texts that are the SAME value in some formats and different values in others:
    [(i, j, formats where equal, formats where different)]"""
    out = []
    for i in range(len(XRAW)):
        for j in range(i + 1, len(XRAW)):
            both = [f for f in FORMATS if XRAW[i][1][f] is not None and XRAW[j][1][f] is not None]
            eq = [f for f in both if x_val(f, XRAW[i][0]) == x_val(f, XRAW[j][0])]
            ne = [f for f in both if f not in eq]
            if eq and ne:
                out.append((i, j, eq, ne))
    return out


def x_key(fmt, k):
    return (k, None) if fmt == "po" else k


def print_xraw(fmt, key, vi):
    raw = XRAW[vi - 3000][0]
    if fmt == "properties":
        return "%s = %s" % (key, raw)
    if fmt == "dtd":
        q = "'" if '"' in raw else '"'
        return "<!ENTITY %s %s%s%s>" % (key, q, raw, q)
    if fmt == "ini":
        return "%s=%s" % (key, raw)
    if fmt == "inc":
        return "#define %s %s" % (key, raw)
    if fmt == "ftl":
        return "%s = %s" % (key, raw)
    if fmt == "android":
        return '  <string name="%s">%s</string>' % (key, xml_esc(raw))
    if fmt == "po":
        return 'msgid "%s"\n%s\n' % (key[0], raw if raw.startswith('msgstr "') else 'msgstr "%s"' % raw)
    raise ValueError(fmt)


# ------------------------------------------------------------------ round 4: Fluent entries with select expressions, terms, references
# pattern := [piece]; piece := text | ("var", name) | ("lit", text) | ("num", text) | ("msg", id, attr) | ("term", id, attr, args)
#          | ("fn", NAME, args) | ("nest", piece) | ("sel", selector piece, [(key, is default, pattern)]);  args := ([piece], [(name, piece)])
def _sel(var, *variants):
    return ("sel", ("var", var), list(variants))


SEL_N = _sel("n", ("one", False, ["One thing"]), ("other", True, [("var", "n"), " things here"]))
# slot key -> alternative (value pattern or None, [(attribute name, pattern)]); alternative 0 is the reference
FTL_AST = {
    "alpha": [
        (["You have ", SEL_N, " today"], []),
        (["You have ", _sel("n", ("one", False, ["One item"]), ("other", True, [("var", "n"), " things here"])), " today"], []),
        (["You have ", _sel("n", ("one", True, ["One thing"]), ("other", False, [("var", "n"), " things here"])), " today"], []),
        (["You have ", _sel("n", ("other", True, [("var", "n"), " things here"]), ("one", False, ["One thing"])), " today"], []),
        (["You have ", _sel("m", ("one", False, ["One thing"]), ("other", True, [("var", "n"), " things here"])), " today"], []),
        (["You have ", _sel("n", ("1", False, ["One thing"]), ("other", True, [("var", "n"), " things here"])), " today"], []),
    ],
    "gamma": [
        (["Hello ", ("nest", ("var", "user")), " and ", ("lit", "not counted words"), " bye now"], []),
        (["Hello ", ("var", "user"), " and ", ("lit", "not counted words"), " bye now"], []),
        (["Hello ", ("nest", ("var", "user")), " and ", ("lit", "other literal"), " bye now"], []),
        (["Hello ", ("nest", ("var", "user")), " and ", ("num", "3"), " bye now"], []),
    ],
    "beta": [
        (None, [("label", ["Open ", SEL_N]), ("title", ["tip text"])]),
        (None, [("title", ["tip text"]), ("label", ["Open ", SEL_N])]),
        (None, [("label", ["Open ", SEL_N])]),
        (["Open"], [("label", ["Open ", SEL_N]), ("title", ["tip text"])]),
    ],
    "-term": [
        (["Fire ", _sel("case", ("nominative", True, ["the Browser"]), ("genitive", False, ["of the Browser"]))], [("gender", ["masculine word"])]),
        (["Fire ", _sel("case", ("nominative", True, ["the Browser"]), ("genitive", False, ["of the Browser"]))], [("gender", ["feminine"])]),
        (["Fire ", _sel("case", ("nominative", True, ["the Browser"]), ("genitive", False, ["of a Browser"]))], [("gender", ["masculine word"])]),
        (["Fire ", _sel("case", ("nominative", True, ["the Browser"]), ("genitive", False, ["of the Browser"]))], []),
    ],
    "delta": [
        (["Use ", ("term", "term", None, ([], [("case", ("lit", "genitive"))])), " or ", ("msg", "alpha", None), " at ",
          ("fn", "NUMBER", ([("var", "n")], [("minimumFractionDigits", ("num", "2"))]))], []),
        (["Use ", ("term", "term", None, ([], [("case", ("lit", "nominative"))])), " or ", ("msg", "alpha", None), " at ",
          ("fn", "NUMBER", ([("var", "n")], [("minimumFractionDigits", ("num", "2"))]))], []),
        (["Use ", ("term", "term", None, ([], [("case", ("lit", "genitive"))])), " or ", ("msg", "beta", "label"), " at ",
          ("fn", "NUMBER", ([("var", "n")], [("minimumFractionDigits", ("num", "2"))]))], []),
        (["Use ", ("term", "term", None, None), " or ", ("msg", "alpha", None), " at ",
          ("fn", "NUMBER", ([("var", "n")], [("minimumFractionDigits", ("num", "2"))]))], []),
        (["Use ", ("term", "other-term", None, None), " or ", ("msg", "alpha", None), " at ",
          ("fn", "NUMBER", ([("var", "n")], [("minimumFractionDigits", ("num", "3"))]))], []),
    ],
    "k": [
        ([_sel("a", ("x", False, ["outer one ", _sel("b", ("y", True, ["inner deep words"]), ("w", False, ["other"]))]), ("z", True, ["last"]))], []),
        ([_sel("a", ("x", False, ["outer one ", _sel("b", ("y", True, ["inner shallow"]), ("w", False, ["other"]))]), ("z", True, ["last"]))], []),
        ([_sel("a", ("x", False, ["outer one ", _sel("b", ("y", True, ["inner deep words"]))]), ("z", True, ["last"]))], []),
        (["first line\nsecond line ", ("fn", "DATETIME", ([("nest", _sel("c", ("u", True, ["counted inside call"])))], []))], []),
    ],
}
FTL_FLAT = [(k, alt) for k, alts in FTL_AST.items() for alt in alts]
FTL_SLOTS = list(FTL_AST)


def ftl_vi(key, n):
    return 1000 + FTL_FLAT.index((key, FTL_AST[key][n]))


def _r_expr(e, ind, tight, depth):
    sp = "" if tight else " "
    kind = e[0]
    if kind == "var":
        return "$" + e[1]
    if kind == "lit":
        return '"%s"' % e[1]
    if kind == "num":
        return e[1]
    if kind == "msg":
        return e[1] + ("." + e[2] if e[2] else "")
    if kind in ("term", "fn"):
        head = ("-" + e[1] + ("." + e[2] if e[2] else "")) if kind == "term" else e[1]
        args = e[3] if kind == "term" else e[2]
        if args is None:
            return head
        items = [_r_expr(a, ind, tight, depth) for a in args[0]] + ["%s:%s%s" % (n, sp, _r_expr(v, ind, tight, depth)) for n, v in args[1]]
        return head + "(" + ("," + sp).join(items) + ")"
    if kind == "nest":
        return "{" + sp + _r_expr(e[1], ind, tight, depth) + sp + "}"
    if kind == "sel":
        out = _r_expr(e[1], ind, tight, depth) + " ->"
        for key, default, pat in e[2]:
            out += "\n" + ind * (depth + 1) + ("*" if default else (" " if not tight else "")) + "[" + key + "]" + " " + _r_pat(pat, ind, tight, depth + 1)
        return out + "\n" + ind * depth
    raise ValueError(kind)


def _r_pat(pat, ind, tight, depth):
    sp = "" if tight else " "
    out = ""
    for p in pat:
        if isinstance(p, str):
            out += p.replace("\n", "\n" + ind * (depth + 1))
        elif p[0] == "sel":
            out += "{" + sp + _r_expr(p, ind, tight, depth + 1) + "}"
        else:
            out += "{" + sp + _r_expr(p, ind, tight, depth + 1) + sp + "}"
    return out


def ftl_render(key, alt, variant):
    """variant 0: four spaces, airy braces; variant 1: a comment, two spaces, tight braces — the same entry"""
    ind, tight = ("    ", False) if not variant else ("  ", True)
    value, attrs = alt
    out = ("# a comment\n# over two lines\n" if variant else "") + key + " ="
    if value is not None:
        out += " " + _r_pat(value, ind, tight, 0)
    for name, pat in attrs:
        out += "\n" + ind + "." + name + " = " + _r_pat(pat, ind, tight, 1)
    return out


def _w_pat(pat):
    n = 0
    for p in pat:
        n += len(p.split()) if isinstance(p, str) else _w_expr(p)
    return n


def _w_expr(e):
    kind = e[0]
    if kind == "nest":
        return _w_expr(e[1])
    if kind == "sel":
        return sum(_w_pat(pat) for _, _, pat in e[2])          # all variants, not the selector
    if kind in ("term", "fn"):
        args = e[3] if kind == "term" else e[2]
        return sum(_w_expr(a) for a in args[0]) if args else 0
    return 0                                                   # literals and references hold no text element


def ftl_words(key, alt):
    value, attrs = alt
    n = _w_pat(value) if value is not None else 0
    if not key.startswith("-"):
        n += sum(_w_pat(pat) for _, pat in attrs)
    return n


def _freeze(x):
    return tuple(_freeze(y) for y in x) if isinstance(x, (list, tuple)) else x


def ftl_sig(key, alt):
    """what `equals` looks at: id, value, and (messages only) the attributes in order"""
    value, attrs = alt
    return (key, _freeze(value)) if key.startswith("-") else (key, _freeze(value), _freeze(attrs))


def gen_directed(ctx, fmt):
    """round 4 directed families: verbatim copies of files with duplicated keys, raw spellings of one value, Fluent selects"""
    rng = ctx.rng("c03", "directed", fmt)
    keys = KEYS[fmt]
    cases = []

    def case(ref, l10n, kind, blank=False):
        cases.append({"fmt": fmt, "ref": ref, "l10n": l10n, "blank": blank, "verdicts": None, "add": None, "kind": kind})
    # (a) duplicates: the localization has the identical key sequence (verbatim copy / respelled / re-valued last / re-valued first)
    vis = [v for v in legal_vis(fmt, keys[0]) if v < len(VALUES)]
    for n in range(ctx.n(24, 300)):
        nk = rng.choice([1, 2, 3, 4])
        ks = rng.sample([k for k in keys if not (fmt == "ftl" and k.startswith("-"))], nk)
        seq = list(ks)
        for _ in range(rng.choice([1, 1, 2])):
            seq.insert(rng.randrange(len(seq) + 1), rng.choice(ks))
        ref = [("rec", k, rng.choice(vis), 0) for k in seq]
        mode = n % 4
        l10n = []
        for i, (_, k, v, _) in enumerate(ref):
            last = all(r[1] != k for r in ref[i + 1:])
            if mode == 0:
                l10n.append(("rec", k, v, 0))
            elif mode == 1:
                l10n.append(("rec", k, v, 1))
            elif mode == 2:
                l10n.append(("rec", k, rng.choice(vis) if last else v, 0))
            else:
                l10n.append(("rec", k, v if last else rng.choice(vis), 0))
        case(ref, l10n, "dupcopy", blank=rng.random() < 0.3)
    # (b) spellings: same value, different raw text -> unchanged; another value -> changed
    mine = [2000 + i for i, sp in enumerate(SPELLINGS) if sp[0] == fmt]
    for a in mine:
        for b in mine:
            ref = [("rec", keys[0], 0, 0), ("rec", keys[2], a, 0), ("rec", keys[3], 3, 0)]
            l10n = [("rec", keys[3], 3, 0), ("rec", keys[2], b, 0)]
            case(ref, l10n, "spelling")
    # (c) Fluent: select expressions, terms, references, nested placeables — layouts of one entry are unchanged, other alternatives changed
    if fmt == "ftl":
        base = [("rec", k, ftl_vi(k, 0), 0) for k in FTL_SLOTS]
        for i, k in enumerate(FTL_SLOTS):
            for alt in range(len(FTL_AST[k])):
                for variant in (0, 1):
                    l10n = list(base)
                    l10n[i] = ("rec", k, ftl_vi(k, alt), variant)
                    case(base, l10n, "ftlast")
            case(base, base[:i] + base[i + 1:], "ftlast")
        for _ in range(ctx.n(60, 1500)):
            ref, l10n = [], []
            for k in rng.sample(FTL_SLOTS, rng.randrange(1, len(FTL_SLOTS) + 1)):
                a = rng.randrange(len(FTL_AST[k]))
                ref.append(("rec", k, ftl_vi(k, a), rng.randrange(2)))
                r = rng.random()
                if r < 0.4:
                    l10n.append(("rec", k, ftl_vi(k, a), rng.randrange(2)))
                elif r < 0.8:
                    l10n.append(("rec", k, ftl_vi(k, rng.randrange(len(FTL_AST[k]))), rng.randrange(2)))
            if rng.random() < 0.5:
                rng.shuffle(l10n)
            case(ref, l10n, "ftlast")
    return cases


# ------------------------------------------------------------------ cases
def derive(ref_recs, ops, added, order):
    """apply an edit script: ops[i] in keep / alt / revalue:<vi> / drop for the i-th reference record,
    added = [(position, key, vi)], order = permutation of the resulting list (or None)"""
    out = []
    for (key, vi), op in zip(ref_recs, ops):
        if op == "keep":
            out.append(("rec", key, vi, 0))
        elif op == "alt":
            out.append(("rec", key, vi, 1))
        elif op == "drop":
            continue
        else:
            out.append(("rec", key, int(op.split(":")[1]), 0))
    for pos, key, vi in added:
        out.insert(min(pos, len(out)), ("rec", key, vi, 0))
    if order is not None:
        out = [out[i] for i in order if i < len(out)]
    return out


def gen_cases(ctx, fmt):
    rng = ctx.rng("c03", fmt)
    keys = KEYS[fmt]
    cases = []
    # bounded exhaustive: three (thorough: four) reference records, every edit script over them
    nb = 3 if ctx.tier == "quick" else 4
    base = [(keys[i], i) for i in range(nb)]
    extra = [[], [(0, keys[nb], 3)], [(9, keys[nb + 1], 4)], [(1, keys[nb], 3), (9, keys[nb + 1], 4)]]
    for ops in itertools.product(["keep", "alt", "revalue:5", "drop"], repeat=nb):
        for added in extra:
            for rev in (False, True):
                l10n = derive(base, ops, added, None)
                if rev:
                    l10n = l10n[::-1]
                cases.append({"fmt": fmt, "ref": [("rec", k, v, 0) for k, v in base], "l10n": l10n, "blank": False,
                              "verdicts": None, "add": None, "kind": "exhaustive"})
    # second exhaustive family: empty values followed by further records / Fluent attribute edits
    fam = None
    if fmt in EMPTY_OK:
        # (key, reference value, re-value, second re-value)
        fam = [(keys[0], EMPTY, 3, 0), (keys[2], 0, EMPTY, 3), (keys[3], EMPTY, 4, 0)]
    elif fmt == "ftl":
        nV = len(VALUES)
        fam = [(keys[0], nV + 0, nV + 1, nV + 2),       # attribute text changed / attribute added
               (keys[2], nV + 3, nV + 4, nV + 5),       # attribute-only message
               (keys[3], nV + 7, nV + 8, nV + 6)]       # multi-line value: attribute text changed / attribute dropped
    if fam:
        fbase = [(k, v) for k, v, _, _ in fam]
        for ops in itertools.product(range(5), repeat=3):
            script = []
            for (k, v, r1, r2), o in zip(fam, ops):
                script.append(["keep", "alt", "revalue:%d" % r1, "revalue:%d" % r2, "drop"][o])
            for rev in (False, True):
                l10n = derive(fbase, script, [], None)
                if rev:
                    l10n = l10n[::-1]
                cases.append({"fmt": fmt, "ref": [("rec", k, v, 0) for k, v in fbase], "l10n": l10n, "blank": False,
                              "verdicts": None, "add": None, "kind": "exhaustive"})
    exhaustive = len(cases)

    def pick(k):
        return rng.choice(legal_vis(fmt, k))
    for n in range(ctx.n(260, 15000)):
        nref = rng.choice([0, 1, 2, 3, 4, 5, 6, 7, 8])
        dup_ref = rng.random() < 0.12
        pool_keys = list(keys)
        rng.shuffle(pool_keys)
        ref_keys = pool_keys[:nref]
        if dup_ref and ref_keys:
            ref_keys.insert(rng.randrange(len(ref_keys) + 1), rng.choice(ref_keys))
        ref_recs = []
        for k in ref_keys:
            vi = pick(k)
            if fmt == "po" and rng.random() < 0.3:
                vi = -1
            if fmt in EMPTY_OK and rng.random() < 0.1:
                vi = EMPTY
            ref_recs.append((k, vi))
        ops = []
        for k, vi in ref_recs:
            r = rng.random()
            if r < 0.3:
                ops.append("keep")
            elif r < 0.5:
                ops.append("alt" if vi >= 0 else "keep")
            elif r < 0.75:
                nvi = pick(k)
                sib = siblings(fmt, k, vi)
                if sib and rng.random() < 0.5:
                    nvi = rng.choice(sib)               # Fluent: same value text, other attributes
                if fmt in EMPTY_OK and rng.random() < 0.15:
                    nvi = EMPTY
                ops.append("revalue:%d" % nvi)
            else:
                ops.append("drop")
        fresh = [k for k in pool_keys if k not in ref_keys]
        added = []
        for k in fresh[:rng.choice([0, 0, 1, 1, 2, 3])]:
            added.append((rng.randrange(9), k, pick(k)))
        l10n = derive(ref_recs, ops, added, None)
        if l10n and rng.random() < 0.1:          # a duplicate key in the localization
            src = rng.choice(l10n)
            l10n.insert(rng.randrange(len(l10n) + 1), ("rec", src[1], pick(src[1]), 0))
        if rng.random() < 0.5:
            rng.shuffle(l10n)
        ref = [("rec", k, v, 0) for k, v in ref_recs]
        if rng.random() < 0.15:
            ref.insert(rng.randrange(len(ref) + 1), ("junk",))
        if rng.random() < 0.15:
            l10n.insert(rng.randrange(len(l10n) + 1), ("junk",))
        verdicts = None
        if fmt != "po" and rng.random() < 0.2:
            verdicts = {}
            for k in pool_keys:
                r = rng.random()
                if r < 0.25:
                    verdicts[k] = "warning"
                elif r < 0.5:
                    verdicts[k] = "ignore"
        add = None
        if rng.random() < 0.3:
            ks = list(keys)
            rng.shuffle(ks)
            add = [("rec", k, (-1 if (fmt == "po" and rng.random() < 0.3) else pick(k)), 0) for k in ks[:rng.randrange(5)]]
            if add and rng.random() < 0.2:
                add.append(add[0])
            if rng.random() < 0.3:
                add.insert(rng.randrange(len(add) + 1), ("junk",))
        cases.append({"fmt": fmt, "ref": ref, "l10n": l10n, "blank": rng.random() < 0.3, "verdicts": verdicts,
                      "add": add, "kind": "random"})
    return cases, exhaustive


def texts_of(case):
    fmt = case["fmt"]
    ref_text = print_file(fmt, case["ref"], case["blank"])
    l10n_text = print_file(fmt, case["l10n"], case["blank"])
    add_text = print_file(fmt, case["add"], False) if case["add"] is not None else None
    return ref_text, l10n_text, add_text


# ------------------------------------------------------------------ oracle
def key_wire(k):
    from impl.compare import key_wire as kw
    return kw(tuple(k) if isinstance(k, (list, tuple)) else k)


def expected(case):
    """expected sets, counts and word sums from the edit script alone (dict semantics: the last record of a key wins)"""
    fmt = case["fmt"]
    ref_map, l10n_map, ref_order = {}, {}, []
    for it in case["ref"]:
        if it[0] == "rec":
            k = tuple(it[1]) if isinstance(it[1], (list, tuple)) else it[1]
            if k not in ref_map:
                ref_order.append(k)
            ref_map[k] = it[2]
    for it in case["l10n"]:
        if it[0] == "rec":
            k = tuple(it[1]) if isinstance(it[1], (list, tuple)) else it[1]
            l10n_map[k] = it[2]
    exp = {"missing": [], "obsolete": set(), "changed": set(), "unchanged": set(), "keys": set(),
           "missing_w": 0, "changed_w": 0, "unchanged_w": 0, "distinct_ref": len(ref_order),
           "ref_nodup": len(ref_order) == sum(1 for it in case["ref"] if it[0] == "rec")}
    for k in ref_order:
        w = words(fmt, k, ref_map[k])
        if k not in l10n_map:
            exp["missing"].append(k)
            exp["missing_w"] += w
        elif is_binding(fmt, k):
            exp["keys"].add(k)
        elif sem(fmt, k, ref_map[k]) == sem(fmt, k, l10n_map[k]):
            exp["unchanged"].add(k)
            exp["unchanged_w"] += w
        else:
            exp["changed"].add(k)
            exp["changed_w"] += w
    exp["obsolete"] = {k for k in l10n_map if k not in ref_map}
    return exp


def oracle(case, r):
    """the property's claim checked on the implementation's own report; returns None or a message"""
    if "exc" in r:
        if r["exc"] == "Hang":
            return "comparison does not terminate"
        return "comparison raised %s: %s" % (r["exc"], r.get("msg"))
    v = r["r"]
    exp = expected(case)
    notes = v["canon"].split(" |", 1)[1].split()
    updates = v["canon"].split(" |", 1)[0][3:]
    if updates.count(";") != 0 or not updates:
        return "stats were pushed %d times, expected once" % (0 if not updates else updates.count(";") + 1)
    got_missing = [n[2:] for n in notes if n.startswith("M:")]
    got_obsolete = [n[2:] for n in notes if n.startswith("O:")]
    exp_missing = [key_wire(k) for k in exp["missing"]]
    if exp["ref_nodup"]:
        if got_missing != exp_missing:
            return "missing strings reported %s, expected (reference order) %s" % (got_missing, exp_missing)
    elif sorted(got_missing) != sorted(exp_missing):
        return "missing strings reported %s, expected %s" % (sorted(got_missing), sorted(exp_missing))
    if sorted(got_obsolete) != sorted(key_wire(k) for k in exp["obsolete"]):
        return "obsolete strings reported %s, expected %s" % (sorted(got_obsolete), sorted(key_wire(k) for k in exp["obsolete"]))
    for name in ("changed", "unchanged"):
        got = sorted(v["hooks"][name])
        want = sorted(key_wire(k) for k in exp[name])
        if got != want:
            return "%s strings are %s, expected %s" % (name, got, want)
    s = v["summary"]
    want = {"missing": len(exp["missing"]), "obsolete": len(exp["obsolete"]), "changed": len(exp["changed"]),
            "unchanged": len(exp["unchanged"]), "keys": len(exp["keys"]), "report": 0,
            "missing_w": exp["missing_w"], "changed_w": exp["changed_w"], "unchanged_w": exp["unchanged_w"]}
    for k, w in want.items():
        if s.get(k, 0) != w:
            return "summary %s = %s, expected %s" % (k, s.get(k, 0), w)
    if s.get("missing", 0) + s.get("changed", 0) + s.get("unchanged", 0) + s.get("keys", 0) != exp["distinct_ref"]:
        return "missing + changed + unchanged + keys = %d, but the reference has %d distinct strings" % (
            s.get("missing", 0) + s.get("changed", 0) + s.get("unchanged", 0) + s.get("keys", 0), exp["distinct_ref"])
    if "add" in v and case["add"] is not None:
        recs = [it for it in case["add"] if it[0] == "rec"]
        a = v["add"]["summary"]
        wm = want["missing"] + len(recs)
        ww = want["missing_w"] + sum(words(case["fmt"], it[1], it[2]) for it in recs)
        if a.get("missing", 0) != wm or a.get("missing_w", 0) != ww:
            return "after adding a missing file with %d strings: missing = %s (expected %d), missing_w = %s (expected %d)" % (
                len(recs), a.get("missing", 0), wm, a.get("missing_w", 0), ww)
        for k in ("obsolete", "changed", "unchanged", "keys", "changed_w", "unchanged_w", "report"):
            if a.get(k, 0) != want[k]:
                return "adding a missing file changed %s from %s to %s" % (k, want[k], a.get(k, 0))
    return None


def classify(v):
    return v.get("finding")


def driver_lines(case, v):
    def ents(es):
        return " ".join("%s %d %d %d %d" % tuple(e) for e in es)
    line = "c03.cmp %d %d %s %s" % (len(v["ref"]), len(v["l10n"]), ents(v["ref"]), ents(v["l10n"]))
    if case["verdicts"]:
        code = {"warning": 1, "ignore": 2}
        line += " " + " ".join("%s %d" % (key_wire(k), code[c]) for k, c in sorted(case["verdicts"].items()))
    lines = [" ".join(line.split())]
    if "add" in v:
        lines.append(" ".join(("c03.add 0 %d %s" % (len(v["add"]["ents"]), ents(v["add"]["ents"]))).split()))
    if v.get("ftl"):
        # round 4: the same comparison from the fluent.syntax ASTs alone (count_words / equals are the Lean functions)
        fl = v["ftl"]
        if case["verdicts"]:
            code = {"warning": 1, "ignore": 2}
            fl += " " + " ".join("%s %d" % (key_wire(k), code[c]) for k, c in sorted(case["verdicts"].items()))
        lines.append(fl)
    return lines


WORD_TOKENS = ["<br>", "<br/>", "<br \n/>", "<b>", "</b>", " ", "\n", "a", "bc", "<", ">", "/", "\t", "<a href='x'>", "\u00a0",
               "\u2003", "\x1c", "\u00e9", "<br", "br>", "<1>", "<_x y>", "\x85", "\u200b", "w", "two words", " x ", "y\nz"]


def run(ctx):
    out = Outcome()
    out.rule = ("per format (properties, dtd, ini, inc, ftl, po, android): three reference records x every edit script "
                "(keep / respell / re-value / drop per record, x 4 sets of added records, x 2 orders = 512; thorough: four records = 2048) "
                "exhaustively, a second exhaustive family of 250 scripts with empty values followed by further records (properties, dtd, ini, "
                "inc, android) resp. Fluent attribute edits (attribute text changed / attribute added or dropped / attribute-only messages / "
                "multi-line values), plus seeded random "
                "(records, edit script) pairs with up to 8 reference records, duplicates, junk lines, filters and a following missing-file add; "
                "round 4 directed families: verbatim / respelled / re-valued copies of files with duplicated keys, every ordered pair of raw "
                "spellings of one value (\\uXXXX, line continuation, &amp; / &#38; / &#x26;, CDATA, split PO strings) and of checker-relevant "
                "values, Fluent entries with select expressions / terms / references / nested placeables in two layouts (every alternative "
                "against the reference, and the whole equals matrix of the pool); "
                "sessions: ONE comparer with 1-2 project observers through 2-3 locales x 1-5 files (compare / add / remove, files without "
                "parser, unreadable reference or localization, text-level jobs with the full checker model for properties/ini/inc/po, merge "
                "copies), locale-major or shuffled order; KeyedTuple membership / indexing with str, tuple, int, entity-object and unhashable "
                "arguments; "
                "cross-format histories in ONE PROCESS (each history in a process of its own, one or two comparers): consecutive compare / add "
                "calls on files of DIFFERENT formats that share keys and RAW value texts whose unescaped values differ by format (\\n \\t "
                "\\uXXXX \\\\ in .properties / gettext, &#32; &nbsp; &lt;br&gt; in DTD, literal elsewhere) — every ordered pair of formats, "
                "every raw text as a missing file of all seven formats in a rotating order and backwards, random call sequences in both orders; "
                "judged per call against the records (word sums by hand-annotated counts = an independent unescaper + counter) AND against the "
                "same call run alone in a fresh process; "
                "count_words: every pool value in every format plus random markup token sequences. non-trivial = at least two of "
                "missing/obsolete/changed/unchanged/keys are non-zero (sessions: at least two locales with non-zero counters); distinct = "
                "distinct (format, canonical report)")
    for fmt in FORMATS:
        cases, exhaustive = gen_cases(ctx, fmt)
        directed = gen_directed(ctx, fmt)
        cases += directed
        out.count("%s.directed" % fmt, len(directed))
        out.count("%s.cases" % fmt, len(cases))
        out.count("%s.exhaustive" % fmt, exhaustive)
        args = []
        for c in cases:
            rt, lt, at = texts_of(c)
            c["texts"] = (rt, lt, at)
            args.append([fmt, rt, lt, c["verdicts"], at])
        res = pool.pmap("impl.compare", "impl_compare", args, timeout=10.0, batch=24)
        lines, owner = [], []
        for i, (c, r) in enumerate(zip(cases, res)):
            if "r" in r:
                for l in driver_lines(c, r["r"]):
                    owner.append(i)
                    lines.append(l)
        model = C.run_driver_parallel(lines) if ctx.model_ok else [None] * len(lines)
        by_case = {}
        for i, mo in zip(owner, model):
            by_case.setdefault(i, []).append(mo)
        for i, (c, r) in enumerate(zip(cases, res)):
            out.evaluations += 1
            inp = {"fmt": fmt, "reference": c["texts"][0], "localized": c["texts"][1], "verdicts": c["verdicts"],
                   "add": c["texts"][2], "case": {k: c[k] for k in ("ref", "l10n", "blank", "add")}}
            # filters are outside the property ("with nothing filtered"): such cases are judged by the correspondence only
            bad = oracle(c, r) if (not c["verdicts"] or "exc" in r) else None
            if "r" in r:
                v = r["r"]
                s = v["summary"]
                nz = sum(1 for k in ("missing", "obsolete", "changed", "unchanged", "keys") if s.get(k, 0))
                if nz >= 2:
                    out.nontrivial.add((fmt, v["canon"]))
                out.count("%s.categories=%d" % (fmt, nz))
                if v["checker"][0] or v["checker"][1]:
                    out.count("%s.with_checker_messages" % fmt)
                if len(out.samples) < 14 and nz >= 4 and out.distribution.get("sampled." + fmt, 0) < 2:
                    out.count("sampled." + fmt)
                    out.samples.append({"fmt": fmt, "reference": c["texts"][0], "localized": c["texts"][1], "report": v["canon"]})
            if bad:
                out.violations.append({"what": "%s: %s" % (fmt, bad), "input": inp})
                out.count("%s.violations" % fmt)
                continue
            if "r" not in r:
                continue
            v = r["r"]
            mos = by_case.get(i, [])
            if v["unknown"] or ("add" in v and v["add"]["unknown"]):
                out.disagreements.append({"op": "c03.cmp", "input": inp, "unrecognised details": v["unknown"]})
                continue
            if mos and mos[0] is not None:
                if mos[0] != v["canon"]:
                    out.disagreements.append({"op": "c03.cmp", "input": inp, "impl": v["canon"], "model": mos[0]})
                    continue
                if "add" in v and mos[1] != v["add"]["canon"]:
                    out.disagreements.append({"op": "c03.add", "input": inp, "impl": v["add"]["canon"], "model": mos[1]})
                    continue
                if v.get("ftl") and mos[-1] != v["canon"]:
                    out.disagreements.append({"op": "c03.ftlcmp", "input": inp, "impl": v["canon"], "model": mos[-1]})
                    continue
            # the summary is the accumulated updates plus one error / warning per notification
            notes = v["canon"].split(" |", 1)[1].split()
            ne = sum(1 for n in notes if n.startswith("E:")) + v["checker"][0]
            nw = sum(1 for n in notes if n.startswith("W:")) + v["checker"][1]
            s = v["summary"]
            if (s.get("errors", 0), s.get("warnings", 0)) != (ne, nw):
                out.disagreements.append({"op": "summary", "input": inp, "summary": s, "errors": ne, "warnings": nw})
            elif not c["verdicts"] and v["observer_summary"] != s:
                out.disagreements.append({"op": "observer-summary", "input": inp, "list": s, "observer": v["observer_summary"]})
    run_words(ctx, out)
    run_ftl_pool(ctx, out)
    run_sessions(ctx, out)
    run_xformat(ctx, out)
    run_keyed(ctx, out)
    cleanup()
    return out


def cleanup():
    """remove the scratch directories of worker processes that are gone"""
    import glob
    import os
    import shutil
    from impl.compare import ROOT
    for d in glob.glob(os.path.join(ROOT, "run-*")):
        try:
            with open("/proc/%d/cmdline" % int(d.rsplit("-", 1)[1]), "rb") as f:
                alive = b"worker.py" in f.read()
        except (ValueError, OSError):
            alive = False
        if not alive:
            shutil.rmtree(d, ignore_errors=True)


def run_words(ctx, out):
    """count_words: model vs implementation, and the implementation vs the annotated pool"""
    rng = ctx.rng("c03", "words")
    # (a) every pool value through the real parser of every format: parsed value and word count by construction
    args, meta = [], []
    for fmt in FORMATS:
        key = KEYS[fmt][0]
        for vi in legal_vis(fmt, key):
            for variant in (0, 1):
                args.append([fmt, print_file(fmt, [("rec", key, vi, variant)], False)])
                meta.append((fmt, vi, variant))
    res = pool.pmap("impl.compare", "impl_words", args, timeout=5.0)
    lits = []
    for (fmt, vi, variant), a, r in zip(meta, args, res):
        out.evaluations += 1
        inp = {"fmt": fmt, "text": a[1]}
        if "r" not in r or r["r"] is None:
            out.violations.append({"what": "%s: a one-record file did not parse into one entity (%s)" % (fmt, r), "input": inp})
            continue
        val, w = r["r"]
        shown = fval(vi) if fmt == "ftl" else VALUES[vi][0]
        if fmt != "ftl" and val != VALUES[vi][0]:
            out.violations.append({"what": "%s: value %r read back as %r" % (fmt, shown, val), "input": inp})
        elif w != words(fmt, KEYS[fmt][0], vi):
            out.violations.append({"what": "%s: count_words(%r) = %d, expected %d" % (fmt, shown, w, words(fmt, KEYS[fmt][0], vi)),
                                   "input": inp})
        if fmt != "ftl":
            lits.append(val)
    # (b) random markup: the base Entry.count_words vs the model
    for _ in range(ctx.n(1500, 40000)):
        lits.append("".join(rng.choice(WORD_TOKENS) for _ in range(rng.randrange(0, 9))))
    for n in range(4):
        for toks in itertools.product(WORD_TOKENS[:9], repeat=n):
            lits.append("".join(toks))
    lits = sorted(set(lits))
    res = pool.pmap("impl.compare", "impl_words_literal", [[v] for v in lits], timeout=5.0, batch=256)
    model = C.run_driver_parallel(["c03.words " + C.enc(v) for v in lits]) if ctx.model_ok else [None] * len(lits)
    for v, r, mo in zip(lits, res, model):
        out.evaluations += 1
        if "r" not in r:
            out.violations.append({"what": "count_words raised %s" % r, "input": {"value": v}})
            continue
        out.count("words=%d" % min(r["r"], 5))
        if r["r"] != x_count(v):
            # the documented count by an independent scanner (line breaks, tags dropped, white-space separated words)
            out.violations.append({"what": "count_words(%r) = %d, expected %d" % (v, r["r"], x_count(v)), "input": {"value": v}})
            continue
        if r["r"] >= 2 and "<" in v:
            out.nontrivial.add(("words", v))
        if mo is not None and mo != str(r["r"]):
            out.disagreements.append({"op": "c03.words", "value": v, "impl": r["r"], "model": mo})


# ------------------------------------------------------------------ round 4: Fluent count_words / equals on the AST
def run_ftl_pool(ctx, out):
    """every alternative of every slot in both layouts, one file: word counts and the whole `equals` matrix by construction
    (same id, value and — for messages — attributes <=> equals), and model vs implementation on the same ASTs"""
    entries = [(k, alt, v) for k in FTL_SLOTS for alt in FTL_AST[k] for v in (0, 1)]
    text = "\n\n".join(ftl_render(k, alt, v) for k, alt, v in entries) + "\n"
    r = pool.pmap("impl.compare", "impl_ftl_pool", [[text]], timeout=30.0)[0]
    inp = {"fmt": "ftl", "text": text}
    if "r" not in r:
        out.violations.append({"what": "ftl: parsing the pool of select expressions failed: %s" % r, "input": inp})
        return
    v = r["r"]
    if v["keys"] != [k for k, _, _ in entries]:
        out.violations.append({"what": "ftl: the pool file parsed into entries %s" % v["keys"], "input": inp})
        return
    lines = []
    for i, (k, alt, lay) in enumerate(entries):
        out.evaluations += 1
        if v["words"][i] != ftl_words(k, alt):
            out.violations.append({"what": "ftl: count_words = %d, expected %d (text elements of value%s, all variants of a select)" % (
                v["words"][i], ftl_words(k, alt), "" if k.startswith("-") else " and attributes"),
                "input": {"fmt": "ftl", "text": ftl_render(k, alt, lay)}})
        out.nontrivial.add(("ftlwords", v["ser"][i]))
        lines.append("c03.ftlwords " + v["ser"][i])
    pairs = [(i, j) for i in range(len(entries)) for j in range(len(entries))]
    for i, j in pairs:
        out.evaluations += 1
        (k1, a1, _), (k2, a2, _) = entries[i], entries[j]
        want = ftl_sig(k1, a1) == ftl_sig(k2, a2)
        if k1.startswith("-") != k2.startswith("-"):
            continue                  # a term against a message: never compared by the comparer (their keys differ)
        if bool(v["eq"][i][j]) != want:
            out.violations.append({"what": "ftl: equals is %s for two entries that %s" % (bool(v["eq"][i][j]), "differ only in comments, spans "
                                   "and layout" if want else "differ in value or attributes"),
                                   "input": {"fmt": "ftl", "a": ftl_render(k1, a1, entries[i][2]), "b": ftl_render(k2, a2, entries[j][2])}})
        lines.append("c03.ftleq %s %s" % (v["ser"][i], v["ser"][j]))
    model = C.run_driver_parallel(lines) if ctx.model_ok else [None] * len(lines)
    n = len(entries)
    for i in range(n):
        if model[i] is not None and model[i] != str(v["words"][i]):
            out.disagreements.append({"op": "c03.ftlwords", "entry": ftl_render(*entries[i]), "impl": v["words"][i], "model": model[i]})
    pos = n
    for i, j in pairs:
        if entries[i][0].startswith("-") != entries[j][0].startswith("-"):
            continue
        impl = "%d %d [%s]" % (v["eq"][i][j], v["eq"][j][i], ",".join(str(x) for x in v["attrs"][i][j]))
        if model[pos] is not None and model[pos] != impl:
            out.disagreements.append({"op": "c03.ftleq", "a": ftl_render(*entries[i]), "b": ftl_render(*entries[j]), "impl": impl, "model": model[pos]})
        pos += 1
    out.count("ftlpool.entries", n)


# ------------------------------------------------------------------ round 4: ONE comparer, a sequence of (locale, file) jobs
LOCALES = ["de", "fr", "ja", "pt-BR"]
SESS_NAMES = [("properties", "browser/a.properties"), ("properties", "toolkit/b.properties"), ("dtd", "browser/a.dtd"),
              ("ini", "browser/a.ini"), ("inc", "toolkit/defines.inc"), ("ftl", "browser/a.ftl"), ("ftl", "toolkit/b.ftl"),
              ("po", "po/a.po"), ("android", "res/values/strings.xml"), ("properties", "browser/sub/a.properties")]
NP_NAMES = ["browser/README.txt", "toolkit/image.png"]
TEXT_LEVEL = ("properties", "ini", "inc", "po")
PROPS_SPELL = [2000 + i for i, sp in enumerate(SPELLINGS) if sp[0] == "properties"]
COUNTERS = ("missing", "missing_w", "report", "obsolete", "changed", "changed_w", "unchanged", "unchanged_w", "keys")


def sess_pair(rng, fmt):
    """a (reference records, localization items) pair as in the random family of gen_cases, without filters"""
    keys = KEYS[fmt]
    pool_keys = list(keys)
    rng.shuffle(pool_keys)
    ref_keys = pool_keys[:rng.choice([1, 2, 3, 4, 5, 6])]
    if rng.random() < 0.15:
        ref_keys.insert(rng.randrange(len(ref_keys) + 1), rng.choice(ref_keys))
    ref_recs = [(k, (-1 if (fmt == "po" and rng.random() < 0.3) else rng.choice(legal_vis(fmt, k)))) for k in ref_keys]
    if fmt == "properties" and rng.random() < 0.5:
        # raw spellings and values the checkers report about
        ref_recs = [(k, rng.choice(PROPS_SPELL) if rng.random() < 0.6 else vi) for k, vi in ref_recs]
    return ref_recs


def sess_l10n(rng, fmt, ref_recs):
    ops = []
    for k, vi in ref_recs:
        r = rng.random()
        if r < 0.35:
            ops.append("keep")
        elif r < 0.5:
            ops.append("alt" if vi >= 0 else "keep")
        elif r < 0.75:
            ops.append("revalue:%d" % (rng.choice(PROPS_SPELL) if (fmt == "properties" and vi >= 2000) else rng.choice(legal_vis(fmt, k))))
        else:
            ops.append("drop")
    fresh = [k for k in KEYS[fmt] if k not in [r[0] for r in ref_recs]]
    rng.shuffle(fresh)
    added = [(rng.randrange(9), k, rng.choice(legal_vis(fmt, k))) for k in fresh[:rng.choice([0, 0, 1, 2])]]
    l10n = derive(ref_recs, ops, added, None)
    if l10n and rng.random() < 0.1:
        src = rng.choice(l10n)
        l10n.insert(rng.randrange(len(l10n) + 1), ("rec", src[1], rng.choice(legal_vis(fmt, src[1])), 0))
    if rng.random() < 0.4:
        rng.shuffle(l10n)
    if rng.random() < 0.12:
        l10n.insert(rng.randrange(len(l10n) + 1), ("junk",))
    return l10n


def gen_session(rng):
    locales = sorted(rng.sample(LOCALES, rng.choice([2, 2, 3])))
    style = rng.choice(["flat", "flat", "module"])
    names = rng.sample(SESS_NAMES, rng.choice([1, 2, 3, 4]))
    if rng.random() < 0.35:
        names.append((None, rng.choice(NP_NAMES)))
    files, jobs, cases = [], [], []

    def add_file(path, name, locale, text, isdir=False):
        if style == "module":
            module, _, rest = name.partition("/")
            f = {"file": rest, "module": module, "locale": locale}
        else:
            f = {"file": "%s/%s" % (loc, name), "module": None, "locale": locale}
        f.update({"path": path, "text": text, "dir": isdir, "name": name})
        files.append(f)
        return len(files) - 1
    refs = {}
    for fmt, name in names:
        if fmt is None:
            refs[name] = (None, None, "not a localizable file\n")
        else:
            ref_recs = sess_pair(rng, fmt)
            ref = [("rec", k, v, 0) for k, v in ref_recs]
            if rng.random() < 0.12:
                ref.insert(rng.randrange(len(ref) + 1), ("junk",))
            refs[name] = (ref_recs, ref, print_file(fmt, ref, False))
    for loc in locales:
        for fmt, name in names:
            if rng.random() < 0.12:
                continue                                  # this locale does not have the file at all, and is not asked about it
            ref_recs, ref, ref_text = refs[name]
            r = rng.random()
            kind = "cmp" if r < 0.68 else "add" if r < 0.8 else "rm" if r < 0.88 else "re" if r < 0.92 else "le" if r < 0.95 else "addre"
            if style == "module" and kind in ("re", "addre"):
                kind = "cmp"                              # a reference File has no locale: Tree segments with None are not modelled
            if fmt is None and kind in ("re", "le", "addre"):
                kind = "cmp"
            l10n = sess_l10n(rng, fmt, ref_recs) if fmt is not None else None
            l10n_text = print_file(fmt, l10n, False) if fmt is not None else "something else\n"
            ri = add_file("en/%s/%s" % (loc, name), name, None, None if kind in ("re", "addre", "rm") else ref_text, isdir=kind in ("re", "addre"))
            li = add_file("l10n/%s/%s" % (loc, name), name, loc, None if kind in ("add", "addre", "le") else l10n_text, isdir=kind == "le")
            level = "text" if (fmt in TEXT_LEVEL and rng.random() < 0.6) else "ents"
            op = {"cmp": "cmp", "re": "cmp", "le": "cmp", "add": "add", "addre": "add", "rm": "rm"}[kind]
            # no merge file for entity-level comparisons (staging needs the texts) and where the copy source is a directory
            merge = rng.random() < 0.4 and not (op == "cmp" and level == "ents" and fmt is not None and kind == "cmp") and kind != "addre"
            jobs.append({"op": op, "ref": ri, "l10n": li, "merge": merge, "level": level, "fmt": fmt})
            cases.append({"kind": kind, "fmt": fmt, "name": name, "locale": loc,
                          "case": None if fmt is None else {"fmt": fmt, "ref": ref, "l10n": l10n, "blank": False, "verdicts": None, "add": None}})
    if rng.random() < 0.3:
        order = list(range(len(jobs)))
        rng.shuffle(order)
        jobs = [jobs[i] for i in order]
        cases = [cases[i] for i in order]
    # project observers
    r = rng.random()
    judged = True
    if r < 0.4:
        observers = [None]
    elif r < 0.5:
        observers = [None, None]
    else:
        # two projects: one owns browser/, the other everything else; a file that is not one's own is ignored altogether
        observers = [[], []]
        for i, f in enumerate(files):
            owner = 0 if f["name"].startswith("browser/") else 1
            observers[1 - owner].append([i, "*", "ignore"])
        if rng.random() < 0.3:
            # entity-level rules: outside the property ("nothing filtered"), judged by the correspondence only
            judged = False
            for i, f in enumerate(files):
                if f["locale"] is not None and rng.random() < 0.7:
                    fmt = next((c["fmt"] for c, j in zip(cases, jobs) if j["l10n"] == i), None)
                    if fmt:
                        for k in rng.sample(KEYS[fmt], 3):
                            observers[rng.randrange(2)].insert(0, [i, list(k) if isinstance(k, tuple) else k, rng.choice(["warning", "ignore"])])
                    if rng.random() < 0.4:
                        # the file itself: add() stops after missingFile only when ALL projects ignore it
                        for o in rng.choice([[0], [1], [0, 1]]):
                            observers[o].insert(0, [i, None, rng.choice(["ignore", "ignore", "warning"])])
    quiet = rng.choice([0, 0, 0, 0, 1, 2, 3])
    owners = []
    for i, f in enumerate(files):
        owners.append([n for n, rules in enumerate(observers) if rules is None or not any(r[0] == i and r[1] == "*" for r in rules)])
    return {"spec": {"quiet": quiet, "files": files, "observers": observers, "jobs": jobs}, "cases": cases, "judged": judged,
            "owners": owners}


def session_oracle(sess, v):
    """per job the single-comparison oracle on what that job notified and pushed; then every summary = the per-locale sum of the
    expected per-file counts, for the list and for every project observer (over the files it owns)"""
    spec = sess["spec"]
    nobs = len(spec["observers"])
    want = {"L": {}, "O": [dict() for _ in range(nobs)]}

    def bump(fi, key, n):
        loc = str(spec["files"][fi]["locale"])
        for tgt in [want["L"]] + [want["O"][o] for o in sess["owners"][fi]]:
            tgt.setdefault(loc, {}).setdefault(key, 0)
            tgt[loc][key] += n
    for n, (job, c, jo) in enumerate(zip(spec["jobs"], sess["cases"], v["jobs"])):
        where = "job %d (%s %s, locale %s)" % (n, c["kind"], c["name"], c["locale"])
        notes = [x for x in jo["notes"]]
        for fi, note, rv in notes:
            if note.startswith("E:"):
                bump(fi, "errors", 1)
            elif note.startswith("W:"):
                bump(fi, "warnings", 1)
        if any(fi not in (job["ref"], job["l10n"]) for fi, _, _ in notes):
            return where + ": a notification names a file of another job"
        parsed = c["fmt"] is not None
        if c["kind"] == "cmp" and parsed:
            if len(jo["pushes"]) != 1 or jo["pushes"][0][0] != job["l10n"]:
                return where + ": stats were pushed %d times, expected once for the localized file" % len(jo["pushes"])
            if any(fi != job["l10n"] for fi, _, _ in notes):
                return where + ": a notification of a comparison names another file than the localized one"
            upd = jo["pushes"][0][1]
            canon = "ok " + ",".join("%s=%d" % kv for kv in upd.items()) + " |" + "".join(
                " " + note for _, note, _ in notes if note[:2] in ("M:", "O:"))
            bad = oracle(c["case"], {"r": {"canon": canon, "hooks": jo["hooks"], "summary": upd}})
            if bad:
                return where + ": " + bad
            for k in COUNTERS:
                bump(job["l10n"], k, upd.get(k, 0))
        elif c["kind"] == "add" and parsed:
            recs = [it for it in c["case"]["ref"] if it[0] == "rec"]
            w = sum(words(c["fmt"], it[1], it[2]) for it in recs)
            got = {}
            for fi, st in jo["pushes"]:
                if fi != job["l10n"]:
                    return where + ": stats pushed for another file"
                for k, x in st.items():
                    got[k] = got.get(k, 0) + x
            if got != {"missing": len(recs), "missing_w": w}:
                return where + ": a missing file with %d strings (%d words) pushed %s" % (len(recs), w, got)
            if [[fi, note] for fi, note, _ in notes] != [[job["l10n"], "F:file"]]:
                return where + ": notifications %s, expected one missingFile for the localized file" % [x[:2] for x in notes]
            bump(job["l10n"], "missing", len(recs))
            bump(job["l10n"], "missing_w", w)
        else:
            if jo["pushes"]:
                return where + ": stats pushed %s, expected none" % jo["pushes"]
            R, L = job["ref"], job["l10n"]
            # which file each notification is about: an unreadable reference is reported for the REFERENCE file
            exp_notes = {"cmp": [], "add": [[L, "F:file"]], "rm": [[L, "R:file"]], "re": [[R, "E:other"]], "le": [[L, "E:other"]],
                         "addre": [[L, "F:file"], [R, "E:other"]]}[c["kind"]]
            if [[fi, note] for fi, note, _ in notes] != exp_notes:
                return where + ": notifications (file, kind) %s, expected %s" % ([x[:2] for x in notes], exp_notes)
    # the sums
    for who, got, exp in [("the list", v["summary"]["L"], want["L"])] + [
            ("project observer %d" % i, v["summary"]["O"][i], want["O"][i]) for i in range(nobs)]:
        for loc in sorted(set(got) | set(exp)):
            for k in ("errors", "warnings") + COUNTERS:
                g, e = got.get(loc, {}).get(k, 0), exp.get(loc, {}).get(k, 0)
                if g != e:
                    return "summary of %s for locale %s: %s = %d, expected the sum over that locale's files = %d" % (who, loc, k, g, e)
    return None


def directed_sessions():
    """add() / remove() of one file under every combination of file-level verdicts of two project observers, at every quiet
    level that changes what is shown — outside the property (filters), judged by the correspondence"""
    out = []
    text = print_file("properties", [("rec", "alpha", 0, 0), ("rec", "beta", 2, 0)], False)
    for op in ("add", "rm"):
        for v0 in ("error", "warning", "ignore"):
            for v1 in ("error", "warning", "ignore"):
                for quiet in (0, 2):
                    files = [{"file": "de/browser/a.properties", "module": None, "locale": None, "path": "en/de/browser/a.properties",
                              "text": text if op == "add" else None, "dir": False, "name": "browser/a.properties"},
                             {"file": "de/browser/a.properties", "module": None, "locale": "de", "path": "l10n/de/browser/a.properties",
                              "text": None if op == "add" else text, "dir": False, "name": "browser/a.properties"}]
                    observers = [[[1, None, v0]], [[1, None, v1]]]
                    jobs = [{"op": op, "ref": 0, "l10n": 1, "merge": False, "level": "ents", "fmt": "properties"}]
                    out.append({"spec": {"quiet": quiet, "files": files, "observers": observers, "jobs": jobs},
                                "cases": [{"kind": op, "fmt": "properties", "name": "browser/a.properties", "locale": "de", "case": None}],
                                "judged": False, "owners": [[0, 1], [0, 1]]})
    return out


def run_sessions(ctx, out):
    rng = ctx.rng("c03", "sessions")
    sessions = [gen_session(rng) for _ in range(ctx.n(110, 2500))] + directed_sessions()
    res = pool.pmap("impl.compare", "impl_session", [[s["spec"]] for s in sessions], timeout=20.0, batch=6)
    lines = [r["r"]["line"] if "r" in r else "c03.sess" for r in res]
    model = C.run_driver_parallel(lines) if ctx.model_ok else [None] * len(lines)
    for s, r, mo in zip(sessions, res, model):
        out.evaluations += 1
        inp = {"session": s["spec"], "cases": s["cases"], "owners": s["owners"], "judged": s["judged"]}
        if "r" not in r:
            out.violations.append({"what": "session: a job sequence on one comparer raised %s: %s" % (r.get("exc"), r.get("msg")), "input": inp})
            continue
        v = r["r"]
        out.count("session.jobs", len(s["spec"]["jobs"]))
        out.count("session.locales=%d" % len({c["locale"] for c in s["cases"]}))
        for c in s["cases"]:
            out.count("session.kind." + c["kind"])
        if s["judged"]:
            # with two project observers every file is owned by one of them: nothing is filtered out of the list's view
            bad = session_oracle(s, v)
            if bad:
                out.violations.append({"what": "session: " + bad, "input": inp})
                continue
        if len([1 for loc, d in v["summary"]["L"].items() if any(d.values())]) >= 2:
            out.nontrivial.add(("session", v["canon"]))
        if mo is not None and mo != v["canon"]:
            out.disagreements.append({"op": "c03.sess", "input": inp, "impl": v["canon"], "model": mo})


# ------------------------------------------------------------------ round 5: ONE PROCESS, jobs of DIFFERENT formats that share keys and raw texts
def x_files(n, fmt, loc, ref_text, l10n_text):
    """the two File entries of call number `n` (flat layout, as compareProjects builds them)"""
    name = "browser/" + XEXT[fmt] % n
    out = []
    for root, locale, text in (("en", None, ref_text), ("l10n", loc, l10n_text)):
        out.append({"file": "%s/%s" % (loc, name), "module": None, "locale": locale, "path": "%s/%s/%s" % (root, loc, name),
                    "text": text, "dir": False, "name": name})
    return name, out


def x_job(rng, fmt, assign, kind, loc, edits=None, extra=True, alt=None):
    """one job of format `fmt`: the reference holds key -> raw text as `assign` says (where the format can hold that text);
    the localization keeps / re-values / drops per record (`edits`: a fixed list of these, else random); `alt`: key -> the raw
    text a re-valued record gets (so that the same pair of raw texts meets in several formats), else a random one"""
    ref = [("rec", x_key(fmt, k), 3000 + xi, 0) for k, xi in assign if XRAW[xi][1][fmt] is not None]
    if extra and rng.random() < 0.3:
        # a record of the format's own pool next to the shared ones
        k = rng.choice([k for k in KEYS[fmt] if (k[0] if fmt == "po" else k) not in XKEYS])
        ref.insert(rng.randrange(len(ref) + 1), ("rec", k, rng.choice([v for v in legal_vis(fmt, k) if v < len(VALUES) and v != EMPTY]), 0))
    l10n = []
    if kind == "cmp":
        ok = [3000 + i for i in range(len(XRAW)) if XRAW[i][1][fmt] is not None]
        for i, it in enumerate(ref):
            e = edits[i % len(edits)] if edits else rng.choice(["keep", "keep", "revalue", "revalue", "drop"])
            if e == "keep" or (e == "revalue" and it[2] < 3000):
                l10n.append(it)
            elif e == "revalue":
                k = it[1][0] if fmt == "po" else it[1]
                if alt and k in alt and 3000 + alt[k] in ok and 3000 + alt[k] != it[2]:
                    l10n.append(("rec", it[1], 3000 + alt[k], 0))
                else:
                    l10n.append(("rec", it[1], rng.choice([v for v in ok if v != it[2]]), 0))
        if edits is None:
            spare = [k for k in XKEYS if x_key(fmt, k) not in [it[1] for it in ref]]
            if spare and rng.random() < 0.3:
                l10n.insert(rng.randrange(len(l10n) + 1), ("rec", x_key(fmt, rng.choice(spare)), rng.choice(ok), 0))
            if rng.random() < 0.3:
                rng.shuffle(l10n)
    return {"fmt": fmt, "kind": kind, "loc": loc, "ref": ref, "l10n": l10n}


def x_history(rng, jobs, ncomp=1, nobs=1):
    """jobs (x_job results, in call order) -> comparer specs (as for impl_session), the calls, and the oracle's cases"""
    specs = [{"quiet": 0, "files": [], "observers": [None] * nobs, "jobs": []} for _ in range(ncomp)]
    cases = [[] for _ in range(ncomp)]
    calls = []
    for n, j in enumerate(jobs):
        c = rng.randrange(ncomp) if ncomp > 1 else 0
        fmt = j["fmt"]
        ref_text = print_file(fmt, j["ref"], False)
        l10n_text = print_file(fmt, j["l10n"], False) if j["kind"] == "cmp" else None
        name, fs = x_files(n, fmt, j["loc"], ref_text, l10n_text)
        spec = specs[c]
        ri = len(spec["files"])
        spec["files"] += fs
        level = "text" if (fmt in TEXT_LEVEL and rng.random() < 0.7) else "ents"
        spec["jobs"].append({"op": j["kind"], "ref": ri, "l10n": ri + 1, "merge": False, "level": level, "fmt": fmt})
        cases[c].append({"kind": j["kind"], "fmt": fmt, "name": name, "locale": j["loc"],
                         "case": {"fmt": fmt, "ref": j["ref"], "l10n": j["l10n"], "blank": False, "verdicts": None, "add": None}})
        calls.append([c, len(spec["jobs"]) - 1])
    return {"specs": specs, "calls": calls, "cases": cases,
            "owners": [[list(range(nobs)) for _ in spec["files"]] for spec in specs]}


def gen_xhistories(ctx):
    rng = ctx.rng("c03", "xformat")
    hists = []

    def both(h, tag):
        # the same calls in both orders
        hists.append(dict(h, tag=tag))
        hists.append(dict(h, calls=h["calls"][::-1], tag=tag + ".reversed"))
    # (a) every ordered pair of formats: compare f1, compare f2, then a missing file of each, the SAME keys and raw texts
    pairs = [(f1, f2) for f1 in FORMATS for f2 in FORMATS if f1 != f2]
    for n, (f1, f2) in enumerate(pairs):
        keys = [XKEYS[(n + i) % 5] for i in range(3)] + ["openKey"]
        assign = [(k, (3 * n + 2 * i) % len(XRAW)) for i, k in enumerate(keys)]
        jobs = [x_job(rng, f1, assign, "cmp", "de", ["keep", "revalue", "drop", "keep"], extra=False),
                x_job(rng, f2, assign, "cmp", "de", ["keep", "revalue", "drop", "keep"], extra=False),
                x_job(rng, f1, assign, "add", "fr", extra=False), x_job(rng, f2, assign, "add", "fr", extra=False)]
        hists.append(dict(x_history(rng, jobs), tag="pair.%s.%s" % (f1, f2)))
    # (b) one raw text under one key as a missing file of every format, in a rotating order, and backwards
    for xi in range(len(XRAW)):
        order = FORMATS[xi % 7:] + FORMATS[:xi % 7]
        jobs = [x_job(rng, f, [("title", xi)], "add", "de", extra=False) for f in order if XRAW[xi][1][f] is not None]
        both(x_history(rng, jobs), "single.%d" % xi)
    # (d) two raw texts that are ONE value in format f1 and TWO values in format f2, compared under the same keys in both, both orders
    partners = x_partners()
    for n, (i, j, eq, ne) in enumerate(partners):
        for a in range(min(2, len(eq))):
            for b in range(min(3, len(ne))):
                f1, f2 = eq[(n + a) % len(eq)], ne[(n + b) % len(ne)]
                jobs = [x_job(rng, f, [("title", i), ("alpha", j)], "cmp", "de", ["revalue"], extra=False, alt={"title": j, "alpha": i})
                        for f in (f1, f2)]
                both(x_history(rng, jobs), "equal.%d.%d" % (i, j))
    # (c) random: 2-6 calls over 2-4 formats (a format may come back), 1-4 shared keys, one or two comparers, both orders
    for n in range(ctx.n(26, 1500)):
        fmts = rng.sample(FORMATS, rng.choice([2, 2, 3, 4]))
        seq = fmts + [rng.choice(fmts) for _ in range(rng.choice([0, 0, 1, 2]))]
        rng.shuffle(seq)
        keys = rng.sample(XKEYS, rng.choice([1, 2, 3, 4]))
        assign = [(k, rng.randrange(len(XRAW))) for k in keys]
        # what a re-valued record of this history gets: a partner of the reference text where there is one
        alt = {}
        for k, xi in assign:
            mates = [j if i == xi else i for i, j, _, _ in partners if xi in (i, j)]
            alt[k] = rng.choice(mates) if (mates and rng.random() < 0.7) else rng.randrange(len(XRAW))
        jobs = []
        for f in seq:
            a = assign
            if rng.random() < 0.25:            # this job spells some key differently
                a = [(k, rng.randrange(len(XRAW)) if rng.random() < 0.5 else xi) for k, xi in assign]
            jobs.append(x_job(rng, f, a, "cmp" if rng.random() < 0.75 else "add", rng.choice(["de", "de", "fr"]),
                              alt=alt if rng.random() < 0.7 else None))
        both(x_history(rng, jobs, ncomp=rng.choice([1, 1, 2]), nobs=rng.choice([1, 1, 2])), "random.%d" % n)
    return hists


def x_job_view(jo):
    """what a call reported, as far as the property fixes it: the stats it pushed, the missing / obsolete strings it named
    (as sets), the changed / unchanged classification, and how many errors and warnings it raised"""
    return {"pushes": jo["pushes"], "strings": sorted(n for _, n, _ in jo["notes"] if n[:2] in ("M:", "O:", "F:", "R:")),
            "hooks": {k: sorted(v) for k, v in jo["hooks"].items()},
            "messages": sorted(n.split(":")[0] for _, n, _ in jo["notes"] if n[:2] in ("E:", "W:"))}


def x_judge(h, r):
    """(violation message | None, list of lesser differences)"""
    if "r" not in r:
        return "the worker raised %s: %s" % (r.get("exc"), r.get("msg")), []
    hist, fresh = r["r"]["hist"], r["r"]["fresh"]
    if "r" not in hist:
        return "a history of calls in one process raised %s: %s" % (hist.get("exc"), hist.get("msg")), []
    hv = hist["r"]
    # (1) by construction, per comparer: every job against its records, every summary = the sum of its locale's jobs
    for c, spec in enumerate(h["specs"]):
        called = [n for cc, n in h["calls"] if cc == c]
        sess = {"spec": dict(spec, jobs=[spec["jobs"][n] for n in sorted(called)]), "cases": [h["cases"][c][n] for n in sorted(called)],
                "owners": h["owners"][c]}
        v = {"jobs": [hv["sessions"][c]["jobs"][n] for n in sorted(called)], "summary": hv["sessions"][c]["summary"]}
        bad = session_oracle(sess, v)
        if bad:
            return "comparer %d: %s" % (c, bad), []
    # (2) differential: the same call as the first call of a fresh process
    minor = []
    for i, (c, n) in enumerate(h["calls"]):
        case = h["cases"][c][n]
        where = "call %d (%s %s, locale %s)" % (i, case["kind"], case["name"], case["locale"])
        if "r" not in fresh[i]:
            return "%s alone in a fresh process raised %s: %s" % (where, fresh[i].get("exc"), fresh[i].get("msg")), []
        a = x_job_view(hv["sessions"][c]["jobs"][n])
        b = x_job_view(fresh[i]["r"]["sessions"][0]["jobs"][0])
        for what in ("pushes", "strings", "hooks"):
            if a[what] != b[what]:
                return "%s: %s after the earlier calls of this process = %s, as the first call of a fresh process = %s" % (
                    where, {"pushes": "the stats", "strings": "the missing / obsolete strings", "hooks": "changed / unchanged"}[what],
                    a[what], b[what]), []
        if a["messages"] != b["messages"]:
            minor.append({"call": i, "history": a["messages"], "fresh": b["messages"]})
    return None, minor


def run_xformat(ctx, out):
    bad = x_selfcheck()
    if bad:
        raise RuntimeError("cross-format pool: annotated word counts disagree with the independent counter: %r" % bad)
    hists = gen_xhistories(ctx)
    rng = ctx.rng("c03", "xformat", "spawn")
    # a few calls are also run in a NEW interpreter (the others in a fork of a worker that has run nothing)
    nspawn = ctx.n(10, 300)
    spawn = [[] for _ in hists]
    for _ in range(nspawn):
        i = rng.randrange(len(hists))
        spawn[i].append(rng.randrange(len(hists[i]["calls"])))
    args = [[h["specs"], h["calls"], sp] for h, sp in zip(hists, spawn)]
    res = pool.pmap("impl.compare", "impl_xcase", args, timeout=60.0, batch=3)
    lines = []
    for r in res:
        ok = "r" in r and "r" in r["r"]["hist"]
        lines.append(r["r"]["hist"]["r"]["line"] if ok else "c03.proc")
    model = C.run_driver_parallel(lines) if ctx.model_ok else [None] * len(lines)
    for h, r, mo in zip(hists, res, model):
        out.evaluations += 1 + len(h["calls"])
        out.count("xformat.histories")
        out.count("xformat.calls", len(h["calls"]))
        out.count("xformat." + h["tag"].split(".")[0])
        inp = {"xhistory": {"specs": h["specs"], "calls": h["calls"]}, "cases": h["cases"], "owners": h["owners"], "tag": h["tag"],
               "formats in call order": [h["cases"][c][n]["fmt"] for c, n in h["calls"]]}
        bad, minor = x_judge(h, r)
        if bad:
            out.violations.append({"what": "cross-format history (%s): %s" % (", ".join(inp["formats in call order"]), bad), "input": inp})
            continue
        hv = r["r"]["hist"]["r"]
        if len(set(inp["formats in call order"])) >= 2 and any(
                st.get("missing_w", 0) + st.get("changed_w", 0) + st.get("unchanged_w", 0)
                for sv in hv["sessions"] for jo in sv["jobs"] if jo for _, st in jo["pushes"]):
            out.nontrivial.add(("xformat", hv["canon"]))
        if minor:
            out.disagreements.append({"op": "fresh-process", "input": inp, "messages differ": minor})
        elif mo is not None and mo != hv["canon"]:
            out.disagreements.append({"op": "c03.proc", "input": inp, "impl": hv["canon"], "model": mo})


def run_keyed(ctx, out):
    """KeyedTuple.__contains__ / __getitem__ with every kind of argument: str and tuple keys (present, absent, duplicated),
    ints, the entity objects themselves, an unhashable list"""
    rng = ctx.rng("c03", "keyed")
    args = []
    for fmt in ("properties", "po", "ftl"):
        for _ in range(ctx.n(6, 120)):
            ks = rng.sample(KEYS[fmt], rng.randrange(0, 6))
            if ks and rng.random() < 0.4:
                ks.insert(rng.randrange(len(ks) + 1), rng.choice(ks))
            items = [("rec", k, rng.choice(legal_vis(fmt, k)), 0) for k in ks]
            if rng.random() < 0.3:
                items.insert(rng.randrange(len(items) + 1), ("junk",))
            probes = [["k", list(k) if isinstance(k, tuple) else k] for k in rng.sample(KEYS[fmt], 5)]
            probes += [["k", "nope"], ["k", ["nope", None]], ["u"]]
            probes += [["i", i] for i in range(-len(items) - 2, len(items) + 2)] + [["o", i] for i in range(len(items) + 2)]
            args.append([fmt, print_file(fmt, items, False), probes, len(items)])
    res = pool.pmap("impl.compare", "impl_keyed", args, timeout=10.0, batch=8)
    lines, owner = [], []
    for a, r in zip(args, res):
        if "r" not in r:
            out.violations.append({"what": "KeyedTuple: %s" % r, "input": {"fmt": a[0], "text": a[1]}})
            continue
        for line, canon, probe in r["r"]:
            lines.append(line)
            owner.append((a, canon, probe))
    model = C.run_driver_parallel(lines) if ctx.model_ok else [None] * len(lines)
    for (a, canon, probe), mo in zip(owner, model):
        out.evaluations += 1
        out.count("keyed." + canon.replace(" ", "_").split("_item")[0])
        # the dict-like contract: a key is `in` the tuple iff indexing by it returns an entity with that key
        if probe[0] == "k" and (canon[0] == "1") != canon[2:].startswith("item"):
            out.violations.append({"what": "KeyedTuple: `key in entities` is %s but `entities[key]` gives %s" % (canon[0], canon[2:]),
                                   "input": {"fmt": a[0], "text": a[1], "probe": probe}})
        elif probe[0] == "o" and canon[0] != ("1" if probe[1] < int(a[3]) else "0"):
            # the sequence contract: exactly the tuple's own entity objects are `in` it
            out.violations.append({"what": "KeyedTuple: entity object %d of %d is%s `in` the tuple" % (probe[1], int(a[3]), "" if canon[0] == "1" else " not"),
                                   "input": {"fmt": a[0], "text": a[1], "probe": probe}})
        elif mo is not None and mo != canon:
            out.disagreements.append({"op": "c03.keyed", "input": {"fmt": a[0], "text": a[1], "probe": probe}, "impl": canon, "model": mo})


def replay(payload):
    res = []
    for v in payload.get("violations", []):
        i = v["input"]
        if "xhistory" in i:
            x = i["xhistory"]
            r = pool.pmap("impl.compare", "impl_xcase", [[x["specs"], x["calls"], []]], timeout=120.0)[0]
            judged, _ = x_judge({"specs": x["specs"], "calls": x["calls"], "cases": i["cases"], "owners": i["owners"]}, r)
            res.append({"input": {"calls": [[c, x["specs"][c]["jobs"][n]["op"], x["specs"][c]["files"][x["specs"][c]["jobs"][n]["l10n"]]["path"]]
                                            for c, n in x["calls"]]},
                        "oracle": judged,
                        "report": [sv["summary"] for sv in r["r"]["hist"]["r"]["sessions"]] if ("r" in r and "r" in r["r"]["hist"]) else r})
            continue
        if "session" in i:
            r = pool.pmap("impl.compare", "impl_session", [[i["session"]]], timeout=60.0)[0]
            if "r" not in r:
                judged = "the job sequence raised %s" % r.get("exc")
            else:
                judged = session_oracle({"spec": i["session"], "cases": i["cases"], "owners": i["owners"]}, r["r"]) if i["judged"] else None
            res.append({"input": {"jobs": [[j["op"], i["session"]["files"][j["l10n"]]["path"]] for j in i["session"]["jobs"]]},
                        "oracle": judged, "report": r["r"]["summary"] if "r" in r else r})
            continue
        if "reference" not in i:
            continue
        case = dict(i["case"])
        case.update({"fmt": i["fmt"], "verdicts": i["verdicts"]})
        r = pool.pmap("impl.compare", "impl_compare", [[i["fmt"], i["reference"], i["localized"], i["verdicts"], i["add"]]],
                      timeout=20.0)[0]
        judged = oracle(case, r) if (not i["verdicts"] or "exc" in r) else None     # as in run(): filters are not judged
        res.append({"input": {k: i[k] for k in ("fmt", "reference", "localized")}, "oracle": judged,
                    "report": r.get("r", r) if "r" not in r else r["r"]["canon"]})
    return {"violates": any(r["oracle"] for r in res), "cases": res}

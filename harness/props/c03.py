"""C03 — Comparison reports exactly the missing, obsolete and changed strings."""
import itertools

from lib import common as C
from lib import pool
from lib.runner import Outcome

ID = "C03"
LEAN_TARGETS = ["CLModel.Props.C03"]
M = "CLModel.Props.C03"
THEOREMS = [
    (M, "C03.compare_total", "the comparison loop never raises: every keyed lookup it performs succeeds, for all entity lists and filters"),
    (M, "C03.stats_once", "the stats dict is pushed to the observers exactly once per comparison"),
    (M, "C03.class_rules", "meaning of the classes: missing = last reference entity not junk and key absent from l10n; obsolete symmetric; "
                           "shared = key binding by name, else unchanged iff equals, else changed"),
    (M, "C03.missing_set", "all files (duplicates allowed): the missingEntity notifications are exactly the distinct reference keys of class "
                           "missing, each once; missing = their number, missing_w = their reference word sum"),
    (M, "C03.missing_exact", "duplicate-free files: missing strings = non-junk reference entities whose key is absent from l10n, in reference order"),
    (M, "C03.obsolete_set", "all files: the obsoleteEntity notifications are exactly the distinct l10n keys of class obsolete, each once; "
                            "obsolete = their number"),
    (M, "C03.obsolete_exact", "duplicate-free l10n: obsolete strings = (as a set, each once) the non-junk l10n entities whose key is absent from the reference"),
    (M, "C03.shared_once", "every shared key is counted in exactly one of keys / unchanged / changed (the class rule); the three counters sum to "
                           "the number of distinct shared keys; unchanged_w / changed_w are the reference word sums over the same sets"),
    (M, "C03.counts_partition", "missing + changed + unchanged + keys = number of distinct reference keys other than unshared reference junk; report = 0"),
    (M, "C03.counts_partition_nodup", "duplicate-free reference whose junk keys do not occur in l10n: missing + changed + unchanged + keys = "
                                      "number of non-junk reference entities"),
    (M, "C03.words_partition", "missing_w + changed_w + unchanged_w = reference word sum over the distinct reference keys that are missing, changed or unchanged"),
    (M, "C03.missing_file", "add(): missing = number of non-junk reference entities, missing_w = their word sum, in two updateStats calls; nothing if ignored"),
    (M, "C03.po_keys_never_bindings", "gettext tuple keys are never key bindings; shared gettext strings are classified by equals"),
    (M, "C03.distinct_ok", "first-occurrence de-duplication is a duplicate-free list with the same members (the 'distinct keys' the theorems quantify over exist)"),
]
PARTIAL = [
    "Entity.equals and count_words of Fluent (AST based) and the parsers of Fluent/Android are inputs of the model "
    "(entity lists of the real parser), not modelled; Entry.count_words (re_br/re_sgml/split) is modelled and checked differentially",
    "checkers are outside the model: their messages are removed from the details before the comparison and subtracted from errors/warnings",
]
LEVEL_TEXT = ("Lean 4 theorems over an executable transliteration of ContentComparer.compare's loop (on top of the proved closed form of "
              "AddRemove and of KeyedTuple lookup): for ALL pairs of entity lists, including duplicate keys, the loop terminates without "
              "error, the missing / obsolete notifications are exactly the set differences of the non-junk keys, every shared key is counted "
              "in exactly one of keys/unchanged/changed, and the counters and word sums partition the distinct reference keys; the model is "
              "tied to the Python by differential runs of the real compare()/add() on generated (records, edit script) pairs in all seven "
              "formats, and an independent oracle derives the expected sets, counts and word sums from the edit script alone")
LEVEL_NOTE = ("trusted: Lean kernel; hand-written model CLModel/Compare/Content.lean (validated by correspondence on every run); the entity "
              "lists (key, junk flag, count_words, equality classes under the real equals) are taken from the real parsers; regexes keyRE, "
              "re_br, re_sgml are regenerated from /repo on every run; checkers and merging are out of scope")
TECHNIQUE = "Lean 4 proof over executable model (corollaries of the AddRemove closed form) + differential correspondence + by-construction oracle"
TRUSTED = [
    "hand-written model CLModel/Compare/Content.lean of ContentComparer.compare/add, Observer.notify, Parser.findDuplicates, Entry.count_words "
    "(tied by the c03.cmp / c03.add / c03.words correspondence)",
    "entity abstraction (key, junk, words, equality class) computed from the real parser objects by harness/impl/compare.py",
]
ASSUMPTIONS = ["one Observer without filter (nothing filtered) for the oracle; filters are exercised in the correspondence only",
               "files are read as UTF-8 text without carriage returns"]

FORMATS = ["properties", "dtd", "ini", "inc", "ftl", "po", "android"]

# semantic value, number of words after the documented markup stripping (<br> -> newline, tags removed, split on white-space)
VALUES = [
    ("two words", 2),
    ("Hello <b>bold</b> world", 3),
    ("line<br/>break", 2),
    ("one", 1),
    ("three little words", 3),
    ("first<br>second part", 3),
    ("<span class=\"c\">tagged text</span> tail", 3),
    ("wide   gaps here", 3),
    ("caf\u00e9 \u00fcber", 2),
    ("a<br />b<br\t/>c", 3),
    ("1 < 2 apples", 4),
    ("open <b unclosed", 3),
    ("two <a>x</a> <br> y", 3),
    ("<br>", 0),
    ("x", 1),
    ("Other <i>it</i>", 2),
    ("", 0),
]
EMPTY = len(VALUES) - 1
# formats in which a record may carry an empty value (Fluent needs a value or an attribute; gettext's empty msgstr is value index -1)
EMPTY_OK = ("properties", "dtd", "ini", "inc", "android")

# Fluent only: (value text or None, ((attribute name, attribute text), ...)); value index = len(VALUES) + position.
# A multi-line value is printed with an indented continuation line; the parsed text keeps the line break.
FTL_SHAPES = [
    ("two words", (("title", "tip text"),)),
    ("two words", (("title", "another tip"),)),
    ("two words", (("title", "tip text"), ("accesskey", "T"))),
    (None, (("label", "Only an attribute"),)),
    (None, (("label", "Other attribute text"),)),
    (None, (("label", "Only an attribute"), ("title", "tip text"))),
    ("first line\nsecond line", ()),
    ("first line\nsecond line", (("title", "tip text"),)),
    ("first line\nsecond line", (("title", "another tip"),)),
    ("first line\nother second line", (("title", "tip text"),)),
    ("one", (("aria-label", "spoken one"),)),
]


def fval(vi):
    """Fluent: (value text or None, attributes) of a value index"""
    if vi < len(VALUES):
        return (VALUES[vi][0], ())
    return FTL_SHAPES[vi - len(VALUES)]


def legal_vis(fmt, key):
    """value indices a record with this key may carry in this format"""
    if fmt == "ftl":
        vis = [i for i in range(len(VALUES) + len(FTL_SHAPES)) if i != EMPTY]
        if key.startswith("-"):
            vis = [i for i in vis if fval(i)[0] is not None]      # a term needs a value
        return vis
    if fmt in EMPTY_OK:
        return list(range(len(VALUES)))
    return [i for i in range(len(VALUES)) if i != EMPTY]


def siblings(fmt, key, vi):
    """Fluent: the other shapes with the same value text (they differ in attributes only)"""
    if fmt != "ftl" or vi < 0:
        return []
    return [j for j in legal_vis(fmt, key) if j != vi and fval(j)[0] == fval(vi)[0]]

KEYS = {
    "properties": ["alpha", "menu.accesskey", "gamma", "beta", "openKey", "KEYS", "monkey_biz", "k", "a.b", "delta", "Key", "ke-y"],
    "dtd": ["alpha", "menu.accesskey", "gamma", "beta", "openKey", "KEYS", "monkey_biz", "k", "a.b", "delta", "Key", "ke-y"],
    "ini": ["alpha", "menuaccesskey", "gamma", "beta", "openKey", "KEYS", "monkey_biz", "k", "a.b", "delta", "Key", "ke-y"],
    "inc": ["alpha", "menu_accesskey", "gamma", "beta", "openKey", "KEYS", "monkey_biz", "k", "a_b", "delta", "Key", "ke_y"],
    "ftl": ["alpha", "menu-accesskey", "gamma", "beta", "openKey", "KEYS", "monkey_biz", "k", "-term", "delta", "Key", "-brand-key"],
    "po": [("alpha", None), ("Press any key", None), ("gamma", None), ("beta", None), ("openKey", "menu"), ("alpha", "ctx"),
           ("monkey biz", None), ("k", None), ("Key", None), ("delta", "key"), ("Open file", None), ("x y", "z")],
    "android": ["alpha", "menu_accesskey", "gamma", "beta", "openKey", "KEYS", "monkey_biz", "k", "a_b", "delta", "Key", "ke_y"],
}
JUNK = {"properties": "junk line here", "dtd": "<!ENTITY broken>", "ini": "junk line", "inc": "junk", "ftl": "= junk",
        "po": "garbage", "android": "<foo/>"}


# ------------------------------------------------------------------ printers
def xml_esc(s):
    return s.replace("&", "&amp;").replace("<", "&lt;").replace(">", "&gt;")


def print_record(fmt, key, vi, variant):
    """raw text of one record with value index `vi` (variant 1: a different spelling of the same value)"""
    val = value_of(fmt, key, vi)
    if fmt == "properties":
        raw = val
        if variant and val:
            raw = "\\u%04x" % ord(val[0]) + val[1:]
        if not val:
            return "%s =" % key if variant else "%s=" % key
        return "%s = %s" % (key, raw) if variant else "%s=%s" % (key, raw)
    if fmt == "dtd":
        if variant and "'" not in val:
            return "<!ENTITY %s '%s'>" % (key, val)
        return '<!ENTITY %s "%s">' % (key, val.replace('"', "&quot;"))
    if fmt == "ini":
        return ("; a comment\n" if variant else "") + "%s=%s" % (key, val)
    if fmt == "inc":
        if not val:
            return "# a comment\n#define %s " % key if variant else "#define %s" % key
        return ("# a comment\n" if variant else "") + "#define %s %s" % (key, val)
    if fmt == "ftl":
        text, attrs = fval(vi)
        out = ("# a comment\n" if variant else "") + key + " ="
        if text is not None:
            out += " " + text.replace("\n", "\n    ")
        for name, atext in attrs:
            out += "\n    .%s = %s" % (name, atext)
        return out
    if fmt == "po":
        msgid, ctxt = key

        def q(s):
            return '"' + s.replace("\\", "\\\\").replace('"', '\\"').replace("\t", "\\t").replace("\n", "\\n") + '"'
        out = ""
        if ctxt is not None:
            out += "msgctxt %s\n" % q(ctxt)
        out += "msgid %s\n" % q(msgid)
        if variant and val:
            out += 'msgstr ""\n%s %s\n' % (q(val[:1]), q(val[1:]))
        else:
            out += "msgstr %s\n" % q(val)
        return out
    if fmt == "android":
        if variant and "]]>" not in val:
            return '  <string name="%s"><![CDATA[%s]]></string>' % (key, val)
        return '  <string name="%s">%s</string>' % (key, xml_esc(val))
    raise ValueError(fmt)


def print_file(fmt, items, blank):
    """items: list of ("rec", key, value index, variant) | ("junk",); blank: separate entries by an empty line"""
    lines = []
    for it in items:
        if it[0] == "junk":
            lines.append(JUNK[fmt])
        else:
            _, key, vi, variant = it
            lines.append(print_record(fmt, key, vi, variant))
    sep = "\n\n" if (blank and fmt != "inc") else "\n"
    if fmt == "po":
        sep = "\n"          # records end with a newline already: entries are separated by an empty line
    body = sep.join(lines) + ("\n" if lines else "")
    if fmt == "ini":
        return "[Strings]\n" + body
    if fmt == "android":
        return '<?xml version="1.0" encoding="utf-8"?>\n<resources>\n' + body + "</resources>\n"
    return body


def value_of(fmt, key, vi):
    """the raw value index -1 is the empty msgstr of a gettext template"""
    if vi < 0:
        return ""
    if fmt == "ftl":
        return fval(vi)[0]
    return VALUES[vi][0]


def sem(fmt, key, vi):
    """what the comparison looks at: gettext falls back to the msgid for an empty msgstr; a Fluent message is its value and
    its attributes, a Fluent term its value only (attributes of terms are private)"""
    if vi < 0:
        return key[0]
    if fmt == "ftl":
        text, attrs = fval(vi)
        return (text,) if key.startswith("-") else (text, attrs)
    return VALUES[vi][0]


def words(fmt, key, vi):
    if fmt == "ftl":
        text, attrs = fval(vi)
        n = len(text.split()) if text is not None else 0
        if key is None or not key.startswith("-"):
            n += sum(len(atext.split()) for _, atext in attrs)
        return n
    if vi < 0:
        return len(key[0].split())          # msgids of the pool carry no markup
    return VALUES[vi][1]


def is_binding(fmt, key):
    return fmt != "po" and ("key" in key or "Key" in key)


# ------------------------------------------------------------------ cases
def derive(ref_recs, ops, added, order):
    """apply an edit script: ops[i] in keep / alt / revalue:<vi> / drop for the i-th reference record,
    added = [(position, key, vi)], order = permutation of the resulting list (or None)"""
    out = []
    for (key, vi), op in zip(ref_recs, ops):
        if op == "keep":
            out.append(("rec", key, vi, 0))
        elif op == "alt":
            out.append(("rec", key, vi, 1))
        elif op == "drop":
            continue
        else:
            out.append(("rec", key, int(op.split(":")[1]), 0))
    for pos, key, vi in added:
        out.insert(min(pos, len(out)), ("rec", key, vi, 0))
    if order is not None:
        out = [out[i] for i in order if i < len(out)]
    return out


def gen_cases(ctx, fmt):
    rng = ctx.rng("c03", fmt)
    keys = KEYS[fmt]
    cases = []
    # bounded exhaustive: three (thorough: four) reference records, every edit script over them
    nb = 3 if ctx.tier == "quick" else 4
    base = [(keys[i], i) for i in range(nb)]
    extra = [[], [(0, keys[nb], 3)], [(9, keys[nb + 1], 4)], [(1, keys[nb], 3), (9, keys[nb + 1], 4)]]
    for ops in itertools.product(["keep", "alt", "revalue:5", "drop"], repeat=nb):
        for added in extra:
            for rev in (False, True):
                l10n = derive(base, ops, added, None)
                if rev:
                    l10n = l10n[::-1]
                cases.append({"fmt": fmt, "ref": [("rec", k, v, 0) for k, v in base], "l10n": l10n, "blank": False,
                              "verdicts": None, "add": None, "kind": "exhaustive"})
    # second exhaustive family: empty values followed by further records / Fluent attribute edits
    fam = None
    if fmt in EMPTY_OK:
        # (key, reference value, re-value, second re-value)
        fam = [(keys[0], EMPTY, 3, 0), (keys[2], 0, EMPTY, 3), (keys[3], EMPTY, 4, 0)]
    elif fmt == "ftl":
        nV = len(VALUES)
        fam = [(keys[0], nV + 0, nV + 1, nV + 2),       # attribute text changed / attribute added
               (keys[2], nV + 3, nV + 4, nV + 5),       # attribute-only message
               (keys[3], nV + 7, nV + 8, nV + 6)]       # multi-line value: attribute text changed / attribute dropped
    if fam:
        fbase = [(k, v) for k, v, _, _ in fam]
        for ops in itertools.product(range(5), repeat=3):
            script = []
            for (k, v, r1, r2), o in zip(fam, ops):
                script.append(["keep", "alt", "revalue:%d" % r1, "revalue:%d" % r2, "drop"][o])
            for rev in (False, True):
                l10n = derive(fbase, script, [], None)
                if rev:
                    l10n = l10n[::-1]
                cases.append({"fmt": fmt, "ref": [("rec", k, v, 0) for k, v in fbase], "l10n": l10n, "blank": False,
                              "verdicts": None, "add": None, "kind": "exhaustive"})
    exhaustive = len(cases)

    def pick(k):
        return rng.choice(legal_vis(fmt, k))
    for n in range(ctx.n(260, 15000)):
        nref = rng.choice([0, 1, 2, 3, 4, 5, 6, 7, 8])
        dup_ref = rng.random() < 0.12
        pool_keys = list(keys)
        rng.shuffle(pool_keys)
        ref_keys = pool_keys[:nref]
        if dup_ref and ref_keys:
            ref_keys.insert(rng.randrange(len(ref_keys) + 1), rng.choice(ref_keys))
        ref_recs = []
        for k in ref_keys:
            vi = pick(k)
            if fmt == "po" and rng.random() < 0.3:
                vi = -1
            if fmt in EMPTY_OK and rng.random() < 0.1:
                vi = EMPTY
            ref_recs.append((k, vi))
        ops = []
        for k, vi in ref_recs:
            r = rng.random()
            if r < 0.3:
                ops.append("keep")
            elif r < 0.5:
                ops.append("alt" if vi >= 0 else "keep")
            elif r < 0.75:
                nvi = pick(k)
                sib = siblings(fmt, k, vi)
                if sib and rng.random() < 0.5:
                    nvi = rng.choice(sib)               # Fluent: same value text, other attributes
                if fmt in EMPTY_OK and rng.random() < 0.15:
                    nvi = EMPTY
                ops.append("revalue:%d" % nvi)
            else:
                ops.append("drop")
        fresh = [k for k in pool_keys if k not in ref_keys]
        added = []
        for k in fresh[:rng.choice([0, 0, 1, 1, 2, 3])]:
            added.append((rng.randrange(9), k, pick(k)))
        l10n = derive(ref_recs, ops, added, None)
        if l10n and rng.random() < 0.1:          # a duplicate key in the localization
            src = rng.choice(l10n)
            l10n.insert(rng.randrange(len(l10n) + 1), ("rec", src[1], pick(src[1]), 0))
        if rng.random() < 0.5:
            rng.shuffle(l10n)
        ref = [("rec", k, v, 0) for k, v in ref_recs]
        if rng.random() < 0.15:
            ref.insert(rng.randrange(len(ref) + 1), ("junk",))
        if rng.random() < 0.15:
            l10n.insert(rng.randrange(len(l10n) + 1), ("junk",))
        verdicts = None
        if fmt != "po" and rng.random() < 0.2:
            verdicts = {}
            for k in pool_keys:
                r = rng.random()
                if r < 0.25:
                    verdicts[k] = "warning"
                elif r < 0.5:
                    verdicts[k] = "ignore"
        add = None
        if rng.random() < 0.3:
            ks = list(keys)
            rng.shuffle(ks)
            add = [("rec", k, (-1 if (fmt == "po" and rng.random() < 0.3) else pick(k)), 0) for k in ks[:rng.randrange(5)]]
            if add and rng.random() < 0.2:
                add.append(add[0])
            if rng.random() < 0.3:
                add.insert(rng.randrange(len(add) + 1), ("junk",))
        cases.append({"fmt": fmt, "ref": ref, "l10n": l10n, "blank": rng.random() < 0.3, "verdicts": verdicts,
                      "add": add, "kind": "random"})
    return cases, exhaustive


def texts_of(case):
    fmt = case["fmt"]
    ref_text = print_file(fmt, case["ref"], case["blank"])
    l10n_text = print_file(fmt, case["l10n"], case["blank"])
    add_text = print_file(fmt, case["add"], False) if case["add"] is not None else None
    return ref_text, l10n_text, add_text


# ------------------------------------------------------------------ oracle
def key_wire(k):
    from impl.compare import key_wire as kw
    return kw(tuple(k) if isinstance(k, (list, tuple)) else k)


def expected(case):
    """expected sets, counts and word sums from the edit script alone (dict semantics: the last record of a key wins)"""
    fmt = case["fmt"]
    ref_map, l10n_map, ref_order = {}, {}, []
    for it in case["ref"]:
        if it[0] == "rec":
            k = tuple(it[1]) if isinstance(it[1], (list, tuple)) else it[1]
            if k not in ref_map:
                ref_order.append(k)
            ref_map[k] = it[2]
    for it in case["l10n"]:
        if it[0] == "rec":
            k = tuple(it[1]) if isinstance(it[1], (list, tuple)) else it[1]
            l10n_map[k] = it[2]
    exp = {"missing": [], "obsolete": set(), "changed": set(), "unchanged": set(), "keys": set(),
           "missing_w": 0, "changed_w": 0, "unchanged_w": 0, "distinct_ref": len(ref_order),
           "ref_nodup": len(ref_order) == sum(1 for it in case["ref"] if it[0] == "rec")}
    for k in ref_order:
        w = words(fmt, k, ref_map[k])
        if k not in l10n_map:
            exp["missing"].append(k)
            exp["missing_w"] += w
        elif is_binding(fmt, k):
            exp["keys"].add(k)
        elif sem(fmt, k, ref_map[k]) == sem(fmt, k, l10n_map[k]):
            exp["unchanged"].add(k)
            exp["unchanged_w"] += w
        else:
            exp["changed"].add(k)
            exp["changed_w"] += w
    exp["obsolete"] = {k for k in l10n_map if k not in ref_map}
    return exp


def oracle(case, r):
    """the property's claim checked on the implementation's own report; returns None or a message"""
    if "exc" in r:
        if r["exc"] == "Hang":
            return "comparison does not terminate"
        return "comparison raised %s: %s" % (r["exc"], r.get("msg"))
    v = r["r"]
    exp = expected(case)
    notes = v["canon"].split(" |", 1)[1].split()
    updates = v["canon"].split(" |", 1)[0][3:]
    if updates.count(";") != 0 or not updates:
        return "stats were pushed %d times, expected once" % (0 if not updates else updates.count(";") + 1)
    got_missing = [n[2:] for n in notes if n.startswith("M:")]
    got_obsolete = [n[2:] for n in notes if n.startswith("O:")]
    exp_missing = [key_wire(k) for k in exp["missing"]]
    if exp["ref_nodup"]:
        if got_missing != exp_missing:
            return "missing strings reported %s, expected (reference order) %s" % (got_missing, exp_missing)
    elif sorted(got_missing) != sorted(exp_missing):
        return "missing strings reported %s, expected %s" % (sorted(got_missing), sorted(exp_missing))
    if sorted(got_obsolete) != sorted(key_wire(k) for k in exp["obsolete"]):
        return "obsolete strings reported %s, expected %s" % (sorted(got_obsolete), sorted(key_wire(k) for k in exp["obsolete"]))
    for name in ("changed", "unchanged"):
        got = sorted(v["hooks"][name])
        want = sorted(key_wire(k) for k in exp[name])
        if got != want:
            return "%s strings are %s, expected %s" % (name, got, want)
    s = v["summary"]
    want = {"missing": len(exp["missing"]), "obsolete": len(exp["obsolete"]), "changed": len(exp["changed"]),
            "unchanged": len(exp["unchanged"]), "keys": len(exp["keys"]), "report": 0,
            "missing_w": exp["missing_w"], "changed_w": exp["changed_w"], "unchanged_w": exp["unchanged_w"]}
    for k, w in want.items():
        if s.get(k, 0) != w:
            return "summary %s = %s, expected %s" % (k, s.get(k, 0), w)
    if s.get("missing", 0) + s.get("changed", 0) + s.get("unchanged", 0) + s.get("keys", 0) != exp["distinct_ref"]:
        return "missing + changed + unchanged + keys = %d, but the reference has %d distinct strings" % (
            s.get("missing", 0) + s.get("changed", 0) + s.get("unchanged", 0) + s.get("keys", 0), exp["distinct_ref"])
    if "add" in v and case["add"] is not None:
        recs = [it for it in case["add"] if it[0] == "rec"]
        a = v["add"]["summary"]
        wm = want["missing"] + len(recs)
        ww = want["missing_w"] + sum(words(case["fmt"], it[1], it[2]) for it in recs)
        if a.get("missing", 0) != wm or a.get("missing_w", 0) != ww:
            return "after adding a missing file with %d strings: missing = %s (expected %d), missing_w = %s (expected %d)" % (
                len(recs), a.get("missing", 0), wm, a.get("missing_w", 0), ww)
        for k in ("obsolete", "changed", "unchanged", "keys", "changed_w", "unchanged_w", "report"):
            if a.get(k, 0) != want[k]:
                return "adding a missing file changed %s from %s to %s" % (k, want[k], a.get(k, 0))
    return None


def classify(v):
    return v.get("finding")


def driver_lines(case, v):
    def ents(es):
        return " ".join("%s %d %d %d %d" % tuple(e) for e in es)
    line = "c03.cmp %d %d %s %s" % (len(v["ref"]), len(v["l10n"]), ents(v["ref"]), ents(v["l10n"]))
    if case["verdicts"]:
        code = {"warning": 1, "ignore": 2}
        line += " " + " ".join("%s %d" % (key_wire(k), code[c]) for k, c in sorted(case["verdicts"].items()))
    lines = [" ".join(line.split())]
    if "add" in v:
        lines.append(" ".join(("c03.add 0 %d %s" % (len(v["add"]["ents"]), ents(v["add"]["ents"]))).split()))
    return lines


WORD_TOKENS = ["<br>", "<br/>", "<br \n/>", "<b>", "</b>", " ", "\n", "a", "bc", "<", ">", "/", "\t", "<a href='x'>", "\u00a0",
               "\u2003", "\x1c", "\u00e9", "<br", "br>", "<1>", "<_x y>", "\x85", "\u200b", "w", "two words", " x ", "y\nz"]


def run(ctx):
    out = Outcome()
    out.rule = ("per format (properties, dtd, ini, inc, ftl, po, android): three reference records x every edit script "
                "(keep / respell / re-value / drop per record, x 4 sets of added records, x 2 orders = 512; thorough: four records = 2048) "
                "exhaustively, a second exhaustive family of 250 scripts with empty values followed by further records (properties, dtd, ini, "
                "inc, android) resp. Fluent attribute edits (attribute text changed / attribute added or dropped / attribute-only messages / "
                "multi-line values), plus seeded random "
                "(records, edit script) pairs with up to 8 reference records, duplicates, junk lines, filters and a following missing-file add; "
                "count_words: every pool value in every format plus random markup token sequences. non-trivial = at least two of "
                "missing/obsolete/changed/unchanged/keys are non-zero; distinct = distinct (format, canonical report)")
    for fmt in FORMATS:
        cases, exhaustive = gen_cases(ctx, fmt)
        out.count("%s.cases" % fmt, len(cases))
        out.count("%s.exhaustive" % fmt, exhaustive)
        args = []
        for c in cases:
            rt, lt, at = texts_of(c)
            c["texts"] = (rt, lt, at)
            args.append([fmt, rt, lt, c["verdicts"], at])
        res = pool.pmap("impl.compare", "impl_compare", args, timeout=10.0, batch=24)
        lines, owner = [], []
        for i, (c, r) in enumerate(zip(cases, res)):
            if "r" in r:
                for l in driver_lines(c, r["r"]):
                    owner.append(i)
                    lines.append(l)
        model = C.run_driver_parallel(lines) if ctx.model_ok else [None] * len(lines)
        by_case = {}
        for i, mo in zip(owner, model):
            by_case.setdefault(i, []).append(mo)
        for i, (c, r) in enumerate(zip(cases, res)):
            out.evaluations += 1
            inp = {"fmt": fmt, "reference": c["texts"][0], "localized": c["texts"][1], "verdicts": c["verdicts"],
                   "add": c["texts"][2], "case": {k: c[k] for k in ("ref", "l10n", "blank", "add")}}
            # filters are outside the property ("with nothing filtered"): such cases are judged by the correspondence only
            bad = oracle(c, r) if (not c["verdicts"] or "exc" in r) else None
            if "r" in r:
                v = r["r"]
                s = v["summary"]
                nz = sum(1 for k in ("missing", "obsolete", "changed", "unchanged", "keys") if s.get(k, 0))
                if nz >= 2:
                    out.nontrivial.add((fmt, v["canon"]))
                out.count("%s.categories=%d" % (fmt, nz))
                if v["checker"][0] or v["checker"][1]:
                    out.count("%s.with_checker_messages" % fmt)
                if len(out.samples) < 14 and nz >= 4 and out.distribution.get("sampled." + fmt, 0) < 2:
                    out.count("sampled." + fmt)
                    out.samples.append({"fmt": fmt, "reference": c["texts"][0], "localized": c["texts"][1], "report": v["canon"]})
            if bad:
                out.violations.append({"what": "%s: %s" % (fmt, bad), "input": inp})
                out.count("%s.violations" % fmt)
                continue
            if "r" not in r:
                continue
            v = r["r"]
            mos = by_case.get(i, [])
            if v["unknown"] or ("add" in v and v["add"]["unknown"]):
                out.disagreements.append({"op": "c03.cmp", "input": inp, "unrecognised details": v["unknown"]})
                continue
            if mos and mos[0] is not None:
                if mos[0] != v["canon"]:
                    out.disagreements.append({"op": "c03.cmp", "input": inp, "impl": v["canon"], "model": mos[0]})
                    continue
                if "add" in v and mos[1] != v["add"]["canon"]:
                    out.disagreements.append({"op": "c03.add", "input": inp, "impl": v["add"]["canon"], "model": mos[1]})
                    continue
            # the summary is the accumulated updates plus one error / warning per notification
            notes = v["canon"].split(" |", 1)[1].split()
            ne = sum(1 for n in notes if n.startswith("E:")) + v["checker"][0]
            nw = sum(1 for n in notes if n.startswith("W:")) + v["checker"][1]
            s = v["summary"]
            if (s.get("errors", 0), s.get("warnings", 0)) != (ne, nw):
                out.disagreements.append({"op": "summary", "input": inp, "summary": s, "errors": ne, "warnings": nw})
            elif not c["verdicts"] and v["observer_summary"] != s:
                out.disagreements.append({"op": "observer-summary", "input": inp, "list": s, "observer": v["observer_summary"]})
    run_words(ctx, out)
    cleanup()
    return out


def cleanup():
    """remove the scratch directories of worker processes that are gone"""
    import glob
    import os
    import shutil
    from impl.compare import ROOT
    for d in glob.glob(os.path.join(ROOT, "run-*")):
        try:
            with open("/proc/%d/cmdline" % int(d.rsplit("-", 1)[1]), "rb") as f:
                alive = b"worker.py" in f.read()
        except (ValueError, OSError):
            alive = False
        if not alive:
            shutil.rmtree(d, ignore_errors=True)


def run_words(ctx, out):
    """count_words: model vs implementation, and the implementation vs the annotated pool"""
    rng = ctx.rng("c03", "words")
    # (a) every pool value through the real parser of every format: parsed value and word count by construction
    args, meta = [], []
    for fmt in FORMATS:
        key = KEYS[fmt][0]
        for vi in legal_vis(fmt, key):
            for variant in (0, 1):
                args.append([fmt, print_file(fmt, [("rec", key, vi, variant)], False)])
                meta.append((fmt, vi, variant))
    res = pool.pmap("impl.compare", "impl_words", args, timeout=5.0)
    lits = []
    for (fmt, vi, variant), a, r in zip(meta, args, res):
        out.evaluations += 1
        inp = {"fmt": fmt, "text": a[1]}
        if "r" not in r or r["r"] is None:
            out.violations.append({"what": "%s: a one-record file did not parse into one entity (%s)" % (fmt, r), "input": inp})
            continue
        val, w = r["r"]
        shown = fval(vi) if fmt == "ftl" else VALUES[vi][0]
        if fmt != "ftl" and val != VALUES[vi][0]:
            out.violations.append({"what": "%s: value %r read back as %r" % (fmt, shown, val), "input": inp})
        elif w != words(fmt, KEYS[fmt][0], vi):
            out.violations.append({"what": "%s: count_words(%r) = %d, expected %d" % (fmt, shown, w, words(fmt, KEYS[fmt][0], vi)),
                                   "input": inp})
        if fmt != "ftl":
            lits.append(val)
    # (b) random markup: the base Entry.count_words vs the model
    for _ in range(ctx.n(1500, 40000)):
        lits.append("".join(rng.choice(WORD_TOKENS) for _ in range(rng.randrange(0, 9))))
    for n in range(4):
        for toks in itertools.product(WORD_TOKENS[:9], repeat=n):
            lits.append("".join(toks))
    lits = sorted(set(lits))
    res = pool.pmap("impl.compare", "impl_words_literal", [[v] for v in lits], timeout=5.0, batch=256)
    model = C.run_driver_parallel(["c03.words " + C.enc(v) for v in lits]) if ctx.model_ok else [None] * len(lits)
    for v, r, mo in zip(lits, res, model):
        out.evaluations += 1
        if "r" not in r:
            out.violations.append({"what": "count_words raised %s" % r, "input": {"value": v}})
            continue
        out.count("words=%d" % min(r["r"], 5))
        if r["r"] >= 2 and "<" in v:
            out.nontrivial.add(("words", v))
        if mo is not None and mo != str(r["r"]):
            out.disagreements.append({"op": "c03.words", "value": v, "impl": r["r"], "model": mo})


def replay(payload):
    res = []
    for v in payload.get("violations", []):
        i = v["input"]
        if "reference" not in i:
            continue
        case = dict(i["case"])
        case.update({"fmt": i["fmt"], "verdicts": i["verdicts"]})
        r = pool.pmap("impl.compare", "impl_compare", [[i["fmt"], i["reference"], i["localized"], i["verdicts"], i["add"]]],
                      timeout=20.0)[0]
        judged = oracle(case, r) if (not i["verdicts"] or "exc" in r) else None     # as in run(): filters are not judged
        res.append({"input": {k: i[k] for k in ("fmt", "reference", "localized")}, "oracle": judged,
                    "report": r.get("r", r) if "r" not in r else r["r"]["canon"]})
    return {"violates": any(r["oracle"] for r in res), "cases": res}

"""C11 — Reference and l10n path patterns map files back and forth losslessly.
(The engine below is shared with props/c12.py.)"""
import itertools

from lib import common as C
from lib import pool
from lib.runner import Outcome
from impl import pathgen as G

ID = "C11"
LEAN_TARGETS = ["CLModel.Props.C11", "CLModel.Props.C12"]
M = "CLModel.Props.C11"
THEOREMS = [
    (M, "C11.sub_none_iff", "a.sub(b, path) is None exactly when a.match(path) is None: a file is mapped iff its own pattern covers it (all patterns, environments, paths)"),
    (M, "C11.sub_of_match", "a.sub(b, path) = expansion of b's pattern in the environment 'groups captured by a, then b's own environment on top'"),
    (M, "C11.match_sound_partial", "mapping back returns the original path, for sub onto the same matcher: m.sub(m, path) = path, the reported groups re-assemble exactly the matched path; all paths, simple patterns (literals, *, **, first-occurrence variables, any root) with a plain-text environment"),
    (M, "C11.sub_roundtrip_star_partial", "the round trip between TWO matchers: a, b with the same wildcards whose top-level nodes are literals, `*`, `**/` (or a final `**`) and first occurrences of fully bound variables whose values may use further variables ({l} = '{l10n_base}/{locale}/'; any roots, literals and variables may differ); for the path pa = a filled with well separated wildcard values and pb = b filled with the same values: a.sub(b, pa) = pb, b.sub(a, pb) = pa, and both are matched"),
    (M, "C11.roundtrip_separator_witness", "separation is forced on BOTH sides: '*/*' -> '*.*' maps 'a/b.c' to 'a.b.c', the way back gives 'a.b/c'"),
    (M, "C11.env_consistent", "in that environment the other matcher's bindings win over captured text of the same name; all other captured groups pass through unchanged"),
    (M, "C11.sub_rejects_trailing_newline", "a path with a trailing newline is not mapped (sub returns None), the same path without it is"),
    (M, "C11.same_wildcards_witness", "SameWildcards is forced: a wildcard only the other pattern has makes sub raise KeyError"),
    (M, "C11.two_starstar_witness", "WellSeparated is forced: with two `**` the way back gives a different path"),
    ("CLModel.Props.C12", "C12.match_returns_bound_values", "after a successful match, a bound top-level variable's entry is the expansion of its value (used for 'substituted consistently')"),
]
PARTIAL = [
    "sub_roundtrip_star_partial (a.sub(b, .) then b.sub(a, .) is the identity, both sides matched with the filled values) is proved for the restricted "
    "class only: top-level literals, `*`, one `**/` (anything double-star-free after it) or a final `**`, first occurrences of fully bound variables (nested "
    "values allowed), well separated fillings on both sides (forced: roundtrip_separator_witness, same_wildcards_witness, two_starstar_witness), regex "
    "compiles (F12), root decision succeeds (F11), env keys distinct and not named s<n>, no {android_locale}.  NOT proved: repeated variables "
    "(back-references), {android_locale}, variables unbound on one side (captured from the path); there the construction-based oracle checks every generated pair (expected paths and "
    "groups are known by construction)",
    "match_sound_partial is restricted (not forced) to environments of plain texts, first occurrences of variables, no {android_locale}",
]
LEVEL_TEXT = ("Lean 4 theorems over an executable transliteration of paths/matcher.py: for ALL patterns, environments and paths, sub maps "
              "exactly the matched paths and is the expansion of the other pattern under 'captures, then the other environment' (other "
              "env wins, remaining groups unchanged), and for simple matchers the captured groups re-assemble exactly the matched path "
              "(match_sound); the two-matcher round trip is proved for the restricted class (literals, `*`, one `**/` or a final `**`, fully bound "
              "variables incl. nested values; completeness + uniqueness of the backtracking matcher on well separated fillings) and beyond it established by differential + construction-based testing: "
              "bounded-exhaustive pattern pairs (8 segment forms, <= 2/3 segments, all small fills) and seeded random pairs of the "
              "configuration grammar, expected paths and groups known by construction; the model is tied to the Python by structural "
              "equality of the generated regex AST and by equal results on every case")
LEVEL_NOTE = ("the round-trip theorem is proved for a restricted class only (see partial); trusted: Lean kernel, hand-written model validated by correspondence, "
              "re.escape/re.compile identity checked structurally on every run; hypotheses with negation witnesses: "
              "SameWildcards, WellSeparated, FirstNodeOK (F11), DistinctGroupNames (F12)")
TECHNIQUE = "Lean 4 proof over an executable model of paths/matcher.py + differential correspondence (incl. structural equality of the generated regex) + construction-based oracle"
TRUSTED = [
    "hand-written model CLModel/Paths/Matcher.lean of PatternParser, Pattern/Node.expand/regex_pattern, Matcher.match/sub/prefix (tied by the pm.* correspondence)",
    "`re.escape(s)` followed by `re.compile` = the literal characters of s; group names <-> group numbers (both checked on every run: the model's regex AST must equal the parse of the real `_cached_re.pattern`)",
    "regexes, regex fragments (f-string parts of regex_pattern) and the Android tables are regenerated from /repo by the translator on every run",
]
ASSUMPTIONS = [
    "variable names are ASCII identifiers; Matcher.encoding is None; root is an absolute normalised path (os.path.abspath is outside the model)",
]

F11 = "F11-rooted-pattern-first-node-not-expandable"
F12 = "F12-variable-reachable-twice-duplicate-group"
F14 = "C12-android-locale-cycle-recursion"
FB = "C12-android-bplus-strips-inner-b"


def classify(v):
    return v.get("finding")


import re as _re

_TOK = _re.compile(r"\*|\{ *(\w+) *\}")


def _full_env(spec):
    env = dict(spec.get("env") or [])
    env.update(dict(spec.get("with") or []))
    return env


def dup_groups(spec):
    """root cause of F12, decided on the *input*: some group name is defined twice, i.e. a variable is
    reachable twice in non-repeat position (directly / through env values / through a self reference), or two
    reachable texts both contain wildcards (both number them from s1), or a variable is called like a wildcard group"""
    env = _full_env(spec)
    names = []

    def walk(text, gone):
        known = set()
        stars = 0
        for m in _TOK.finditer(text):
            if m.group(0) == "*":
                stars += 1
                if stars == 1:
                    names.append("s1")
                continue
            n = m.group(1)
            if n in known:
                continue
            known.add(n)
            names.append(n)
            if n == "android_locale":
                continue
            if n in env and n not in gone:
                walk(env[n], gone | {n})
    walk(spec["pat"], frozenset())
    if len(names) != len(set(names)):
        return True
    return any(_re.fullmatch(r"s\d+", n) for n in names if n != "s1") and "s1" in names


def android_cycle(spec):
    """root cause of F14 on the input: env['locale'] reaches {android_locale}"""
    env = _full_env(spec)
    seen = set()

    def walk(text, gone):
        for m in _TOK.finditer(text):
            n = m.group(1)
            if n == "android_locale":
                return True
            if n and n in env and n not in gone and walk(env[n], gone | {n}):
                return True
        return False
    return "locale" in env and walk(env["locale"], frozenset())


def first_not_expandable(spec):
    """root cause of F11 on the input: rooted, and the first node is a wildcard or an unbound variable"""
    if spec.get("root") is None:
        return False
    env = _full_env(spec)
    m = _TOK.match(spec["pat"])
    if not m:
        return False
    if m.group(0) == "*":
        return True
    n = m.group(1)
    if n == "android_locale":
        return "locale" not in env
    return n not in env


def finding_of_exc(raw, spec):
    """root-cause predicate for an exception raised by match/sub/prefix: exception kind + a property of the input"""
    if not isinstance(raw, dict) or "exc" not in raw or spec is None:
        return None
    if raw["exc"] == "error" and raw.get("msg", "").startswith("redefinition of group name") and dup_groups(spec):
        return F12
    if raw["exc"] in ("RecursionError", "Hang") and android_cycle(spec):
        return F14
    if raw["exc"] in ("KeyError", "IndexError", "MissingEnvironment") and first_not_expandable(spec):
        return F11
    return None


def is_exc(x):
    return isinstance(x, dict) and "exc" in x and set(x) <= {"exc", "msg"}


# ------------------------------------------------------------------ bounded-exhaustive sides
SEG_ALPHA = [
    [("t", "a")], [("t", "b.c")], [("s", None)], [("t", "p"), ("s", None), ("t", ".ftl")], [("d", None)],
    [("v", "locale")], [("v", "v"), ("t", "-x")], [("a",)],
    # two adjacent stars at the start of a segment, followed by text: two single stars ("x" = the second one)
    [("s", None), ("x", None), ("t", ".ftl")],
]
ENUM_ENVS = [
    {"locale": "de", "v": "{w}q", "w": "z"},
    {"locale": "sr-Latn", "v": "/abs", "w": "unused"},
]


def enum_sides(maxlen):
    """every segment sequence over SEG_ALPHA up to maxlen with at most one `**` and without a
    variable reachable twice in non-repeat position through the environment"""
    out = []
    for n in range(1, maxlen + 1):
        for segs in itertools.product(range(len(SEG_ALPHA)), repeat=n):
            if sum(1 for i in segs if SEG_ALPHA[i] == [("d", None)]) > 1:
                continue
            sd = G.Side()
            k = 0
            sig = []
            for i in segs:
                seg = []
                for a in SEG_ALPHA[i]:
                    if a[0] in "sdx":
                        seg.append(("s" if a[0] == "x" else a[0], k))
                        sig.append(a[0])
                        k += 1
                    else:
                        seg.append(a)
                sd.segs.append(seg)
            trailing = sd.segs[-1][0][0] == "d"
            out.append((tuple(sig) + (("T",) if trailing else ()), sd))
    return out


def fill_options(sig):
    """small fills per wildcard of a signature ('x' = second of two adjacent stars: greedy leaves it empty)"""
    kinds = [k for k in sig if k != "T"]
    opts = []
    for i, k in enumerate(kinds):
        if k == "s":
            opts.append(["", "m", "x.y"])
        elif k == "x":
            opts.append([""])
        elif "T" in sig and i == len(kinds) - 1:
            opts.append(["", "f", "d/f.x"])
        else:
            opts.append(["", "d/", "d/e/"])
    return list(itertools.product(*opts))


def enum_pairs(ctx):
    sides = enum_sides(2 if ctx.tier == "quick" else 3)
    bysig = {}
    for sig, sd in sides:
        bysig.setdefault(sig, []).append(sd)
    rng = ctx.rng("c11", "enum")
    triples = []
    for sig, group in sorted(bysig.items()):
        allf = fill_options(sig)
        for idx, a in enumerate(group):
            # quick: pair with a few partners; thorough: more
            partners = [group[(idx * 7 + j * 13 + 1) % len(group)] for j in range(2 if ctx.tier == "quick" else 3)]
            for b in partners:
                for fl in (allf if len(allf) <= 9 else rng.sample(allf, 9)):
                    a2, b2 = clone(a), clone(b)
                    a2.env = dict(ENUM_ENVS[idx % 2])
                    b2.env = dict(ENUM_ENVS[(idx + 1) % 2])
                    triples.append((a2, b2, dict(enumerate(fl))))
    return triples


def clone(sd):
    c = G.Side()
    c.segs = [list(s) for s in sd.segs]
    c.env = dict(sd.env)
    c.withenv = None if sd.withenv is None else dict(sd.withenv)
    c.root = sd.root
    return c


# ------------------------------------------------------------------ engine
def run_pairs(ctx, out, triples, cls, want_sub=True, want_neg=False, rng=None):
    """implementation + model + oracle for well-formed pairs (a, b, fills)"""
    jobs = []
    for a, b, fills in triples:
        fills = b.normalize_fills(a.normalize_fills(dict(fills)))
        pa, pb = a.fill(fills), b.fill(fills)
        muts = G.mutate_paths(rng, a, fills, pa) if want_neg else []
        jobs.append((a, b, fills, pa, pb, muts))
    specs_a = [a.spec([pa] + [p for _, p in muts]) for a, b, fills, pa, pb, muts in jobs]
    specs_b = [b.spec([pb]) for a, b, fills, pa, pb, muts in jobs]
    ra = pool.pmap("impl.matcher", "impl_matcher", [[s] for s in specs_a], timeout=5.0)
    rb = pool.pmap("impl.matcher", "impl_matcher", [[s] for s in specs_b], timeout=5.0) if want_sub else [None] * len(jobs)
    rs = pool.pmap("impl.matcher", "impl_sub", [[{"a": sa, "b": sb, "paths": [j[3]]}] for sa, sb, j in zip(specs_a, specs_b, jobs)],
                   timeout=5.0) if want_sub else [None] * len(jobs)
    lines = []
    for sa, sb, j in zip(specs_a, specs_b, jobs):
        lines.append("pm.info " + G.margs(sa))
        lines.append("pm.match " + G.margs(sa) + G.paths_arg(sa["paths"]))
        if want_sub:
            lines.append("pm.match " + G.margs(sb) + G.paths_arg(sb["paths"]))
            lines.append("pm.sub " + G.margs(sa) + " " + G.margs(sb) + G.paths_arg([j[3]]))
    model = C.run_driver_parallel(lines) if ctx.model_ok else [None] * len(lines)
    per = 4 if want_sub else 2
    for idx, (j, sa, sb, xa, xb, xs) in enumerate(zip(jobs, specs_a, specs_b, ra, rb, rs)):
        a, b, fills, pa, pb, muts = j
        mo = model[idx * per:(idx + 1) * per]
        out.evaluations += 1
        inp = {"a": sa, "b": sb if want_sub else None, "fills": {str(k): v for k, v in fills.items()}, "path_a": pa, "path_b": pb,
               "class": cls}
        bad = []

        def viol(what, raw=None, spec=None, finding=None):
            f = finding
            for sp in (spec if isinstance(spec, list) else [spec]):
                f = f or finding_of_exc(raw, sp)
            bad.append({"what": what, "input": inp, "finding": f, "op": "pair"})
        for x, nm in ((xa, "a"), (xb, "b"), (xs, "sub")):
            if x is not None and "r" not in x:
                viol("%s: adapter failed: %s %s" % (nm, x.get("exc"), x.get("msg")))
        if bad:
            out.violations += bad
            continue
        xa = xa["r"]
        rw_a, rw_b = sa, sb
        exp_a = a.expected_groups(fills)
        got_a = xa["match_raw"][0]
        if got_a != exp_a:
            viol("a.match(path obtained by filling a's wildcards) = %r, expected %r" % (got_a, exp_a), got_a, rw_a)
        if want_neg:
            check_single(a, fills, pa, muts, xa, viol, rw_a, out)
        if want_sub:
            xb, xs = xb["r"], xs["r"]
            exp_b = b.expected_groups(fills)
            got_b = xb["match_raw"][0]
            if got_b != exp_b:
                viol("b.match(path obtained by filling b's wildcards) = %r, expected %r" % (got_b, exp_b), got_b, rw_b)
            fwd, back = xs["raw"][0]
            if fwd != pb:
                viol("a.sub(b, path_a) = %r, expected %r" % (fwd, pb), fwd if is_exc(fwd) else got_a, [rw_a, rw_b])
            elif back != pa:
                viol("b.sub(a, a.sub(b, path_a)) = %r, expected the original %r" % (back, pa), back if is_exc(back) else got_b, [rw_a, rw_b])
        if bad:
            out.violations += bad
            out.count(cls + ".violations")
        # correspondence
        canon = [xa["info"], xa["matches"]] + ([xb["matches"], xs["subs"]] if want_sub else [])
        for nm, im, mm in zip(("info", "match", "match.b", "sub"), canon, mo):
            if mm is not None and im != mm:
                out.disagreements.append({"op": "pm." + nm, "input": inp, "impl": im, "model": mm})
                break
        if fills and isinstance(got_a, dict):
            out.nontrivial.add((sa["pat"], pa))
        out.count(cls + ".cases")
        if len(out.samples) < 8 and len(fills) >= 2 and want_neg and muts and out.distribution.get("sampled." + cls, 0) < 3 \
                and isinstance(got_a, dict):
            out.count("sampled." + cls)
            out.samples.append({"class": cls, "pattern": sa["pat"], "env": sa["env"], "root": sa["root"], "path": pa, "groups": got_a,
                                "prefix": xa["prefix"], "mutated": [[k, p, xa["match_raw"][i + 1] is not None]
                                                                    for i, (k, p) in enumerate(muts[:4])]})
        if len(out.samples) < 6 and len(fills) >= 2 and want_sub and out.distribution.get("sampled." + cls, 0) < 2:
            out.count("sampled." + cls)
            out.samples.append({"class": cls, "a": sa["pat"], "env_a": sa["env"], "b": sb["pat"], "env_b": sb["env"],
                                "path_a": pa, "a.sub(b)": pb, "groups": got_a})


def check_single(a, fills, pa, muts, xa, viol, spec, out):
    """C12 laws on one matcher with its filled path and the mutated paths"""
    toks = a.tokens()
    prefix = xa["prefix"]
    exp_prefix = a.fill(fills, upto_first_wildcard=True)
    if not fills and xa["str"] != pa:
        viol("str(matcher) = %r, expected the expansion %r" % (xa["str"], pa), xa["str"], spec)
    if prefix != exp_prefix:
        viol("prefix = %r, expected the expansion up to the first wildcard %r" % (prefix, exp_prefix), prefix, spec)
    for (kind, p), got in zip([("filled", pa)] + muts, xa["match_raw"]):
        if is_exc(got):
            viol("match(%r) raised %s" % (p, got["exc"]), got, spec)
            continue
        exp = G.ref_match(toks, p)
        out.count("neg.%s.%s" % (kind, "match" if got is not None else "nomatch"))
        if (got is not None) != exp:
            f = None
            viol("match(%r) [%s] %s, but the pattern %s it" % (p, kind, "succeeds" if got is not None else "fails",
                                                                "does not cover" if got is not None else "covers"), finding=f)
            continue
        if got is not None:
            if isinstance(prefix, str) and not p.startswith(prefix):
                viol("matched path %r does not start with prefix %r" % (p, prefix))
            for s in xa["stars"]:
                if got.get(s) is not None and "/" in got[s]:
                    viol("star group %s = %r contains a separator (path %r)" % (s, got[s], p))
            for s, sfx in xa["dstars"].items():
                if sfx == "/" and got.get(s) not in (None, "") and not got[s].endswith("/"):
                    viol("double star group %s = %r is not a sequence of whole directories (path %r)" % (s, got[s], p))


def replay_single(i):
    """re-run one matcher on its stored paths and re-apply the laws that need no generator state"""
    sa = {k: i["a"][k] for k in ("pat", "env", "root", "with", "paths")}
    ra = pool.pmap("impl.matcher", "impl_matcher", [[sa]], timeout=10.0)[0]
    if "r" not in ra:
        return {"input": i, "result": ra, "violates": True}
    r = ra["r"]
    bad = []
    got0 = r["match_raw"][0] if r["match_raw"] else None
    if not isinstance(got0, dict) or is_exc(got0):
        bad.append("the path obtained by filling the wildcards is not matched: %r" % (got0,))
    for p, g in zip(sa["paths"], r["match_raw"]):
        if is_exc(g) or g is None:
            continue
        if isinstance(r["prefix"], str) and not p.startswith(r["prefix"]):
            bad.append("matched %r does not start with prefix %r" % (p, r["prefix"]))
        if p.endswith("\n") and sa["pat"][-2:] != "**":
            bad.append("path with trailing newline matched: %r" % p)
        for st in r["stars"]:
            if g.get(st) is not None and "/" in g[st]:
                bad.append("star group with separator: %r" % g[st])
    return {"input": i, "matches": r["match_raw"], "prefix": r["prefix"], "violates": bool(bad), "laws": bad}


def replay(payload):
    res = []
    for v in payload.get("violations", []):
        i = v["input"]
        if v.get("op") == "sequence":
            res.append(replay_sequence(i))
            continue
        if v.get("op") == "foreign":
            rs = pool.pmap("impl.matcher", "impl_sub", [[{"a": i["a"], "b": i["b"], "paths": i["paths"]}]], timeout=10.0)[0]
            raw = rs["r"]["raw"] if "r" in rs else None
            res.append({"input": i, "sub": raw,
                        "violates": raw is None or any(f is not None and b != p for p, (f, b) in zip(i["paths"], raw))})
            continue
        if v.get("op") != "pair":
            continue
        if not i.get("b"):
            res.append(replay_single(i))
            continue
        sa = dict(i["a"])
        sa["paths"] = [i["path_a"]]
        rs = pool.pmap("impl.matcher", "impl_sub", [[{"a": sa, "b": i["b"], "paths": [i["path_a"]]}]], timeout=10.0)[0]
        r = {"input": i}
        r["sub"] = rs["r"]["raw"][0] if "r" in rs else rs
        r["violates"] = r["sub"] != [i["path_b"], i["path_a"]]
        res.append(r)
    return {"violates": any(r.get("violates") for r in res), "cases": res}


# ------------------------------------------------------------------ hypothesis probes (negation witnesses on the real code)
def probe_cases(rng, n):
    """pairs outside the theorems' hypotheses: the oracle states what the property text promises"""
    out = []
    for _ in range(n):
        a, b, fills = G.gen_pair(rng)
        r = rng.random()
        if r < 0.4:
            # F11: rooted pattern starting with a wildcard
            k = len(fills)
            a.segs.insert(0, [("s", k)])
            b.segs.insert(0, [("s", k)])
            # renumber: the new star is the first wildcard
            for sd in (a, b):
                for seg in sd.segs:
                    for i, at in enumerate(seg):
                        if at[0] in "sd":
                            seg[i] = (at[0], (at[1] + 1) % (k + 1))
            fills = {(i + 1) % (k + 1): v for i, v in fills.items()}
            fills[0] = rng.choice(["top", "x"])
            a.root = rng.choice(G.ROOTS)
            out.append(("probe.rooted-wildcard-first", a, b, fills))
        else:
            # F12: a variable reachable twice in non-repeat position
            sd = a if rng.random() < 0.5 else b
            env = sd.full_env()
            if "v" in env or "w" in env or sd.withenv is not None or sd.segs[-1][0][0] == "d":
                continue
            sd.segs.append([("v", "v"), ("t", "."), ("v", "w")])
            sd.env["v"] = "{w}x"
            sd.env["w"] = rng.choice(["de", "q"])
            if rng.random() < 0.3:
                sd.env["v"] = "{v}y"      # self-reference
                sd.segs[-1] = [("t", "k-"), ("v", "w")]
                sd.segs.append([("t", "z")])
                # '{v}' is then not bound to a finite value: the claim is only that matching does not crash
                continue
            out.append(("probe.variable-twice", a, b, fills))
    return out


def run_foreign(ctx, out, triples):
    """paths a pattern must not map: the filled path with a trailing newline, with an extra
    character, with an extra segment.  If a.sub(b, p) is a path at all, mapping back must give p."""
    jobs = []
    for a, b, fills in triples:
        fills = b.normalize_fills(a.normalize_fills(dict(fills)))
        if a.tokens()[-1:] == [("D", "")]:
            continue
        pa = a.fill(fills)
        jobs.append((a, b, [pa + "\n", pa + "x", pa + "/x" if not pa.endswith("/") else pa + "x/y"]))
    res = pool.pmap("impl.matcher", "impl_sub", [[{"a": a.spec(), "b": b.spec(), "paths": ps}] for a, b, ps in jobs], timeout=5.0)
    model = C.run_driver_parallel(["pm.sub " + G.margs(a.spec()) + " " + G.margs(b.spec()) + G.paths_arg(ps) for a, b, ps in jobs]) \
        if ctx.model_ok else [None] * len(jobs)
    for (a, b, ps), r, mo in zip(jobs, res, model):
        out.evaluations += 1
        inp = {"a": a.spec(), "b": b.spec(), "paths": ps, "class": "foreign"}
        if "r" not in r:
            out.violations.append({"what": "sub raised %s" % r.get("exc"), "input": inp, "op": "foreign", "finding": None})
            continue
        for p, (fwd, back) in zip(ps, r["r"]["raw"]):
            if fwd is not None and back != p:
                f = None
                if is_exc(fwd) or is_exc(back):
                    f = finding_of_exc(fwd if is_exc(fwd) else back, a.spec()) or finding_of_exc(fwd if is_exc(fwd) else back, b.spec())
                out.violations.append({"what": "a.sub(b, %r) = %r and b.sub(a, .) = %r: not the original path" % (p, fwd, back),
                                       "input": inp, "op": "foreign", "finding": f})
                break
        if mo is not None and mo != r["r"]["subs"]:
            out.disagreements.append({"op": "pm.sub", "input": inp, "impl": r["r"]["subs"], "model": mo})
        out.count("foreign.cases")


SEPARATOR_PAIRS = [
    # (a, b, paths): excluded points of C11.sub_roundtrip_star_partial (separation on b's side); two stars in one
    # segment are outside the grammar of the property, so only model == implementation is demanded here
    ("*/*", "*.*", ["a/b.c", "a/b", "a.b/c"]),
    ("*.*", "*/*", ["a.b.c", "a.b"]),
    ("*-*.ftl", "*/*.ftl", ["a-b-c.ftl", "a-b.ftl"]),
    ("ref/en-US/**/*.ftl", "l/**/*.ftl", ["ref/en-US/a/b/c.d.ftl", "ref/en-US/c.ftl"]),
]


def run_separator_probe(ctx, out):
    mk = lambda pat: {"pat": pat, "env": [], "root": None, "with": None, "paths": []}
    jobs = [(mk(a), mk(b), ps) for a, b, ps in SEPARATOR_PAIRS]
    res = pool.pmap("impl.matcher", "impl_sub", [[{"a": a, "b": b, "paths": ps}] for a, b, ps in jobs], timeout=5.0)
    model = C.run_driver_parallel(["pm.sub " + G.margs(a) + " " + G.margs(b) + G.paths_arg(ps) for a, b, ps in jobs]) \
        if ctx.model_ok else [None] * len(jobs)
    for (a, b, ps), r, mo in zip(jobs, res, model):
        out.evaluations += 1
        inp = {"a": a, "b": b, "paths": ps, "class": "probe.separator"}
        if "r" not in r:
            out.violations.append({"what": "sub raised %s" % r.get("exc"), "input": inp, "op": "probe-sep", "finding": None})
            continue
        if mo is not None and mo != r["r"]["subs"]:
            out.disagreements.append({"op": "pm.sub", "input": inp, "impl": r["r"]["subs"], "model": mo})
        out.count("probe.separator.cases")


def run_sequences(ctx, out, n, rng, cls="sequence"):
    """a matcher is used (its regex gets cached), THEN rebound with with_env: everything the rebound matcher
    does must follow the NEW environment, everything the original does the old one"""
    jobs = []
    for _ in range(n):
        g = G.gen_sequence(rng)
        if g is None:
            continue
        a0, a1, b, fills, key = g
        if dup_groups(a0.spec()) or dup_groups(b.spec()) or first_not_expandable(a0.spec()) or first_not_expandable(b.spec()):
            continue
        jobs.append((a0, a1, b, fills, key, a0.fill(fills), a1.fill(fills), b.fill(fills)))
    cases = [{"a0": a0.spec(), "with": sorted(a1.withenv.items()), "b": b.spec(), "p_old": po, "p_new": pn, "pb": pb}
             for a0, a1, b, fills, key, po, pn, pb in jobs]
    res = pool.pmap("impl.matcher", "impl_sequence", [[c] for c in cases], timeout=5.0)
    lines = []
    for (a0, a1, b, fills, key, po, pn, pb) in jobs:
        lines.append("pm.match " + G.margs(a1.spec()) + G.paths_arg([pn, po]))
        lines.append("pm.match " + G.margs(a0.spec()) + G.paths_arg([po, pn]))
    model = C.run_driver_parallel(lines) if ctx.model_ok else [None] * len(lines)
    for idx, ((a0, a1, b, fills, key, po, pn, pb), case, r) in enumerate(zip(jobs, cases, res)):
        out.evaluations += 1
        inp = dict(case)
        inp["class"] = cls
        inp["rebound"] = key
        if "r" not in r:
            out.violations.append({"what": "sequence: adapter failed: %s %s" % (r.get("exc"), r.get("msg")), "input": inp,
                                   "op": "sequence", "finding": None})
            continue
        got, canon = r["r"]["res"], r["r"]["canon"]
        toks0, toks1 = a0.tokens(), a1.tokens()
        exp = [
            ("a0.match.old", a0.expected_groups(fills), "eq"),
            ("a0.prefix", a0.fill(fills, upto_first_wildcard=True), "eq"),
            ("a0.sub.old", pb, "eq"),
            ("a1.match.new", a1.expected_groups(fills), "eq"),
            ("a1.match.old", G.ref_match(toks1, po), "covers"),
            ("a1.prefix", a1.fill(fills, upto_first_wildcard=True), "eq"),
            ("a1.sub.new", pb, "eq"),
            ("b.sub.a1", pn, "eq"),
            ("a0.match.old.again", a0.expected_groups(fills), "eq"),
            ("a0.match.new", G.ref_match(toks0, pn), "covers"),
            ("b.sub.a0", po, "eq"),
        ]
        bad = False
        for name, e, how in exp:
            if name not in got:
                out.violations.append({"what": "sequence: with_env raised %r" % (got.get("with_env"),), "input": inp, "op": "sequence",
                                       "finding": finding_of_exc(got.get("with_env"), a1.spec())})
                bad = True
                break
            g = got[name]
            ok = (g == e) if how == "eq" else (not is_exc(g) and (g is not None) == e)
            if not ok:
                f = finding_of_exc(g, a0.spec()) or finding_of_exc(g, a1.spec()) or finding_of_exc(g, b.spec())
                out.violations.append({"what": "after a0 was used and then rebound with with_env({%r: %r}): %s = %r, expected %s %r"
                                       % (key, a1.withenv[key], name, g, "" if how == "eq" else "covered =", e),
                                       "input": inp, "op": "sequence", "finding": f})
                bad = True
                break
        if bad:
            out.count(cls + ".violations")
            continue
        m1, m0 = model[2 * idx], model[2 * idx + 1]
        if m1 is not None and m1 != canon["a1.match.new"] + " | " + canon["a1.match.old"]:
            out.disagreements.append({"op": "pm.match(sequence, rebound)", "input": inp, "model": m1,
                                      "impl": canon["a1.match.new"] + " | " + canon["a1.match.old"]})
        elif m0 is not None and m0 != canon["a0.match.old.again"] + " | " + canon["a0.match.new"]:
            out.disagreements.append({"op": "pm.match(sequence, original)", "input": inp, "model": m0,
                                      "impl": canon["a0.match.old.again"] + " | " + canon["a0.match.new"]})
        out.nontrivial.add(("seq", case["a0"]["pat"], po, pn))
        out.count(cls + ".cases")
        out.count(cls + ".rebound." + ("indirect" if key not in [x[1] for x in a0.atoms() if x[0] == "v"] else "direct"))
        if out.distribution.get("sampled." + cls, 0) < 2 and len(out.samples) < 12:
            out.count("sampled." + cls)
            out.samples.append({"class": cls, "pattern": case["a0"]["pat"], "env": case["a0"]["env"], "with_env": case["with"],
                                "old path": po, "new path": pn, "rebound matcher on old path": got["a1.match.old"]})


def replay_sequence(i):
    case = {k: i[k] for k in ("a0", "with", "b", "p_old", "p_new", "pb")}
    r = pool.pmap("impl.matcher", "impl_sequence", [[case]], timeout=10.0)[0]
    if "r" not in r:
        return {"input": i, "result": r, "violates": True}
    g = r["r"]["res"]
    # laws that need no generator state: the rebound matcher maps its new path there and back, and if the new
    # path differs from the old one in a bound variable the rebound matcher must not keep matching like the original
    bad = []
    if g.get("a1.sub.new") != i["pb"]:
        bad.append("a1.sub(b, new path) = %r" % (g.get("a1.sub.new"),))
    if g.get("b.sub.a1") != i["p_new"]:
        bad.append("b.sub(a1, .) = %r" % (g.get("b.sub.a1"),))
    if not isinstance(g.get("a1.match.new"), dict) or is_exc(g.get("a1.match.new")):
        bad.append("a1.match(new path) = %r" % (g.get("a1.match.new"),))
    if g.get("b.sub.a0") != i["p_old"]:
        bad.append("b.sub(a0, .) = %r" % (g.get("b.sub.a0"),))
    return {"input": i, "result": g, "violates": bool(bad), "laws": bad}


def run(ctx):
    out = Outcome()
    out.rule = ("pairs (a, b) of patterns with the same wildcard sequence: bounded-exhaustive over 8 segment forms (literal, "
                "star with affixes, `**`, {locale}, {v}-x, {android_locale}) up to 2 (quick) / 3 (thorough) segments x all small fills, "
                "plus seeded random pairs from the configuration grammar (roots, with_env layers, nested variables, regex-special "
                "literals, `**.ftl`-style adjacent stars, roots with regex metacharacters); operation SEQUENCES (use a matcher, then rebind it with "
                "with_env - preferably a variable used only indirectly - then use both); paths by filling the wildcards; non-trivial = a has >= 1 wildcard and a.match(path) succeeded; "
                "distinct = distinct (pattern a, path)")
    rng = ctx.rng("c11")
    triples = enum_pairs(ctx)
    out.count("enum.pairs", len(triples))
    run_pairs(ctx, out, triples, "enum", want_sub=True, want_neg=False)
    rnd = [G.gen_pair(rng) for _ in range(ctx.n(15000, 150000))]
    run_pairs(ctx, out, rnd, "random", want_sub=True, want_neg=False)
    run_foreign(ctx, out, rnd[:ctx.n(900, 5000)])
    run_sequences(ctx, out, ctx.n(2500, 25000), ctx.rng("c11", "seq"))
    pr = probe_cases(rng, ctx.n(400, 3000))
    for cls in sorted({p[0] for p in pr}):
        run_pairs(ctx, out, [p[1:] for p in pr if p[0] == cls], cls, want_sub=True, want_neg=False)
    run_separator_probe(ctx, out)
    return out

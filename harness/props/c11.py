"""C11 — Reference and l10n path patterns map files back and forth losslessly.
(The engine below is shared with props/c12.py.)"""
import itertools

from lib import common as C
from lib import pool
from lib.runner import Outcome
from impl import pathgen as G

ID = "C11"
LEAN_TARGETS = ["CLModel.Props.C11", "CLModel.Props.C12"]
M = "CLModel.Props.C11"
THEOREMS = [
    (M, "C11.sub_none_iff", "a.sub(b, path) is None exactly when a.match(path) is None: a file is mapped iff its own pattern covers it (all patterns, environments, paths)"),
    (M, "C11.sub_of_match", "a.sub(b, path) = expansion of b's pattern in the environment 'groups captured by a, then b's own environment on top'"),
    (M, "C11.match_sound_partial", "mapping back returns the original path, for sub onto the same matcher: m.sub(m, path) = path, the reported groups re-assemble exactly the matched path; all paths, simple patterns (literals, *, **, first-occurrence variables, any root) with a plain-text environment"),
    (M, "C11.sub_roundtrip_star_partial", "the round trip between TWO matchers: a, b with the same wildcards whose top-level nodes are literals, `*`, `**/` (or a final `**`) and first occurrences of fully bound variables whose values may use further variables ({l} = '{l10n_base}/{locale}/'; any roots, literals and variables may differ); for the path pa = a filled with well separated wildcard values and pb = b filled with the same values: a.sub(b, pa) = pb, b.sub(a, pb) = pa, and both are matched"),
    (M, "C11.roundtrip_separator_witness", "separation is forced on BOTH sides: '*/*' -> '*.*' maps 'a/b.c' to 'a.b.c', the way back gives 'a.b/c'"),
    (M, "C11.env_consistent", "in that environment the other matcher's bindings win over captured text of the same name; all other captured groups pass through unchanged"),
    (M, "C11.sub_rejects_trailing_newline", "a path with a trailing newline is not mapped (sub returns None), the same path without it is"),
    (M, "C11.same_wildcards_witness", "SameWildcards is forced: a wildcard only the other pattern has makes sub raise KeyError"),
    (M, "C11.two_starstar_witness", "WellSeparated is forced: with two `**` the way back gives a different path"),
    ("CLModel.Props.C12", "C12.match_returns_bound_values", "after a successful match, a bound top-level variable's entry is the expansion of its value (used for 'substituted consistently')"),
    (M, "C11.match_sound_general_partial", "match_sound for EVERY matched path with nested environment values, repeated variables and merely fully bound top-level variables: m.sub(m, path) = path; remaining: no top-level {android_locale}, env keys distinct and not named s<n>, no variable repeated inside one value"),
    (M, "C11.constructed_matcher_repN", "the order hypothesis (every repeated variable after its first occurrence) holds for every Matcher(pattern, env, root): proved about PatternParser"),
    (M, "C11.match_sound_android_witness", "{android_locale} with an unbound locale is forced out of match_sound: 'en-US/x' matched by '{android_locale}/x' maps to 'en-rUS/x'"),
    (M, "C11.sub_roundtrip_backref_partial", "the two-matcher round trip with REPEATED variables on either side ({l}a/{l}b/*.ftl, l10n/{locale}/x/{locale}.ftl): a.sub(b, pa) = pb, b.sub(a, pb) = pa, both matched; the earlier class is included"),
    (M, "C11.pattern_eq_iff", "Pattern.__eq__ (with the node __eq__s) is structural equality of nodes, root and prefix length: an equivalence (the test ProjectFiles folds duplicate rules with)"),
    (M, "C11.matcher_eq_refl_symm", "Matcher.__eq__ is reflexive and symmetric (environments are dicts), != is its negation"),
    (M, "C11.matcher_eq_not_transitive_witness", "Matcher.__eq__ is NOT transitive: a matcher without the variable equals two matchers that bind it differently"),
    (M, "C11.matcher_eq_same_behaviour", "equal matchers that bind the same variable names (in any order) match the same paths with the same captures, have the same prefix, str, compiled regex and sub"),
    (M, "C11.matcher_eq_limits_witness", "what == does not imply (one side binds a variable the other leaves open: equal, match differently) and what != does not imply (differ in an unused variable: unequal, match alike)"),
    (M, "C11.concat_joins_paths", "concat behaves as if the resulting paths were joined: str(a.concat(other)) = str(a) + expansion of other in the merged environment when a is fully bound; without a wildcard in a the prefix is str(a) + other's prefix"),
    (M, "C11.concat_witness", "concat on a real pair; two parts that both define group s1 cannot be compiled (concat does not renumber wildcards)"),
    (M, "C11.cache_never_stale", "_cached_re as explicit state: match/sub on the object = the stateless model and keep the cache equal to the regex of the CURRENT pattern/env/root; with_env, Matcher(m, env, root) and concat return objects with an EMPTY cache"),
    (M, "C11.cache_initially_empty", "a new matcher object has nothing cached"),
    (M, "C11.match_sub_preserve_env", "matcher OBJECTS with the env dict as mutable state (heap of dicts): match / sub answer CMatcher.match / sub of the views and change nothing but the _cached_re of the matcher they are called on - every existing dict and every other object is untouched, whatever they answer"),
    (M, "C11.with_env_copies_env", "with_env / Matcher(m, env, root) / concat create a NEW object with a NEW env dict (fresh address) holding the source's entries updated with the given ones, nothing cached, everything that existed untouched; the result is CMatcher.rebuild / concat of the source's view = what a fresh construction gives"),
    (M, "C11.env_write_is_local", "no aliasing: a write to one matcher's env (what concat does to its result) is invisible through every other matcher - a derived matcher cannot change its source nor the source a derived one"),
    (M, "C11.history_keeps_objects", "ANY history of non-writing calls (constructions, prefix, str, expand with missing variables, repr, ==, match, sub, with_env, re-rooted copies, concat; raising or not) keeps the store well formed and alias free, every object keeps its pattern / root / environment, every cache is the regex of its object's current state"),
    (M, "C11.history_start", "the empty store satisfies the hypotheses of history_keeps_objects"),
    (M, "C11.derived_after_history_is_fresh", "a matcher derived with with_env AFTER any such history is the one Matcher.rebuild computes from the source's ORIGINAL pattern and environment, with a new env dict and nothing cached"),
]
PARTIAL = [
    "sub_roundtrip_star_partial / sub_roundtrip_backref_partial (a.sub(b, .) then b.sub(a, .) is the identity, both sides matched with the filled values) are proved for the "
    "restricted class only: top-level literals, `*`, one `**/` (anything double-star-free after it) or a final `**`, fully bound variables (nested values allowed; "
    "since round 4 also REPEATED occurrences = back-references), well separated fillings on both sides (forced: roundtrip_separator_witness, same_wildcards_witness, "
    "two_starstar_witness), regex compiles (F12), root decision succeeds (F11), env keys distinct and not named s<n>, no {android_locale}.  NOT proved: {android_locale}, "
    "variables unbound on one side (captured from the path), a variable repeated INSIDE an environment value; there the construction-based oracle checks every generated pair",
    "match_sound_general_partial (all matched paths): nested values, repeated variables, fully bound or captured variables are covered; excluded: top-level {android_locale} "
    "(forced for an unbound locale: match_sound_android_witness; with a bound locale not proved), env keys named like a wildcard group (forced) and repetitions inside a value",
    "Matcher.__eq__ is not an equivalence (not transitive: witness); 'equal matchers behave alike' needs the same variable names on both sides (forced: matcher_eq_limits_witness)",
    "concat: str/prefix law proved (concat_joins_paths); matching of a concatenation is not proved in general (concat neither renumbers wildcards nor re-flags repeated "
    "variables: concat_witness), covered by the by-construction oracle for parts that define different groups",
]
LEVEL_TEXT = ("Lean 4 theorems over an executable transliteration of paths/matcher.py: for ALL patterns, environments and paths, sub maps "
              "exactly the matched paths and is the expansion of the other pattern under 'captures, then the other environment' (other "
              "env wins, remaining groups unchanged); the captured groups re-assemble exactly the matched path (match_sound) for nested values, repeated "
              "variables and captured variables; the two-matcher round trip is proved for the restricted class (literals, `*`, one `**/` or a final `**`, fully bound "
              "variables incl. nested values and repetitions; completeness + uniqueness of the backtracking matcher on well separated fillings); Matcher/Pattern equality, "
              "concat and the regex cache (explicit state: derived matchers never inherit it) have theorems; beyond the proved classes: differential + construction-based testing: "
              "bounded-exhaustive pattern pairs (8 segment forms, <= 2/3 segments, all small fills), seeded random pairs of the "
              "configuration grammar, operation sequences (warm-up, then with_env / re-rooted copy / concat, compared with a fresh matcher), HISTORIES on long-lived objects (partially bound source, "
              "looking calls incl. the ones that raise inside a nested expansion, staged with_env / copies / concat, env writes; purity of every call + fresh-object differential), file pairing by ProjectFiles on a real tree "
              "(also with the locale bound by ProjectFiles after the configuration's matchers were looked at); "
              "the model is tied to the Python by structural equality of the generated regex AST and by equal results on every case")
LEVEL_NOTE = ("the round-trip theorem is proved for a restricted class only (see partial); trusted: Lean kernel, hand-written model validated by correspondence, "
              "re.escape/re.compile identity checked structurally on every run; hypotheses with negation witnesses: "
              "SameWildcards, WellSeparated, FirstNodeOK (F11), DistinctGroupNames (F12), no top-level {android_locale} with an unbound locale (match_sound)")
TECHNIQUE = "Lean 4 proof over an executable model of paths/matcher.py + differential correspondence (incl. structural equality of the generated regex) + construction-based oracle"
TRUSTED = [
    "hand-written model CLModel/Paths/Matcher.lean of PatternParser, Pattern/Node.expand/regex_pattern, Matcher.match/sub/prefix (tied by the pm.* correspondence)",
    "`re.escape(s)` followed by `re.compile` = the literal characters of s; group names <-> group numbers (both checked on every run: the model's regex AST must equal the parse of the real `_cached_re.pattern`)",
    "regexes, regex fragments (f-string parts of regex_pattern) and the Android tables are regenerated from /repo by the translator on every run",
    "hand-written model CLModel/Paths/MatcherObj.lean of matcher OBJECTS (heap of env dicts, _no_cycle = env.copy() + pop, Variable.expand / Pattern.expand / regex_pattern in heap-passing style, prefix / str / repr / == / match / sub / copy constructor / concat / env write as store operations), tied by the c12.hist stream: result of every call AND the snapshot of every object after every call",
    "hand-written model CLModel/Paths/MatcherX.lean of Matcher.__eq__/__ne__, Pattern/node __eq__, concat, Matcher(matcher, env, root), expand(), the encoding branches and the regex cache as state (tied by the c12.eq / c12.concat / c12.rebuild / c12.expand / c12.enc / c12.seq streams)",
]
ASSUMPTIONS = [
    "variable names are ASCII identifiers; Matcher.encoding is None; root is an absolute normalised path (os.path.abspath is outside the model)",
]

F11 = "F11-rooted-pattern-first-node-not-expandable"
F12 = "F12-variable-reachable-twice-duplicate-group"
F14 = "C12-android-locale-cycle-recursion"
FB = "C12-android-bplus-strips-inner-b"


def classify(v):
    return v.get("finding")


import re as _re

_TOK = _re.compile(r"\*|\{ *(\w+) *\}")


def _full_env(spec):
    env = dict(spec.get("env") or [])
    env.update(dict(spec.get("with") or []))
    return env


def dup_groups(spec):
    """root cause of F12, decided on the *input*: some group name is defined twice, i.e. a variable is
    reachable twice in non-repeat position (directly / through env values / through a self reference), or two
    reachable texts both contain wildcards (both number them from s1), or a variable is called like a wildcard group"""
    env = _full_env(spec)
    names = []

    def walk(text, gone):
        known = set()
        stars = 0
        for m in _TOK.finditer(text):
            if m.group(0) == "*":
                stars += 1
                if stars == 1:
                    names.append("s1")
                continue
            n = m.group(1)
            if n in known:
                continue
            known.add(n)
            names.append(n)
            if n == "android_locale":
                continue
            if n in env and n not in gone:
                walk(env[n], gone | {n})
    walk(spec["pat"], frozenset())
    if len(names) != len(set(names)):
        return True
    return any(_re.fullmatch(r"s\d+", n) for n in names if n != "s1") and "s1" in names


def android_cycle(spec):
    """root cause of F14 on the input: env['locale'] reaches {android_locale}"""
    env = _full_env(spec)
    seen = set()

    def walk(text, gone):
        for m in _TOK.finditer(text):
            n = m.group(1)
            if n == "android_locale":
                return True
            if n and n in env and n not in gone and walk(env[n], gone | {n}):
                return True
        return False
    return "locale" in env and walk(env["locale"], frozenset())


def first_not_expandable(spec):
    """root cause of F11 on the input: rooted, and the first node is a wildcard or an unbound variable"""
    if spec.get("root") is None:
        return False
    env = _full_env(spec)
    m = _TOK.match(spec["pat"])
    if not m:
        return False
    if m.group(0) == "*":
        return True
    n = m.group(1)
    if n == "android_locale":
        return "locale" not in env
    return n not in env


def finding_of_exc(raw, spec):
    """root-cause predicate for an exception raised by match/sub/prefix: exception kind + a property of the input"""
    if not isinstance(raw, dict) or "exc" not in raw or spec is None:
        return None
    if raw["exc"] == "error" and raw.get("msg", "").startswith("redefinition of group name") and dup_groups(spec):
        return F12
    if raw["exc"] in ("RecursionError", "Hang") and android_cycle(spec):
        return F14
    if raw["exc"] in ("KeyError", "IndexError", "MissingEnvironment") and first_not_expandable(spec):
        return F11
    return None


def is_exc(x):
    return isinstance(x, dict) and "exc" in x and set(x) <= {"exc", "msg"}


# ------------------------------------------------------------------ bounded-exhaustive sides
SEG_ALPHA = [
    [("t", "a")], [("t", "b.c")], [("s", None)], [("t", "p"), ("s", None), ("t", ".ftl")], [("d", None)],
    [("v", "locale")], [("v", "v"), ("t", "-x")], [("a",)],
    # two adjacent stars at the start of a segment, followed by text: two single stars ("x" = the second one)
    [("s", None), ("x", None), ("t", ".ftl")],
]
ENUM_ENVS = [
    {"locale": "de", "v": "{w}q", "w": "z"},
    {"locale": "sr-Latn", "v": "/abs", "w": "unused"},
]


def enum_sides(maxlen):
    """every segment sequence over SEG_ALPHA up to maxlen with at most one `**` and without a
    variable reachable twice in non-repeat position through the environment"""
    out = []
    for n in range(1, maxlen + 1):
        for segs in itertools.product(range(len(SEG_ALPHA)), repeat=n):
            if sum(1 for i in segs if SEG_ALPHA[i] == [("d", None)]) > 1:
                continue
            sd = G.Side()
            k = 0
            sig = []
            for i in segs:
                seg = []
                for a in SEG_ALPHA[i]:
                    if a[0] in "sdx":
                        seg.append(("s" if a[0] == "x" else a[0], k))
                        sig.append(a[0])
                        k += 1
                    else:
                        seg.append(a)
                sd.segs.append(seg)
            trailing = sd.segs[-1][0][0] == "d"
            out.append((tuple(sig) + (("T",) if trailing else ()), sd))
    return out


def fill_options(sig):
    """small fills per wildcard of a signature ('x' = second of two adjacent stars: greedy leaves it empty)"""
    kinds = [k for k in sig if k != "T"]
    opts = []
    for i, k in enumerate(kinds):
        if k == "s":
            opts.append(["", "m", "x.y"])
        elif k == "x":
            opts.append([""])
        elif "T" in sig and i == len(kinds) - 1:
            opts.append(["", "f", "d/f.x"])
        else:
            opts.append(["", "d/", "d/e/"])
    return list(itertools.product(*opts))


def enum_pairs(ctx):
    sides = enum_sides(2 if ctx.tier == "quick" else 3)
    bysig = {}
    for sig, sd in sides:
        bysig.setdefault(sig, []).append(sd)
    rng = ctx.rng("c11", "enum")
    triples = []
    for sig, group in sorted(bysig.items()):
        allf = fill_options(sig)
        for idx, a in enumerate(group):
            # quick: pair with a few partners; thorough: more
            partners = [group[(idx * 7 + j * 13 + 1) % len(group)] for j in range(2 if ctx.tier == "quick" else 3)]
            for b in partners:
                for fl in (allf if len(allf) <= 9 else rng.sample(allf, 9)):
                    a2, b2 = clone(a), clone(b)
                    a2.env = dict(ENUM_ENVS[idx % 2])
                    b2.env = dict(ENUM_ENVS[(idx + 1) % 2])
                    triples.append((a2, b2, dict(enumerate(fl))))
    return triples


def clone(sd):
    c = G.Side()
    c.segs = [list(s) for s in sd.segs]
    c.env = dict(sd.env)
    c.withenv = None if sd.withenv is None else dict(sd.withenv)
    c.root = sd.root
    return c


# ------------------------------------------------------------------ engine
def run_pairs(ctx, out, triples, cls, want_sub=True, want_neg=False, rng=None):
    """implementation + model + oracle for well-formed pairs (a, b, fills)"""
    jobs = []
    for a, b, fills in triples:
        fills = b.normalize_fills(a.normalize_fills(dict(fills)))
        pa, pb = a.fill(fills), b.fill(fills)
        muts = G.mutate_paths(rng, a, fills, pa) if want_neg else []
        jobs.append((a, b, fills, pa, pb, muts))
    specs_a = [a.spec([pa] + [p for _, p in muts]) for a, b, fills, pa, pb, muts in jobs]
    specs_b = [b.spec([pb]) for a, b, fills, pa, pb, muts in jobs]
    ra = pool.pmap("impl.matcher", "impl_matcher", [[s] for s in specs_a], timeout=5.0)
    rb = pool.pmap("impl.matcher", "impl_matcher", [[s] for s in specs_b], timeout=5.0) if want_sub else [None] * len(jobs)
    rs = pool.pmap("impl.matcher", "impl_sub", [[{"a": sa, "b": sb, "paths": [j[3]]}] for sa, sb, j in zip(specs_a, specs_b, jobs)],
                   timeout=5.0) if want_sub else [None] * len(jobs)
    lines = []
    for sa, sb, j in zip(specs_a, specs_b, jobs):
        lines.append("pm.info " + G.margs(sa))
        lines.append("pm.match " + G.margs(sa) + G.paths_arg(sa["paths"]))
        if want_sub:
            lines.append("pm.match " + G.margs(sb) + G.paths_arg(sb["paths"]))
            lines.append("pm.sub " + G.margs(sa) + " " + G.margs(sb) + G.paths_arg([j[3]]))
    model = C.run_driver_parallel(lines) if ctx.model_ok else [None] * len(lines)
    per = 4 if want_sub else 2
    for idx, (j, sa, sb, xa, xb, xs) in enumerate(zip(jobs, specs_a, specs_b, ra, rb, rs)):
        a, b, fills, pa, pb, muts = j
        mo = model[idx * per:(idx + 1) * per]
        out.evaluations += 1
        inp = {"a": sa, "b": sb if want_sub else None, "fills": {str(k): v for k, v in fills.items()}, "path_a": pa, "path_b": pb,
               "class": cls}
        bad = []

        def viol(what, raw=None, spec=None, finding=None):
            f = finding
            for sp in (spec if isinstance(spec, list) else [spec]):
                f = f or finding_of_exc(raw, sp)
            bad.append({"what": what, "input": inp, "finding": f, "op": "pair"})
        for x, nm in ((xa, "a"), (xb, "b"), (xs, "sub")):
            if x is not None and "r" not in x:
                viol("%s: adapter failed: %s %s" % (nm, x.get("exc"), x.get("msg")))
        if bad:
            out.violations += bad
            continue
        xa = xa["r"]
        rw_a, rw_b = sa, sb
        exp_a = a.expected_groups(fills)
        got_a = xa["match_raw"][0]
        if got_a != exp_a:
            viol("a.match(path obtained by filling a's wildcards) = %r, expected %r" % (got_a, exp_a), got_a, rw_a)
        if want_neg:
            check_single(a, fills, pa, muts, xa, viol, rw_a, out)
        if want_sub:
            xb, xs = xb["r"], xs["r"]
            exp_b = b.expected_groups(fills)
            got_b = xb["match_raw"][0]
            if got_b != exp_b:
                viol("b.match(path obtained by filling b's wildcards) = %r, expected %r" % (got_b, exp_b), got_b, rw_b)
            fwd, back = xs["raw"][0]
            if fwd != pb:
                viol("a.sub(b, path_a) = %r, expected %r" % (fwd, pb), fwd if is_exc(fwd) else got_a, [rw_a, rw_b])
            elif back != pa:
                viol("b.sub(a, a.sub(b, path_a)) = %r, expected the original %r" % (back, pa), back if is_exc(back) else got_b, [rw_a, rw_b])
        if bad:
            out.violations += bad
            out.count(cls + ".violations")
        # correspondence
        canon = [xa["info"], xa["matches"]] + ([xb["matches"], xs["subs"]] if want_sub else [])
        for nm, im, mm in zip(("info", "match", "match.b", "sub"), canon, mo):
            if mm is not None and im != mm:
                out.disagreements.append({"op": "pm." + nm, "input": inp, "impl": im, "model": mm})
                break
        if fills and isinstance(got_a, dict):
            out.nontrivial.add((sa["pat"], pa))
        out.count(cls + ".cases")
        if len(out.samples) < 8 and len(fills) >= 2 and want_neg and muts and out.distribution.get("sampled." + cls, 0) < 3 \
                and isinstance(got_a, dict):
            out.count("sampled." + cls)
            out.samples.append({"class": cls, "pattern": sa["pat"], "env": sa["env"], "root": sa["root"], "path": pa, "groups": got_a,
                                "prefix": xa["prefix"], "mutated": [[k, p, xa["match_raw"][i + 1] is not None]
                                                                    for i, (k, p) in enumerate(muts[:4])]})
        if len(out.samples) < 6 and len(fills) >= 2 and want_sub and out.distribution.get("sampled." + cls, 0) < 2:
            out.count("sampled." + cls)
            out.samples.append({"class": cls, "a": sa["pat"], "env_a": sa["env"], "b": sb["pat"], "env_b": sb["env"],
                                "path_a": pa, "a.sub(b)": pb, "groups": got_a})


def check_single(a, fills, pa, muts, xa, viol, spec, out):
    """C12 laws on one matcher with its filled path and the mutated paths"""
    toks = a.tokens()
    prefix = xa["prefix"]
    exp_prefix = a.fill(fills, upto_first_wildcard=True)
    if not fills and xa["str"] != pa:
        viol("str(matcher) = %r, expected the expansion %r" % (xa["str"], pa), xa["str"], spec)
    if prefix != exp_prefix:
        viol("prefix = %r, expected the expansion up to the first wildcard %r" % (prefix, exp_prefix), prefix, spec)
    for (kind, p), got in zip([("filled", pa)] + muts, xa["match_raw"]):
        if is_exc(got):
            viol("match(%r) raised %s" % (p, got["exc"]), got, spec)
            continue
        exp = G.ref_match(toks, p)
        out.count("neg.%s.%s" % (kind, "match" if got is not None else "nomatch"))
        if (got is not None) != exp:
            f = None
            viol("match(%r) [%s] %s, but the pattern %s it" % (p, kind, "succeeds" if got is not None else "fails",
                                                                "does not cover" if got is not None else "covers"), finding=f)
            continue
        if got is not None:
            if isinstance(prefix, str) and not p.startswith(prefix):
                viol("matched path %r does not start with prefix %r" % (p, prefix))
            for s in xa["stars"]:
                if got.get(s) is not None and "/" in got[s]:
                    viol("star group %s = %r contains a separator (path %r)" % (s, got[s], p))
            for s, sfx in xa["dstars"].items():
                if sfx == "/" and got.get(s) not in (None, "") and not got[s].endswith("/"):
                    viol("double star group %s = %r is not a sequence of whole directories (path %r)" % (s, got[s], p))


def replay_single(i):
    """re-run one matcher on its stored paths and re-apply the laws that need no generator state"""
    sa = {k: i["a"][k] for k in ("pat", "env", "root", "with", "paths")}
    ra = pool.pmap("impl.matcher", "impl_matcher", [[sa]], timeout=10.0)[0]
    if "r" not in ra:
        return {"input": i, "result": ra, "violates": True}
    r = ra["r"]
    bad = []
    got0 = r["match_raw"][0] if r["match_raw"] else None
    if not isinstance(got0, dict) or is_exc(got0):
        bad.append("the path obtained by filling the wildcards is not matched: %r" % (got0,))
    for p, g in zip(sa["paths"], r["match_raw"]):
        if is_exc(g) or g is None:
            continue
        if isinstance(r["prefix"], str) and not p.startswith(r["prefix"]):
            bad.append("matched %r does not start with prefix %r" % (p, r["prefix"]))
        if p.endswith("\n") and sa["pat"][-2:] != "**":
            bad.append("path with trailing newline matched: %r" % p)
        for st in r["stars"]:
            if g.get(st) is not None and "/" in g[st]:
                bad.append("star group with separator: %r" % g[st])
    return {"input": i, "matches": r["match_raw"], "prefix": r["prefix"], "violates": bool(bad), "laws": bad}


def replay(payload):
    res = []
    for v in payload.get("violations", []):
        i = v["input"]
        if v.get("op") == "sequence":
            res.append(replay_sequence(i))
            continue
        if v.get("op") == "derive":
            res.append(replay_derive(i))
            continue
        if v.get("op") == "history":
            res.append(replay_history(i))
            continue
        if v.get("op") == "pairing":
            res.append(replay_pairing(i))
            continue
        if v.get("op") == "foreign":
            rs = pool.pmap("impl.matcher", "impl_sub", [[{"a": i["a"], "b": i["b"], "paths": i["paths"]}]], timeout=10.0)[0]
            raw = rs["r"]["raw"] if "r" in rs else None
            res.append({"input": i, "sub": raw,
                        "violates": raw is None or any(f is not None and b != p for p, (f, b) in zip(i["paths"], raw))})
            continue
        if v.get("op") != "pair":
            continue
        if not i.get("b"):
            res.append(replay_single(i))
            continue
        sa = dict(i["a"])
        sa["paths"] = [i["path_a"]]
        rs = pool.pmap("impl.matcher", "impl_sub", [[{"a": sa, "b": i["b"], "paths": [i["path_a"]]}]], timeout=10.0)[0]
        r = {"input": i}
        r["sub"] = rs["r"]["raw"][0] if "r" in rs else rs
        r["violates"] = r["sub"] != [i["path_b"], i["path_a"]]
        res.append(r)
    return {"violates": any(r.get("violates") for r in res), "cases": res}


# ------------------------------------------------------------------ hypothesis probes (negation witnesses on the real code)
def probe_cases(rng, n):
    """pairs outside the theorems' hypotheses: the oracle states what the property text promises"""
    out = []
    for _ in range(n):
        a, b, fills = G.gen_pair(rng)
        r = rng.random()
        if r < 0.4:
            # F11: rooted pattern starting with a wildcard
            k = len(fills)
            a.segs.insert(0, [("s", k)])
            b.segs.insert(0, [("s", k)])
            # renumber: the new star is the first wildcard
            for sd in (a, b):
                for seg in sd.segs:
                    for i, at in enumerate(seg):
                        if at[0] in "sd":
                            seg[i] = (at[0], (at[1] + 1) % (k + 1))
            fills = {(i + 1) % (k + 1): v for i, v in fills.items()}
            fills[0] = rng.choice(["top", "x"])
            a.root = rng.choice(G.ROOTS)
            out.append(("probe.rooted-wildcard-first", a, b, fills))
        else:
            # F12: a variable reachable twice in non-repeat position
            sd = a if rng.random() < 0.5 else b
            env = sd.full_env()
            if "v" in env or "w" in env or sd.withenv is not None or sd.segs[-1][0][0] == "d":
                continue
            sd.segs.append([("v", "v"), ("t", "."), ("v", "w")])
            sd.env["v"] = "{w}x"
            sd.env["w"] = rng.choice(["de", "q"])
            if rng.random() < 0.3:
                sd.env["v"] = "{v}y"      # self-reference
                sd.segs[-1] = [("t", "k-"), ("v", "w")]
                sd.segs.append([("t", "z")])
                # '{v}' is then not bound to a finite value: the claim is only that matching does not crash
                continue
            out.append(("probe.variable-twice", a, b, fills))
    return out


def run_foreign(ctx, out, triples):
    """paths a pattern must not map: the filled path with a trailing newline, with an extra
    character, with an extra segment.  If a.sub(b, p) is a path at all, mapping back must give p."""
    jobs = []
    for a, b, fills in triples:
        fills = b.normalize_fills(a.normalize_fills(dict(fills)))
        if a.tokens()[-1:] == [("D", "")]:
            continue
        pa = a.fill(fills)
        jobs.append((a, b, [pa + "\n", pa + "x", pa + "/x" if not pa.endswith("/") else pa + "x/y"]))
    res = pool.pmap("impl.matcher", "impl_sub", [[{"a": a.spec(), "b": b.spec(), "paths": ps}] for a, b, ps in jobs], timeout=5.0)
    model = C.run_driver_parallel(["pm.sub " + G.margs(a.spec()) + " " + G.margs(b.spec()) + G.paths_arg(ps) for a, b, ps in jobs]) \
        if ctx.model_ok else [None] * len(jobs)
    for (a, b, ps), r, mo in zip(jobs, res, model):
        out.evaluations += 1
        inp = {"a": a.spec(), "b": b.spec(), "paths": ps, "class": "foreign"}
        if "r" not in r:
            out.violations.append({"what": "sub raised %s" % r.get("exc"), "input": inp, "op": "foreign", "finding": None})
            continue
        for p, (fwd, back) in zip(ps, r["r"]["raw"]):
            if fwd is not None and back != p:
                f = None
                if is_exc(fwd) or is_exc(back):
                    f = finding_of_exc(fwd if is_exc(fwd) else back, a.spec()) or finding_of_exc(fwd if is_exc(fwd) else back, b.spec())
                out.violations.append({"what": "a.sub(b, %r) = %r and b.sub(a, .) = %r: not the original path" % (p, fwd, back),
                                       "input": inp, "op": "foreign", "finding": f})
                break
        if mo is not None and mo != r["r"]["subs"]:
            out.disagreements.append({"op": "pm.sub", "input": inp, "impl": r["r"]["subs"], "model": mo})
        out.count("foreign.cases")


SEPARATOR_PAIRS = [
    # (a, b, paths): excluded points of C11.sub_roundtrip_star_partial (separation on b's side); two stars in one
    # segment are outside the grammar of the property, so only model == implementation is demanded here
    ("*/*", "*.*", ["a/b.c", "a/b", "a.b/c"]),
    ("*.*", "*/*", ["a.b.c", "a.b"]),
    ("*-*.ftl", "*/*.ftl", ["a-b-c.ftl", "a-b.ftl"]),
    ("ref/en-US/**/*.ftl", "l/**/*.ftl", ["ref/en-US/a/b/c.d.ftl", "ref/en-US/c.ftl"]),
]


def run_separator_probe(ctx, out):
    mk = lambda pat: {"pat": pat, "env": [], "root": None, "with": None, "paths": []}
    jobs = [(mk(a), mk(b), ps) for a, b, ps in SEPARATOR_PAIRS]
    res = pool.pmap("impl.matcher", "impl_sub", [[{"a": a, "b": b, "paths": ps}] for a, b, ps in jobs], timeout=5.0)
    model = C.run_driver_parallel(["pm.sub " + G.margs(a) + " " + G.margs(b) + G.paths_arg(ps) for a, b, ps in jobs]) \
        if ctx.model_ok else [None] * len(jobs)
    for (a, b, ps), r, mo in zip(jobs, res, model):
        out.evaluations += 1
        inp = {"a": a, "b": b, "paths": ps, "class": "probe.separator"}
        if "r" not in r:
            out.violations.append({"what": "sub raised %s" % r.get("exc"), "input": inp, "op": "probe-sep", "finding": None})
            continue
        if mo is not None and mo != r["r"]["subs"]:
            out.disagreements.append({"op": "pm.sub", "input": inp, "impl": r["r"]["subs"], "model": mo})
        out.count("probe.separator.cases")


def run_sequences(ctx, out, n, rng, cls="sequence"):
    """a matcher is used (its regex gets cached), THEN rebound with with_env: everything the rebound matcher
    does must follow the NEW environment, everything the original does the old one"""
    jobs = []
    for _ in range(n):
        g = G.gen_sequence(rng)
        if g is None:
            continue
        a0, a1, b, fills, key = g
        if dup_groups(a0.spec()) or dup_groups(b.spec()) or first_not_expandable(a0.spec()) or first_not_expandable(b.spec()):
            continue
        jobs.append((a0, a1, b, fills, key, a0.fill(fills), a1.fill(fills), b.fill(fills)))
    cases = [{"a0": a0.spec(), "with": sorted(a1.withenv.items()), "b": b.spec(), "p_old": po, "p_new": pn, "pb": pb}
             for a0, a1, b, fills, key, po, pn, pb in jobs]
    res = pool.pmap("impl.matcher", "impl_sequence", [[c] for c in cases], timeout=5.0)
    lines = []
    for (a0, a1, b, fills, key, po, pn, pb) in jobs:
        lines.append("pm.match " + G.margs(a1.spec()) + G.paths_arg([pn, po]))
        lines.append("pm.match " + G.margs(a0.spec()) + G.paths_arg([po, pn]))
    model = C.run_driver_parallel(lines) if ctx.model_ok else [None] * len(lines)
    for idx, ((a0, a1, b, fills, key, po, pn, pb), case, r) in enumerate(zip(jobs, cases, res)):
        out.evaluations += 1
        inp = dict(case)
        inp["class"] = cls
        inp["rebound"] = key
        if "r" not in r:
            out.violations.append({"what": "sequence: adapter failed: %s %s" % (r.get("exc"), r.get("msg")), "input": inp,
                                   "op": "sequence", "finding": None})
            continue
        got, canon = r["r"]["res"], r["r"]["canon"]
        toks0, toks1 = a0.tokens(), a1.tokens()
        exp = [
            ("a0.match.old", a0.expected_groups(fills), "eq"),
            ("a0.prefix", a0.fill(fills, upto_first_wildcard=True), "eq"),
            ("a0.sub.old", pb, "eq"),
            ("a1.match.new", a1.expected_groups(fills), "eq"),
            ("a1.match.old", G.ref_match(toks1, po), "covers"),
            ("a1.prefix", a1.fill(fills, upto_first_wildcard=True), "eq"),
            ("a1.sub.new", pb, "eq"),
            ("b.sub.a1", pn, "eq"),
            ("a0.match.old.again", a0.expected_groups(fills), "eq"),
            ("a0.match.new", G.ref_match(toks0, pn), "covers"),
            ("b.sub.a0", po, "eq"),
        ]
        bad = False
        for name, e, how in exp:
            if name not in got:
                out.violations.append({"what": "sequence: with_env raised %r" % (got.get("with_env"),), "input": inp, "op": "sequence",
                                       "finding": finding_of_exc(got.get("with_env"), a1.spec())})
                bad = True
                break
            g = got[name]
            ok = (g == e) if how == "eq" else (not is_exc(g) and (g is not None) == e)
            if not ok:
                f = finding_of_exc(g, a0.spec()) or finding_of_exc(g, a1.spec()) or finding_of_exc(g, b.spec())
                out.violations.append({"what": "after a0 was used and then rebound with with_env({%r: %r}): %s = %r, expected %s %r"
                                       % (key, a1.withenv[key], name, g, "" if how == "eq" else "covered =", e),
                                       "input": inp, "op": "sequence", "finding": f})
                bad = True
                break
        if bad:
            out.count(cls + ".violations")
            continue
        m1, m0 = model[2 * idx], model[2 * idx + 1]
        if m1 is not None and m1 != canon["a1.match.new"] + " | " + canon["a1.match.old"]:
            out.disagreements.append({"op": "pm.match(sequence, rebound)", "input": inp, "model": m1,
                                      "impl": canon["a1.match.new"] + " | " + canon["a1.match.old"]})
        elif m0 is not None and m0 != canon["a0.match.old.again"] + " | " + canon["a0.match.new"]:
            out.disagreements.append({"op": "pm.match(sequence, original)", "input": inp, "model": m0,
                                      "impl": canon["a0.match.old.again"] + " | " + canon["a0.match.new"]})
        out.nontrivial.add(("seq", case["a0"]["pat"], po, pn))
        out.count(cls + ".cases")
        out.count(cls + ".rebound." + ("indirect" if key not in [x[1] for x in a0.atoms() if x[0] == "v"] else "direct"))
        if out.distribution.get("sampled." + cls, 0) < 2 and len(out.samples) < 12:
            out.count("sampled." + cls)
            out.samples.append({"class": cls, "pattern": case["a0"]["pat"], "env": case["a0"]["env"], "with_env": case["with"],
                                "old path": po, "new path": pn, "rebound matcher on old path": got["a1.match.old"]})


def replay_sequence(i):
    case = {k: i[k] for k in ("a0", "with", "b", "p_old", "p_new", "pb")}
    r = pool.pmap("impl.matcher", "impl_sequence", [[case]], timeout=10.0)[0]
    if "r" not in r:
        return {"input": i, "result": r, "violates": True}
    g = r["r"]["res"]
    # laws that need no generator state: the rebound matcher maps its new path there and back, and if the new
    # path differs from the old one in a bound variable the rebound matcher must not keep matching like the original
    bad = []
    if g.get("a1.sub.new") != i["pb"]:
        bad.append("a1.sub(b, new path) = %r" % (g.get("a1.sub.new"),))
    if g.get("b.sub.a1") != i["p_new"]:
        bad.append("b.sub(a1, .) = %r" % (g.get("b.sub.a1"),))
    if not isinstance(g.get("a1.match.new"), dict) or is_exc(g.get("a1.match.new")):
        bad.append("a1.match(new path) = %r" % (g.get("a1.match.new"),))
    if g.get("b.sub.a0") != i["p_old"]:
        bad.append("b.sub(a0, .) = %r" % (g.get("b.sub.a0"),))
    return {"input": i, "result": g, "violates": bool(bad), "laws": bad}


def run(ctx):
    out = Outcome()
    out.rule = ("pairs (a, b) of patterns with the same wildcard sequence: bounded-exhaustive over 8 segment forms (literal, "
                "star with affixes, `**`, {locale}, {v}-x, {android_locale}) up to 2 (quick) / 3 (thorough) segments x all small fills, "
                "plus seeded random pairs from the configuration grammar (roots, with_env layers, nested variables, regex-special "
                "literals, `**.ftl`-style adjacent stars, roots with regex metacharacters); operation SEQUENCES (use a matcher, then rebind it with "
                "with_env - preferably a variable used only indirectly - then use both); paths by filling the wildcards; non-trivial = a has >= 1 wildcard and a.match(path) succeeded; "
                "distinct = distinct (pattern a, path)")
    rng = ctx.rng("c11")
    triples = enum_pairs(ctx)
    out.count("enum.pairs", len(triples))
    run_pairs(ctx, out, triples, "enum", want_sub=True, want_neg=False)
    rnd = [G.gen_pair(rng) for _ in range(ctx.n(15000, 150000))]
    run_pairs(ctx, out, rnd, "random", want_sub=True, want_neg=False)
    run_foreign(ctx, out, rnd[:ctx.n(900, 5000)])
    run_sequences(ctx, out, ctx.n(2500, 25000), ctx.rng("c11", "seq"))
    pr = probe_cases(rng, ctx.n(400, 3000))
    for cls in sorted({p[0] for p in pr}):
        run_pairs(ctx, out, [p[1:] for p in pr if p[0] == cls], cls, want_sub=True, want_neg=False)
    run_separator_probe(ctx, out)
    run_round4(ctx, out, ctx.rng("c11", "r4"))
    run_pairing(ctx, out, ctx.n(700, 6000), ctx.rng("c11", "pairing"))
    run_history(ctx, out, ctx.n(1200, 12000), ctx.rng("c11", "history"))
    return out


# ====================================================================== round 4: ==, concat, expand(), Matcher(matcher, env, root),
# encoding branches, PatternParser.parse on objects.  Expected values by construction (pathgen.Side) or from os.path (stdlib).
import os as _os
import posixpath as _pp

from impl import mozgen as MG

REL_ROOTS = ["rel", "rel/dir", ".", "..", "a/../b", "x//y/", "./q"]


def raw_margs(spec, cwd):
    """`<cwd> <root|-> <pattern> <n> (k v)*` : the root exactly as the caller gives it"""
    env = spec.get("env") or []
    s = "%s %s %s %d" % (C.enc(cwd), "-" if spec.get("root") is None else C.enc(spec["root"]), C.enc(spec["pat"]), len(env))
    for k, v in env:
        s += " %s %s" % (C.enc(k), C.enc(v))
    return s


def raw_spec(sd, root=None, paths=()):
    """spec of a Side with its with_env layer folded into the constructor environment and an explicit raw root"""
    return {"pat": sd.pattern(), "env": sorted(sd.full_env().items()), "root": root, "with": None, "paths": list(paths)}


def abs_root(cwd, root):
    """what Matcher stores for a root, by the standard library: abspath without its trailing '/' (the Side adds it)"""
    return _pp.normpath(_pp.join(cwd, root))


def plain_side(rng, maxseg=3):
    """a wildcard-free side of 1..maxseg segments, every variable bound (acyclic)"""
    sd = G.Side()
    names = G.VARNAMES + ["locale"]
    vars_avail = rng.sample(names, rng.randrange(0, 4))
    sd.segs = [G._plain_atoms(rng, vars_avail, set(), True) for _ in range(rng.randrange(1, maxseg + 1))]
    sd.env = G.gen_env(rng, sd, names)
    return sd


def defined_names(sd):
    """group names a side defines: wildcards, variables reachable directly or through values, android_locale (+ locale chain)"""
    direct, indirect = G.reachable_vars(sd)
    names = set(direct) | set(indirect)
    for a in sd.atoms():
        if a[0] in "sd":
            names.add("s%d" % (a[1] + 1))
        elif a[0] == "a":
            names.add("android_locale")
    return names


def trunc_expand(value, env, gone=()):
    """Pattern.expand(env) without raise_missing: the children up to the first one that needs an unbound name"""
    import re
    out, i = "", 0
    for m in re.finditer(r"\{ *(\w+) *\}", value):
        out += value[i:m.start()]
        i = m.end()
        name = m.group(1)
        try:
            assert name in env and name not in gone
            out += G.ref_expand(env[name], env, gone + (name,))
        except (AssertionError, ValueError):
            return out
    return out + value[i:]


_LOCALE_RE = _re.compile(r"[a-z]{2,3}(-[A-Za-z0-9]{2,8})*\Z")


def locale_ok(sd):
    """the reference for {android_locale} speaks about locale CODES: the value of `locale` (if any is needed) must be one"""
    env = sd.full_env()
    if "locale" not in env:
        return True
    try:
        return bool(_LOCALE_RE.match(G.ref_expand(env["locale"], env, ())))
    except (AssertionError, ValueError):
        return False


def _exc_name(raw):
    return raw.get("exc") if isinstance(raw, dict) and "exc" in raw else None


def run_expand(ctx, out, n, rng):
    """module function expand(root, path, env): wildcard-free paths, absolute and relative roots under several
    working directories, fully bound and with one binding removed (truncation at the first missing variable)"""
    jobs = []
    for _ in range(n):
        sd = plain_side(rng)
        cwd = rng.choice(MG.CWDS)
        r = rng.random()
        root = None if r < 0.15 else (rng.choice(G.ROOTS[:6]) if r < 0.6 else rng.choice(REL_ROOTS))
        env = dict(sd.env)
        dropped = None
        if env and rng.random() < 0.25:
            dropped = rng.choice(sorted(env))
            del env[dropped]
        jobs.append((sd, cwd, root, env, dropped))
    cases = [{"cwd": cwd, "root": root, "pat": sd.pattern(), "env": sorted(env.items())} for sd, cwd, root, env, _ in jobs]
    res = pool.pmap("impl.matcher", "impl_expand", [[c] for c in cases], timeout=5.0)
    lines = ["c12.expand " + raw_margs(c, c["cwd"]) for c in cases]
    model = C.run_driver_parallel(lines) if ctx.model_ok else [None] * len(lines)
    for (sd, cwd, root, env, dropped), case, r, mo in zip(jobs, cases, res, model):
        out.evaluations += 1
        inp = dict(case)
        inp["class"] = "expand"
        if "r" not in r:
            out.violations.append({"what": "expand: adapter failed: %s" % r.get("exc"), "input": inp, "op": "expand", "finding": None})
            continue
        got = r["r"]["raw"]
        # expected by construction: atoms up to the first one that needs an unbound name
        body, first_text, stop = "", None, False
        for idx, a in enumerate(sd.atoms()):
            try:
                if a[0] == "t":
                    t = a[1]
                elif a[0] == "v":
                    assert a[1] in env
                    t = G.ref_expand(env[a[1]], env, (a[1],))
                else:
                    assert "locale" in env
                    # `_get_android_locale` expands the value of locale WITHOUT raise_missing: it is cut at its first unbound variable
                    t = G.ref_android(trunc_expand(env["locale"], env, ("android_locale",)))
            except (AssertionError, ValueError):
                stop = True
                break
            body += t
        ats = sd.atoms()
        # what Python sees as the first node: the literal run, or the first variable
        first_ok = True
        if ats and ats[0][0] == "t":
            ft = ""
            for b in ats:
                if b[0] != "t":
                    break
                ft += b[1]
        else:
            try:
                ft = sd.first_text(env) if ats else ""
            except (AssertionError, KeyError, ValueError):
                ft, first_ok = None, False
        spec = {"pat": case["pat"], "env": case["env"], "root": root, "with": None}
        if root is not None and not first_ok:
            # F11: rooted and the first node cannot be expanded
            if not is_exc(got):
                out.count("expand.first-unbound-no-raise")
            else:
                out.violations.append({"what": "expand(%r, %r, env) raised %s" % (root, case["pat"], got["exc"]), "input": inp,
                                       "op": "expand", "finding": finding_of_exc(got, spec)})
            continue
        exp = ("" if root is None or (ft or "").startswith("/") else
               ("//" if abs_root(cwd, root) == "/" else abs_root(cwd, root) + "/")) + body
        if got != exp:
            out.violations.append({"what": "expand(%r, %r, env) under cwd %r = %r, expected %r" % (root, case["pat"], cwd, got, exp),
                                   "input": inp, "op": "expand", "finding": finding_of_exc(got, spec)})
            continue
        if mo is not None and mo != r["r"]["canon"]:
            out.disagreements.append({"op": "c12.expand", "input": inp, "impl": r["r"]["canon"], "model": mo})
        out.nontrivial.add(("expand", case["pat"], root, cwd, got))
        out.count("expand.cases")
        out.count("expand." + ("truncated" if stop else "full") + ("" if root is None else ".rel-root" if not root.startswith("/") else ".abs-root"))
    if jobs and len(out.samples) < 12:
        out.samples.append({"class": "expand", "root": cases[0]["root"], "cwd": cases[0]["cwd"], "path": cases[0]["pat"],
                            "env": cases[0]["env"], "result": res[0].get("r", {}).get("raw")})


def run_eq(ctx, out, n, rng):
    """Matcher.__eq__/__ne__, Pattern.__eq__/__ne__ (and the node __eq__s): pairs whose equality is known by construction"""
    jobs = []
    for _ in range(n):
        a, _, fills = G.gen_pair(rng)
        env_a = a.full_env()
        cwd = rng.choice(MG.CWDS)
        root_a = a.root
        pat_a = a.pattern()
        kind = rng.choice(["same", "same", "env-conflict", "pattern", "root", "one-empty", "extra-keys"])
        pat_b, env_b, root_b = MG.respace(pat_a, rng), dict(env_a), root_a
        same_pattern = True
        if kind == "pattern":
            mp = MG.mutate_pattern(pat_a, rng)
            if mp is None:
                continue
            pat_b, same_pattern = mp, False
        elif kind == "root":
            root_b = rng.choice([r for r in [None, "/r", "/r/x", "/other"] if r != root_a])
            same_pattern = False
        elif kind == "same" and root_a is not None and root_a != "/":
            root_b = rng.choice([root_a, root_a + "/", root_a + "/.", root_a + "/zz/.."])   # same directory, written differently
        conflict = False
        if kind == "env-conflict" and env_a:
            k = rng.choice(sorted(env_a))
            env_b[k] = env_a[k] + "#"
            conflict = True
        elif kind == "one-empty":
            if rng.random() < 0.5:
                env_b = {}
            else:
                env_a = {}
        elif kind == "extra-keys":
            for k in sorted(env_b):
                if rng.random() < 0.4:
                    del env_b[k]
            env_b["extra_%d" % rng.randrange(3)] = "e"
        if kind == "same" and rng.random() < 0.5:
            env_b = {k: MG.respace(v, rng) for k, v in env_b.items()}
        exp_eq = same_pattern and not (env_a and env_b and conflict and any(k in env_b for k in env_a))
        fl = a.normalize_fills(dict(fills))
        a2 = clone(a)
        a2.env, a2.withenv = env_a, None
        try:
            path = a2.fill(fl)
        except (AssertionError, KeyError, ValueError):
            path = "x"
        sa = {"pat": pat_a, "env": sorted(env_a.items()), "root": root_a, "with": None}
        sb = {"pat": pat_b, "env": sorted(env_b.items()), "root": root_b, "with": None}
        jobs.append((sa, sb, cwd, kind, same_pattern, exp_eq, [path, path + "x"]))
    cases = [{"a": sa, "b": sb, "cwd": cwd, "paths": ps} for sa, sb, cwd, _, _, _, ps in jobs]
    res = pool.pmap("impl.matcher", "impl_eq", [[c] for c in cases], timeout=5.0)
    lines = ["c12.eq " + raw_margs(c["a"], c["cwd"]) + " " + raw_margs(c["b"], c["cwd"]) for c in cases]
    model = C.run_driver_parallel(lines) if ctx.model_ok else [None] * len(lines)
    for (sa, sb, cwd, kind, same_pattern, exp_eq, ps), case, r, mo in zip(jobs, cases, res, model):
        out.evaluations += 1
        inp = dict(case)
        inp["class"] = "eq." + kind
        if "r" not in r or is_exc(r["r"].get("raw")):
            out.violations.append({"what": "==: adapter failed: %s" % (r.get("exc") or r["r"].get("raw"),), "input": inp, "op": "eq",
                                   "finding": None})
            continue
        eq, ne, eq_ba, peq, pne = r["r"]["raw"]
        bad = []
        if eq != exp_eq:
            bad.append("a == b is %r, expected %r (%s)" % (eq, exp_eq, kind))
        if ne != (not eq):
            bad.append("a != b is %r although a == b is %r" % (ne, eq))
        if eq_ba != eq:
            bad.append("a == b is %r but b == a is %r" % (eq, eq_ba))
        if peq != same_pattern or pne != (not peq):
            bad.append("pattern == is %r / != is %r, expected %r" % (peq, pne, same_pattern))
        if r["r"]["extra"] != [True, True, False, True, True, False, ["NotImplementedError", "NotImplementedError"], True]:
            bad.append("a == a, b == b, a == 'text', a != 'text', pattern == list(pattern), a == (a with an encoding), Node() methods, "
                       "repr are %r" % (r["r"]["extra"],))
        # node by node, against the independent statement of the pattern grammar
        na, nb = MG.ref_nodes(sa["pat"]), MG.ref_nodes(sb["pat"])
        exp_nodes = [x != y for x, y in zip(na, nb)]
        if r["r"]["nodes"] != exp_nodes:
            bad.append("node != node, position by position: %r, expected %r (nodes %r vs %r)" % (r["r"]["nodes"], exp_nodes, na, nb))
        ra = None if sa["root"] is None else abs_root(cwd, sa["root"])
        rb = None if sb["root"] is None else abs_root(cwd, sb["root"])
        if peq != (na == nb and ra == rb):
            bad.append("pattern == is %r, but the node lists are %s and the roots %r / %r" % (peq, "equal" if na == nb else "different", ra, rb))
        # equal matchers that bind the same variables behave alike
        if eq and [k for k, _ in sa["env"]] == [k for k, _ in sb["env"]] and r["r"]["behave"][0] != r["r"]["behave"][1]:
            bad.append("equal matchers with the same variables behave differently: %r vs %r" % tuple(r["r"]["behave"]))
        if bad:
            for w in bad:
                out.violations.append({"what": w, "input": inp, "op": "eq", "finding": None})
            continue
        if mo is not None and mo != r["r"]["canon"]:
            out.disagreements.append({"op": "c12.eq", "input": inp, "impl": r["r"]["canon"], "model": mo})
        out.nontrivial.add(("eq", sa["pat"], sb["pat"], tuple(map(tuple, sb["env"])), eq))
        out.count("eq.%s.%s" % (kind, "equal" if eq else "unequal"))
    if jobs and len(out.samples) < 12:
        out.samples.append({"class": "eq", "a": cases[0]["a"], "b": cases[0]["b"], "a == b": res[0].get("r", {}).get("raw")})


def run_concat(ctx, out, n, rng):
    """Matcher.concat: 'one Matcher that behaves as if you joined the resulting paths' (no separator logic).  The expected
    prefix / str / groups come from ONE side built from the atoms of both (only one of the two has wildcards and the two
    define different group names: class concat.ok); where both define the same name the regex cannot be compiled (the
    parsers do not know of each other) - there (class concat.shared) only prefix and str are judged"""
    jobs = []
    for _ in range(n):
        cwd = rng.choice(MG.CWDS)
        if rng.random() < 0.5:
            a, _, fills = G.gen_pair(rng)
            if a.segs[-1][-1][0] == "d":
                continue
            b = plain_side(rng)
        else:
            a = plain_side(rng)
            if rng.random() < 0.3:
                a.root = rng.choice(G.ROOTS[:6])
            b, _, fills = G.gen_pair(rng, rooted_ok=False)
        for sd in (a, b):
            sd.env, sd.withenv = sd.full_env(), None
        as_text = rng.random() < 0.4
        env_b = {} if as_text else dict(b.env)
        rooted_other = (not as_text) and rng.random() < 0.06
        c = G.Side()
        c.segs = [list(s) for s in a.segs[:-1]] + [list(a.segs[-1]) + list(b.segs[0])] + [list(s) for s in b.segs[1:]]
        c.env = dict(a.env)
        c.env.update(env_b)
        c.root = a.root
        if G.first_is_wildcard(a) and a.root is not None:
            continue
        bb = clone(b)
        bb.env = env_b
        # group names each side defines, in the merged environment
        ca, cb = clone(a), clone(bb)
        ca.env = cb.env = dict(c.env)
        if not locale_ok(c):
            continue
        try:
            shared = (defined_names(ca) & defined_names(cb)) or dup_groups(c.spec())
            fl = c.normalize_fills(dict(fills))
            pc = c.fill(fl)
            ppre = c.fill(fl, upto_first_wildcard=True)
            groups = c.expected_groups(fl)
        except (AssertionError, KeyError, ValueError):
            continue        # a variable of the text side is not bound by the other side's environment
        sa = {"pat": a.pattern(), "env": sorted(a.env.items()), "root": a.root, "with": None}
        other = {"kind": "T", "text": b.pattern()} if as_text else \
            {"kind": "M", "spec": {"pat": b.pattern(), "env": sorted(env_b.items()), "root": "/r" if rooted_other else None, "with": None}}
        muts = [pc + "x", pc[:-1]] if pc else ["x"]
        jobs.append((sa, other, cwd, c, fl, pc, ppre, groups, bool(shared), rooted_other, bool(fl), [pc] + muts))
    cases = [{"a": j[0], "other": j[1], "cwd": j[2], "paths": j[11]} for j in jobs]
    res = pool.pmap("impl.matcher", "impl_concat", [[cs] for cs in cases], timeout=5.0)
    lines = []
    for cs in cases:
        o = cs["other"]
        lines.append("c12.concat " + raw_margs(cs["a"], cs["cwd"]) + " " +
                     ("T " + C.enc(o["text"]) if o["kind"] == "T" else "M " + raw_margs(o["spec"], cs["cwd"])) + G.paths_arg(cs["paths"]))
    model = C.run_driver_parallel(lines) if ctx.model_ok else [None] * len(lines)
    for (sa, other, cwd, c, fl, pc, ppre, groups, shared, rooted_other, wild, paths), case, r, mo in zip(jobs, cases, res, model):
        out.evaluations += 1
        inp = dict(case)
        cls = "concat." + ("rooted-other" if rooted_other else "shared" if shared else "ok")
        inp["class"] = cls
        if "r" not in r:
            out.violations.append({"what": "concat: adapter failed: %s" % r.get("exc"), "input": inp, "op": "concat", "finding": None})
            continue
        rr = r["r"]
        bad = []
        if rooted_other:
            if _exc_name(rr.get("raw")) != "ValueError":
                bad.append("concat with a rooted matcher did not raise ValueError: %r" % (rr.get("raw", rr.get("canon")),))
        elif "raw" in rr:
            bad.append("concat raised %r" % (rr["raw"],))
        else:
            if not rr["a_unchanged"]:
                bad.append("concat modified the pattern of the matcher it was called on")
            if rr["prefix"] != ppre:
                bad.append("prefix of the concatenation = %r, expected %r" % (rr["prefix"], ppre))
            if not wild and rr["str"] != pc:
                bad.append("str of the concatenation = %r, expected the joined expansions %r" % (rr["str"], pc))
            if not shared:
                got = rr["match_raw"][0]
                if got != groups:
                    bad.append("the concatenation matches its own filled path %r as %r, expected %r" % (pc, got, groups))
                toks = c.tokens()
                for p, g in zip(paths[1:], rr["match_raw"][1:]):
                    if is_exc(g) or (g is not None) != G.ref_match(toks, p):
                        bad.append("the concatenation on %r: %r, but the joined pattern %s it" % (
                            p, g, "covers" if G.ref_match(toks, p) else "does not cover"))
        if bad:
            spec = {"pat": sa["pat"], "env": sa["env"], "root": sa["root"], "with": None}
            for w in bad:
                out.violations.append({"what": w, "input": inp, "op": "concat", "finding": None})
            continue
        if mo is not None and mo != rr["canon"]:
            out.disagreements.append({"op": "c12.concat", "input": inp, "impl": rr["canon"], "model": mo})
        if not rooted_other:
            out.nontrivial.add(("concat", sa["pat"], json_key(other), pc))
        out.count(cls + (".wild" if wild else ".plain"))
    for cs, r in zip(cases, res):
        if len(out.samples) < 12 and "r" in r and "str" in r["r"] and isinstance(r["r"]["str"], str):
            out.samples.append({"class": "concat", "a": cs["a"]["pat"], "other": cs["other"], "str": r["r"]["str"], "prefix": r["r"]["prefix"]})
            break


def json_key(o):
    import json
    return json.dumps(o, sort_keys=True)


def run_rebuild(ctx, out, n, rng):
    """Matcher(other_matcher, env, root): the copy takes the new root (absolute or relative to the working directory)
    and the new bindings on top of the old ones"""
    jobs = []
    for _ in range(n):
        a, _, fills = G.gen_pair(rng)
        a.env, a.withenv = a.full_env(), None
        if G.first_is_wildcard(a):
            continue
        cwd = rng.choice(MG.CWDS)
        r = rng.random()
        new_root = None if r < 0.25 else (rng.choice(G.ROOTS[:6]) if r < 0.6 else rng.choice(REL_ROOTS))
        over = {}
        for k in sorted(a.env):
            if "{" not in a.env[k] and k != "locale" and k != "B" and rng.random() < 0.3:
                feeds = "locale" in a.env and "{" in a.env["locale"]
                over[k] = rng.choice(["fr", "nl", "ast"] if feeds else ["other", "n.w", "zz-1"])
        e = clone(a)
        e.env.update(over)
        if new_root is not None:
            e.root = abs_root(cwd, new_root)
        if not locale_ok(e):
            continue
        try:
            fl = e.normalize_fills(dict(fills))
            pe = e.fill(fl)
            groups = e.expected_groups(fl)
            ppre = e.fill(fl, upto_first_wildcard=True)
        except (AssertionError, KeyError, ValueError):
            continue
        sa = {"pat": a.pattern(), "env": sorted(a.env.items()), "root": a.root, "with": None}
        if dup_groups({"pat": sa["pat"], "env": sorted(e.env.items()), "with": None}):
            continue
        jobs.append((sa, cwd, new_root, sorted(over.items()), e, fl, pe, groups, ppre))
    cases = [{"a": j[0], "cwd": j[1], "root": j[2], "env": j[3], "paths": [j[6], j[6] + "x"]} for j in jobs]
    res = pool.pmap("impl.matcher", "impl_rebuild", [[cs] for cs in cases], timeout=5.0)
    lines = []
    for cs in cases:
        s = "c12.rebuild " + raw_margs(cs["a"], cs["cwd"]) + " " + ("-" if cs["root"] is None else C.enc(cs["root"])) + " %d" % len(cs["env"])
        for k, v in cs["env"]:
            s += " %s %s" % (C.enc(k), C.enc(v))
        lines.append(s + G.paths_arg(cs["paths"]))
    model = C.run_driver_parallel(lines) if ctx.model_ok else [None] * len(lines)
    for (sa, cwd, new_root, over, e, fl, pe, groups, ppre), case, r, mo in zip(jobs, cases, res, model):
        out.evaluations += 1
        inp = dict(case)
        inp["class"] = "rebuild"
        if "r" not in r:
            out.violations.append({"what": "Matcher(matcher, env, root): adapter failed: %s" % r.get("exc"), "input": inp, "op": "rebuild",
                                   "finding": None})
            continue
        rr = r["r"]
        bad = []
        if "raw" in rr:
            bad.append("Matcher(matcher, env, root) raised %r" % (rr["raw"],))
        else:
            exp_root = None if e.root is None else ("//" if e.root == "/" else e.root + "/")
            if rr["root"] != exp_root:
                bad.append("root of the copy = %r, expected %r" % (rr["root"], exp_root))
            if rr["prefix"] != ppre:
                bad.append("prefix of the copy = %r, expected %r" % (rr["prefix"], ppre))
            if rr["match_raw"][0] != groups:
                bad.append("the copy matches its filled path %r as %r, expected %r" % (pe, rr["match_raw"][0], groups))
            g1 = rr["match_raw"][1]
            if is_exc(g1) or (g1 is not None) != G.ref_match(e.tokens(), pe + "x"):
                bad.append("the copy on %r: %r" % (pe + "x", g1))
        if bad:
            for w in bad:
                out.violations.append({"what": w, "input": inp, "op": "rebuild", "finding": None})
            continue
        if mo is not None and mo != rr["canon"]:
            out.disagreements.append({"op": "c12.rebuild", "input": inp, "impl": rr["canon"], "model": mo})
        out.nontrivial.add(("rebuild", sa["pat"], new_root, cwd, pe))
        out.count("rebuild." + ("keep-root" if new_root is None else "rel-root" if not new_root.startswith("/") else "abs-root"))


def run_enc(ctx, out, n, rng):
    """the `encoding` branches of prefix / match / _cache_regex / sub (bytes in, bytes out): the same results as without
    an encoding.  A group that took no part in the match (`**` without a directory) makes `match` raise AttributeError
    (`None.decode`): counted and compared with the model, not judged (the property is stated for encoding=None)"""
    jobs = []
    for _ in range(n):
        a, b, fills = G.gen_pair(rng)
        for sd in (a, b):
            sd.env, sd.withenv = sd.full_env(), None
        if dup_groups(a.spec()) or dup_groups(b.spec()) or first_not_expandable(a.spec()) or first_not_expandable(b.spec()):
            continue
        fl = b.normalize_fills(a.normalize_fills(dict(fills)))
        pa, pb = a.fill(fl), b.fill(fl)
        jobs.append((a, b, fl, pa, pb))
    cases = [{"a": raw_spec(a, a.root), "b": raw_spec(b, b.root), "cwd": "/", "paths": [pa, pa + "x"]} for a, b, fl, pa, pb in jobs]
    res = pool.pmap("impl.matcher", "impl_enc", [[cs] for cs in cases], timeout=5.0)
    lines = ["c12.enc " + raw_margs(cs["a"], "/") + " " + raw_margs(cs["b"], "/") + G.paths_arg(cs["paths"]) for cs in cases]
    model = C.run_driver_parallel(lines) if ctx.model_ok else [None] * len(lines)
    for (a, b, fl, pa, pb), case, r, mo in zip(jobs, cases, res, model):
        out.evaluations += 1
        inp = dict(case)
        inp["class"] = "enc"
        if "r" not in r or "raw" in r["r"] and isinstance(r["r"]["raw"], dict):
            out.violations.append({"what": "encoding: adapter failed: %s" % (r.get("exc") or r["r"]["raw"],), "input": inp, "op": "enc",
                                   "finding": None})
            continue
        rr = r["r"]
        groups = a.expected_groups(fl)
        none_group = any(v is None for v in groups.values())
        got_m, got_s = rr["raw"][0]
        bad = []
        if rr["prefix"] != a.fill(fl, upto_first_wildcard=True):
            bad.append("prefix with an encoding = %r, expected %r" % (rr["prefix"], a.fill(fl, upto_first_wildcard=True)))
        if none_group:
            out.count("enc.none-group." + (_exc_name(got_m) or "no-exception"))
        else:
            if got_m != groups:
                bad.append("match with an encoding = %r, expected %r" % (got_m, groups))
            if got_s != pb:
                bad.append("a.sub(b, path) with an encoding = %r, expected %r" % (got_s, pb))
        g1 = rr["raw"][1][0]
        if not is_exc(g1) and (g1 is not None) != G.ref_match(a.tokens(), pa + "x"):
            bad.append("match with an encoding on %r: %r" % (pa + "x", g1))
        if bad:
            for w in bad:
                out.violations.append({"what": w, "input": inp, "op": "enc", "finding": finding_of_exc(got_m, a.spec()) or
                                       finding_of_exc(got_s, b.spec())})
            continue
        if mo is not None and mo != rr["canon"]:
            out.disagreements.append({"op": "c12.enc", "input": inp, "impl": rr["canon"], "model": mo})
        out.nontrivial.add(("enc", case["a"]["pat"], pa))
        out.count("enc.cases")


def run_objargs(ctx, out, n, rng):
    """Matcher(Pattern object, env of Pattern / Matcher objects): PatternParser.parse returns the object's pattern;
    the result must behave like the matcher built from the texts"""
    jobs = []
    for _ in range(n):
        a, _, fills = G.gen_pair(rng)
        a.env, a.withenv = a.full_env(), None
        if dup_groups(a.spec()) or first_not_expandable(a.spec()):
            continue
        fl = a.normalize_fills(dict(fills))
        jobs.append((a, fl, a.fill(fl)))
    cases = [dict(a.spec([pa, pa + "x"]), patobj="P") for a, fl, pa in jobs]
    res = pool.pmap("impl.matcher", "impl_objargs", [[cs] for cs in cases], timeout=5.0)
    lines = []
    for cs in cases:
        lines.append("pm.info " + G.margs(cs))
        lines.append("pm.match " + G.margs(cs) + G.paths_arg(cs["paths"]))
    model = C.run_driver_parallel(lines) if ctx.model_ok else [None] * len(lines)
    for idx, ((a, fl, pa), case, r) in enumerate(zip(jobs, cases, res)):
        out.evaluations += 1
        inp = dict(case)
        inp["class"] = "objargs"
        if "r" not in r:
            out.violations.append({"what": "Matcher(objects): adapter failed: %s %s" % (r.get("exc"), r.get("msg")), "input": inp,
                                   "op": "objargs", "finding": None})
            continue
        rr = r["r"]
        bad = []
        if rr["match_raw"][0] != a.expected_groups(fl):
            bad.append("Matcher(Pattern object, object env).match(%r) = %r, expected %r" % (pa, rr["match_raw"][0], a.expected_groups(fl)))
        if rr["prefix"] != a.fill(fl, upto_first_wildcard=True):
            bad.append("its prefix = %r, expected %r" % (rr["prefix"], a.fill(fl, upto_first_wildcard=True)))
        if bad:
            for w in bad:
                out.violations.append({"what": w, "input": inp, "op": "objargs", "finding": finding_of_exc(rr["match_raw"][0], a.spec())})
            continue
        for nm, im, mm in (("info", rr["info"], model[2 * idx]), ("match", rr["matches"], model[2 * idx + 1])):
            if mm is not None and im != mm:
                out.disagreements.append({"op": "pm.%s(objects)" % nm, "input": inp, "impl": im, "model": mm})
                break
        out.nontrivial.add(("objargs", case["pat"], pa))
        out.count("objargs.cases")


def run_round4(ctx, out, rng, scale=1.0):
    k = lambda q, t: max(1, int(ctx.n(q, t) * scale))
    run_eq(ctx, out, k(500, 5000), rng)
    run_concat(ctx, out, k(500, 5000), rng)
    run_expand(ctx, out, k(500, 5000), rng)
    run_rebuild(ctx, out, k(300, 3000), rng)
    run_enc(ctx, out, k(300, 3000), rng)
    run_objargs(ctx, out, k(200, 2000), rng)
    run_derive(ctx, out, k(900, 9000), rng)


# ---------------------------------------------------------------------- derived matchers after a warm-up (the regex cache is state)
def _steps_arg(steps, cwd):
    s = " %d" % len(steps)
    for st in steps:
        if st["op"] == "E":
            s += " E %s %d" % ("-" if st["root"] is None else C.enc(st["root"]), len(st["env"]))
            for k, v in st["env"]:
                s += " %s %s" % (C.enc(k), C.enc(v))
        elif st["op"] == "CT":
            s += " CT " + C.enc(st["text"])
        else:
            s += " CM " + raw_margs(st["spec"], cwd)
    return s


def gen_derivation(rng):
    """(source side a, other side b, fills, steps, expected side of the derived matcher, raw root of it, kind)"""
    for _ in range(40):
        a, b, fills = G.gen_pair(rng)
        for sd in (a, b):
            sd.env, sd.withenv = sd.full_env(), None
        if dup_groups(a.spec()) or dup_groups(b.spec()) or first_not_expandable(a.spec()) or first_not_expandable(b.spec()):
            continue
        if G.first_is_wildcard(a):
            continue
        cwd = rng.choice(MG.CWDS)
        kind = rng.choice(["with_env", "root", "both", "concat", "concat+with_env", "with_env+root", "root+concat"])
        e = clone(a)
        raw_root = a.root
        steps = []

        def overlay():
            over = {}
            feeds = "locale" in e.env and "{" in e.env["locale"]
            for k in sorted(e.env):
                if "{" not in e.env[k] and k not in ("locale", "B") and rng.random() < 0.5:
                    over[k] = rng.choice(["fr", "nl", "ast"] if feeds else ["other", "n.w", "zz-1"])
            if "locale" in e.env and "{" not in e.env["locale"] and rng.random() < 0.5:
                over["locale"] = rng.choice([x for x in G.LOCALES if x != e.env["locale"]])
            return over

        def step_env(with_root, with_env):
            nonlocal raw_root
            over = overlay() if with_env else {}
            root = None
            if with_root:
                root = rng.choice(G.ROOTS[:6] + REL_ROOTS)
                raw_root = root
                e.root = abs_root(cwd, root)
            e.env.update(over)
            steps.append({"op": "E", "root": root, "env": sorted(over.items())})

        def step_concat():
            if e.segs[-1][-1][0] == "d":
                return False
            t = plain_side(rng, 2)
            as_text = rng.random() < 0.5
            env_t = {} if as_text else dict(t.env)
            e.segs = [list(s) for s in e.segs[:-1]] + [list(e.segs[-1]) + list(t.segs[0])] + [list(s) for s in t.segs[1:]]
            e.env.update(env_t)
            steps.append({"op": "CT", "text": t.pattern()} if as_text else
                         {"op": "CM", "spec": {"pat": t.pattern(), "env": sorted(env_t.items()), "root": None, "with": None}})
            return True
        ok = True
        for part in kind.split("+"):
            if part == "with_env":
                step_env(False, True)
            elif part == "root":
                step_env(True, False)
            elif part == "both":
                step_env(True, True)
            else:
                ok = ok and step_concat()
        if not ok or not locale_ok(e):
            continue
        try:
            fl = e.normalize_fills(b.normalize_fills(a.normalize_fills(dict(fills))))
            warm, pe, pb = a.fill(fl), e.fill(fl), b.fill(fl)
            groups = e.expected_groups(fl)
            ppre = e.fill(fl, upto_first_wildcard=True)
        except (AssertionError, KeyError, ValueError):
            continue
        fresh = {"pat": e.pattern(), "env": sorted(e.env.items()), "root": raw_root, "with": None}
        if dup_groups(fresh) or first_not_expandable(fresh):
            continue
        # names the concatenated parts define must differ (the parsers do not know of each other)
        if "concat" in kind:
            names = []
            for m in _TOK.finditer(e.pattern()):
                if m.group(0) != "*" and m.group(1) is not None:
                    names.append(m.group(1))
            if len(names) != len(set(names)):
                continue
        return a, b, fl, steps, e, fresh, kind, cwd, warm, pe, pb, groups, ppre
    return None


def run_derive(ctx, out, n, rng, cls="derive"):
    jobs = [j for j in (gen_derivation(rng) for _ in range(n)) if j is not None]
    cases = []
    for a, b, fl, steps, e, fresh, kind, cwd, warm, pe, pb, groups, ppre in jobs:
        cases.append({"a": raw_spec(a, a.root), "b": raw_spec(b, b.root), "cwd": cwd, "warm": warm, "steps": steps,
                      "paths": [pe, warm, pe + "x"], "fresh": fresh})
    res = pool.pmap("impl.matcher", "impl_derive", [[c] for c in cases], timeout=5.0)
    lines = ["c12.seq " + raw_margs(c["a"], c["cwd"]) + " " + raw_margs(c["b"], c["cwd"]) + " " + C.enc(c["warm"]) +
             _steps_arg(c["steps"], c["cwd"]) + G.paths_arg(c["paths"]) for c in cases]
    model = C.run_driver_parallel(lines) if ctx.model_ok else [None] * len(lines)
    for (a, b, fl, steps, e, fresh, kind, cwd, warm, pe, pb, groups, ppre), case, r, mo in zip(jobs, cases, res, model):
        out.evaluations += 1
        inp = dict(case)
        inp["class"] = cls + "." + kind
        if "r" not in r:
            out.violations.append({"what": "derived matcher: adapter failed: %s %s" % (r.get("exc"), r.get("msg")), "input": inp,
                                   "op": "derive", "finding": None})
            continue
        rr = r["r"]
        bad = []
        how = "after the source matched %r, derived by %s" % (warm, kind)
        if "derive_exc" in rr:
            bad.append("%s: deriving raised %r" % (how, rr["derive_exc"]))
        else:
            fr = rr["fresh"]
            if rr["a.match.warm"] != a.expected_groups(fl) or rr["a.match.again"] != a.expected_groups(fl):
                bad.append("the source matcher on its own path: %r, later %r, expected %r" % (rr["a.match.warm"], rr["a.match.again"],
                                                                                            a.expected_groups(fl)))
            if rr["matches"][0] != groups:
                bad.append("%s: the derived matcher matches its own filled path %r as %r, expected %r" % (how, pe, rr["matches"][0], groups))
            if rr["prefix"] != ppre:
                bad.append("%s: prefix %r, expected %r" % (how, rr["prefix"], ppre))
            if rr["sub"] != pb:
                bad.append("%s: derived.sub(b, %r) = %r, expected %r" % (how, pe, rr["sub"], pb))
            elif rr.get("back") != pe:
                bad.append("%s: b.sub(derived, %r) = %r, expected %r" % (how, pb, rr.get("back"), pe))
            for p, g, f in zip(case["paths"], rr["matches"], fr["matches"]):
                if g != f:
                    bad.append("%s: derived.match(%r) = %r, a matcher built afresh from the same pattern, variables and root gives %r"
                               % (how, p, g, f))
            if rr["prefix"] != fr["prefix"] or rr["sub"] != fr["sub"]:
                bad.append("%s: prefix / sub %r / %r, a matcher built afresh gives %r / %r" % (how, rr["prefix"], rr["sub"], fr["prefix"],
                                                                                            fr["sub"]))
        if bad:
            for w in bad[:3]:
                out.violations.append({"what": w, "input": inp, "op": "derive",
                                       "finding": finding_of_exc(rr.get("matches", [None])[0] if "matches" in rr else None, fresh)})
            out.count(cls + ".violations")
            continue
        if mo is not None and mo != rr["canon"]:
            out.disagreements.append({"op": "c12.seq", "input": inp, "impl": rr["canon"], "model": mo})
        out.nontrivial.add(("derive", case["a"]["pat"], json_key(steps), pe))
        out.count("%s.%s" % (cls, kind))
    for case, r in zip(cases, res):
        if len(out.samples) < 12 and "r" in r and "matches" in r["r"]:
            out.samples.append({"class": cls, "source": case["a"]["pat"], "warm-up path": case["warm"], "steps": case["steps"],
                                "derived matches": case["paths"][0], "groups": r["r"]["matches"][0]})
            break


def replay_derive(i):
    case = {k: i[k] for k in ("a", "b", "cwd", "warm", "steps", "paths", "fresh")}
    r = pool.pmap("impl.matcher", "impl_derive", [[case]], timeout=10.0)[0]
    if "r" not in r or "fresh" not in r["r"]:
        return {"input": i, "result": r, "violates": True}
    rr = r["r"]
    bad = rr["matches"] != rr["fresh"]["matches"] or rr["prefix"] != rr["fresh"]["prefix"] or rr["sub"] != rr["fresh"]["sub"]
    return {"input": i, "derived": rr["matches"], "fresh": rr["fresh"]["matches"], "violates": bool(bad)}


# ---------------------------------------------------------------------- file pairing on a real tree (paths/files.py)
def run_pairing(ctx, out, n, rng):
    """the sentence of the property about files: a reference pattern and an l10n pattern with the same wildcards, files on
    both sides obtained by filling the wildcards (one filling present on both sides, one only in the reference, one only in
    the localization).  ProjectFiles must pair them by the filling: every filling once, a file present on both sides never
    as two entries (missing and obsolete at once); lookups by either path give the same pair."""
    jobs = []
    for _ in range(n):
        a, b, fills = G.gen_pair(rng, rooted_ok=False)          # a = reference side, b = l10n side
        if not fills or G.first_is_wildcard(a) or G.first_is_wildcard(b):
            continue
        env = b.full_env()
        env.update(a.full_env())
        locale = env.get("locale", "de")
        if not isinstance(locale, str) or "{" in locale:
            continue
        env["locale"] = locale
        # round 5: the l10n side in the configuration idiom ({l} = "{l10n_base}/{locale}"), the locale NOT in the configuration's
        # variables (ProjectFiles binds it per locale), and calls that only look at the configuration's matchers before that
        late, warm = False, []
        ra = G.reachable_vars(a)
        a_needs_locale = "locale" in ra[0] + ra[1] or any(x[0] == "a" for x in a.atoms())
        if rng.random() < 0.6 and not a_needs_locale:
            if "l" not in env and "l10n_base" not in env and rng.random() < 0.7:
                b2 = clone(b)
                b2.segs.insert(0, [("v", "l")])
                b2.env = dict(env, l="{l10n_base}/{locale}", l10n_base=rng.choice(["l10n-central", "l10n/x"]))
                if not dup_groups(b2.spec()):
                    b, env = b2, dict(b2.env)
            late = True
            warm = rng.sample(["prefix", "str", "repr", "expand", "eq", "other-locale"], rng.choice([1, 2, 3]))
        for sd in (a, b):
            sd.env, sd.withenv, sd.root = dict(env), None, None
        if any(sp for sp in (a.spec(), b.spec()) if dup_groups(sp) or first_not_expandable(dict(sp, root="/t"))):
            continue
        if not locale_ok(a):
            continue
        # three fillings: one wildcard gets a different value (a star: other text; `**/`: one more directory; final `**`: other text)
        kinds = {}
        for sd in (a, b):
            ats = sd.atoms()
            for idx, at in enumerate(ats):
                if at[0] in "sd":
                    kinds[at[1]] = "t" if (at[0] == "d" and idx == len(ats) - 1) else at[0]
        k0 = None
        for k in sorted(fills):
            if not (kinds.get(k) == "s" and fills[k] == "" and k - 1 in fills and kinds.get(k - 1) == "s"):
                k0 = k          # (not the second of two adjacent stars: greedy matching leaves it empty)
                break
        if k0 is None:
            continue
        variants = []
        for tag in ("both", "ref", "loc"):
            fl = dict(fills)
            if tag != "both":
                fl[k0] = (tag + "/" + fills[k0]) if kinds[k0] == "d" else fills[k0] + tag
            variants.append((tag, b.normalize_fills(a.normalize_fills(fl))))
        try:
            paths = [(tag, a.fill(fl), b.fill(fl)) for tag, fl in variants]
        except (AssertionError, KeyError, ValueError):
            continue
        allp = [p for _, pa, pb in paths for p in (pa, pb)]
        if len(set(allp)) != len(allp) or any(p.startswith("/") or "//" in p or p.endswith("/") or p == "" or "\n" in p or
                                               any(seg in ("..", ".") for seg in p.split("/")) for p in allp):
            continue
        # a file must not be a directory of another one
        if any(x != y and y.startswith(x + "/") for x in allp for y in allp):
            continue
        # every path is covered by its own side only as the by-construction filling says: the glob reference decides overlaps
        ta, tb = a.tokens(), b.tokens()
        if any(G.ref_match(ta, pb) or G.ref_match(tb, pa) for _, pa, pb in paths):
            continue
        files = [paths[0][1], paths[0][2], paths[1][1], paths[2][2]]
        exp = sorted([[paths[0][2], paths[0][1]], [paths[1][2], paths[1][1]], [paths[2][2], paths[2][1]]])
        jobs.append((a, b, env, locale, files, exp, paths, late, warm))
    cases = [{"ref": a.pattern(), "l10n": b.pattern(), "env": sorted(env.items()), "locale": loc, "files": files,
              "late_locale": late, "warm": warm, "other_locale": "zz" if loc != "zz" else "yy"}
             for a, b, env, loc, files, exp, paths, late, warm in jobs]
    res = pool.pmap("impl.matcher", "impl_pairing", [[c] for c in cases], timeout=10.0)
    lines = []
    for (a, b, env, loc, files, exp, paths, late, warm), c in zip(jobs, cases):
        sa = {"pat": c["ref"], "env": c["env"], "root": None, "with": None}
        sb = {"pat": c["l10n"], "env": c["env"], "root": None, "with": None}
        lines.append("pm.sub " + G.margs(sa) + " " + G.margs(sb) + G.paths_arg([p[1] for p in paths]))
    model = C.run_driver_parallel(lines) if ctx.model_ok else [None] * len(lines)
    for (a, b, env, loc, files, exp, paths, late, warm), case, r, mo in zip(jobs, cases, res, model):
        out.evaluations += 1
        inp = dict(case)
        inp["class"] = "pairing" + (".history" if late else "")
        inp["expected"] = {"listed": exp, "pairs": [[p[2], p[1]] for p in paths]}
        if "r" not in r:
            out.violations.append({"what": "ProjectFiles on a one-rule project raised %s %s%s" % (
                r.get("exc"), r.get("msg"),
                (" (configuration without `locale`; before ProjectFiles(%r): %s on the configuration's matchers)" % (loc, ", ".join(warm))) if late else ""),
                "input": inp, "op": "pairing", "finding": None})
            continue
        rr = r["r"]
        bad = []
        how = (" (configuration without `locale`; before ProjectFiles(%r): %s on the configuration's matchers)" % (loc, ", ".join(warm))) if late else ""
        if rr["listed"] != exp:
            both = paths[0]
            extra = ""
            got_l = [x[0] for x in rr["listed"]]
            if got_l.count(both[2]) != 1 or [both[2], both[1]] not in rr["listed"]:
                extra = " (the file present on both sides is not one entry with both paths)"
            bad.append("ProjectFiles lists %r, expected the pairs by filling %r%s%s" % (rr["listed"], exp, extra, how))
        exp_look = [[paths[0][2], paths[0][1]], [paths[0][2], paths[0][1]], [paths[1][2], paths[1][1]], [paths[2][2], paths[2][1]]]
        if rr["lookups"] != exp_look:
            bad.append("ProjectFiles.match of %r gives %r, expected %r%s" % (files, rr["lookups"], exp_look, how))
        if bad:
            for w in bad[:2]:
                out.violations.append({"what": w, "input": inp, "op": "pairing", "finding": None})
            continue
        # the model's sub maps each reference path to the l10n path ProjectFiles paired it with, and back
        canon = " | ".join(C.enc(pb) + " " + C.enc(pa) for _, pa, pb in paths)
        if mo is not None and mo != canon:
            out.disagreements.append({"op": "pm.sub(pairing)", "input": inp, "impl": canon, "model": mo})
        out.nontrivial.add(("pairing", case["ref"], case["l10n"], tuple(files)))
        out.count("pairing.cases")
        if late:
            out.count("pairing.locale-bound-by-ProjectFiles")
            for w in warm:
                out.count("pairing.warm." + w)
    if jobs and len(out.samples) < 12:
        out.samples.append({"class": "pairing", "reference": cases[0]["ref"], "l10n": cases[0]["l10n"], "files": cases[0]["files"],
                            "pairs": res[0].get("r", {}).get("listed")})


# ====================================================================== round 5: HISTORIES on long-lived matcher objects.
# The unit of generation is a history on one store of matcher objects: a source built with only PART of its variables
# (the usual configuration idiom: `l = "{l10n_base}/{locale}/"`, the locale bound last), calls that only LOOK at it
# (prefix, str, repr, expand with raise_missing, ==, match, sub: the ones that raise or stop early inside a nested
# expansion), then with_env / re-rooted copy / concat in one or two stages, calls on the intermediate objects, a second
# derivation from the same source, and a write to the environment of a derived object.
# Oracle (independent of the model, does not depend on the earlier calls):
#   * purity: after every call the observable state (entries of the env dict, pattern nodes, root, prefix_length) of EVERY
#     object is what it was before the call, except for the one object a write is aimed at; only match/sub may fill the cache
#     of the matcher they are called on, and a filled cache holds the regex a matcher built afresh compiles;
#   * every looking call answers what the same call answers on objects built FRESH from the operands' current pattern text,
#     variables and root; a derived object has the state of a matcher built afresh from ITS pattern text, variables and root;
#   * on fully bound objects the answers known by construction (groups of the filled path, prefix, sub there and back,
#     no match for another locale's file unless the glob reference allows it).
QUIET = "PSXRQMU"


def _h_spec(sd, raw_root):
    return {"pat": sd.pattern(), "env": sorted(sd.env.items()), "root": raw_root, "with": None}


def _closed(sd):
    """every variable the expansion of the pattern reaches is bound"""
    seen, todo = set(), [a[1] for a in sd.atoms() if a[0] == "v"]
    if any(a[0] == "a" for a in sd.atoms()):
        todo.append("locale")
    while todo:
        n = todo.pop()
        if n in seen:
            continue
        seen.add(n)
        if n not in sd.env:
            return False
        todo.extend(m.group(1) for m in _TOK.finditer(sd.env[n]) if m.group(1) and m.group(1) != "android_locale")
    return True


def gen_history(rng):
    for _ in range(60):
        a, b, fills = G.gen_pair(rng)
        for sd in (a, b):
            sd.env, sd.withenv = sd.full_env(), None
        if G.first_is_wildcard(a) or G.first_is_wildcard(b):
            continue
        # the configuration idiom: a variable used at top level whose value needs variables that are bound LATER
        r = rng.random()
        if r < 0.65 and "l" not in a.env and "locale" not in [x[1] for x in a.atoms() if x[0] == "v"]:
            if rng.random() < 0.5:
                a.segs.insert(0, [("v", "l"), ("t", rng.choice(["browser", "toolkit", "x"]))])
                a.env["l"] = rng.choice(["{l10n_base}/{locale}/", "{ l10n_base }/{locale}/", "{l10n_base}/x-{locale}/"])
                a.env.setdefault("l10n_base", rng.choice(["/abs/l10n", "l10n-central", "rel/dir"]))
            else:
                a.segs.insert(rng.randrange(len(a.segs)), [("v", "l")])
                a.env["l"] = rng.choice(["l10n/{locale}", "{locale}", "x-{ locale }-y", "{m}/q"])
                if "{m}" in a.env["l"]:
                    if "m" in a.env:
                        continue
                    a.env["m"] = "{locale}.d"
            a.env.setdefault("locale", rng.choice(G.LOCALES))
            if G.first_is_wildcard(a):
                continue
        if any(dup_groups(sd.spec()) or first_not_expandable(sd.spec()) for sd in (a, b)):
            continue
        if not _closed(a) or not _closed(b) or not locale_ok(a) or not locale_ok(b):
            continue
        full = dict(a.env)
        direct, indirect = G.reachable_vars(a)
        leaves = [k for k in sorted(full) if "{" not in full[k] and k != "B"]
        first = a.atoms()[0] if a.atoms() else None
        if a.root is not None and first is not None and first[0] == "v":
            leaves = [k for k in leaves if k != first[1]]       # (rooted + unbound first variable is F11)
        if a.root is not None and first is not None and first[0] == "a":
            leaves = [k for k in leaves if k != "locale"]
        ind = [k for k in leaves if k in indirect or (k == "locale" and any(x[0] == "a" for x in a.atoms()))]
        hold = []
        if leaves and rng.random() < 0.85:
            pool_ = ind if (ind and rng.random() < 0.8) else leaves
            hold = rng.sample(pool_, min(len(pool_), rng.choice([1, 1, 2])))
        cwd = rng.choice(MG.CWDS)
        try:
            fl = b.normalize_fills(a.normalize_fills(dict(fills)))
            pa_full, pb = a.fill(fl), b.fill(fl)
        except (AssertionError, KeyError, ValueError):
            continue

        # ---- the program
        ops, sides, roots, tainted = [], [], [], set()

        def new_obj(sd, raw_root):
            sides.append(sd)
            roots.append(raw_root)
            return len(sides) - 1

        def spec(i):
            return _h_spec(sides[i], roots[i])

        def good(i):
            sp = spec(i)
            return _closed(sides[i]) and locale_ok(sides[i]) and not dup_groups(sp) and not first_not_expandable(sp)

        def own_path(i):
            return sides[i].fill(sides[i].normalize_fills(dict(fl)))

        def paths_pool(i):
            ps = [pa_full, pb, pa_full + "x"]
            for j in range(len(sides)):
                if good(j):
                    try:
                        ps.append(own_path(j))
                    except (AssertionError, KeyError, ValueError):
                        pass
            return ps

        def quiet(i, kinds=QUIET):
            k = rng.choice(kinds)
            op = {"op": k, "o": i}
            if k == "Q":
                op["o2"] = rng.randrange(len(sides))
            elif k == "M":
                op["path"] = rng.choice(paths_pool(i))
            elif k == "U":
                op["o2"] = rng.choice([j for j in range(len(sides)) if j != i] or [i])
                op["path"] = rng.choice(paths_pool(i))
            if k in "MU" and i in tainted:
                op["op"], op = "P", {"op": "P", "o": i}
            annotate(op)
            ops.append(op)

        def annotate(op):
            """what is known by construction about the answer"""
            i = op["o"]
            if not good(i):
                return
            sd = sides[i]
            try:
                if op["op"] == "P":
                    op["exp"] = sd.fill(dict(fl), upto_first_wildcard=True)
                elif op["op"] == "M":
                    if op["path"] == own_path(i):
                        op["exp"] = sd.expected_groups(sd.normalize_fills(dict(fl)))
                    elif not G.ref_match(sd.tokens(), op["path"]):
                        op["exp_none"] = True
                elif op["op"] == "U":
                    j = op["o2"]
                    if op["path"] == own_path(i) and good(j) and _same_wild(sd, sides[j]):
                        op["exp"] = own_path(j)
                    elif not G.ref_match(sd.tokens(), op["path"]):
                        op["exp_none"] = True
            except (AssertionError, KeyError, ValueError):
                op.pop("exp", None)

        def derive(src, over, root=None, concat=None):
            """-> index of the new object, or None when the step is not possible"""
            e = clone(sides[src])
            e.env = dict(sides[src].env)
            raw_root = roots[src]
            if concat is None:
                e.env.update(over)
                if root is not None:
                    raw_root = root
                    e.root = abs_root(cwd, root)
                j = new_obj(e, raw_root)
                ops.append({"op": "E", "o": src, "root": root, "env": sorted(over.items()), "result": spec(j)})
                return j
            kind, t, tj = concat
            if e.segs[-1][-1][0] == "d":
                return None
            e.segs = [list(s) for s in e.segs[:-1]] + [list(e.segs[-1]) + list(t.segs[0])] + [list(s) for s in t.segs[1:]]
            if kind == "CM":
                e.env.update(t.env)
            names = [m.group(1) for m in _TOK.finditer(e.pattern()) if m.group(0) != "*" and m.group(1) is not None]
            if len(names) != len(set(names)):
                return None
            j = new_obj(e, raw_root)
            ops.append({"op": "CT", "o": src, "text": t.pattern(), "result": spec(j)} if kind == "CT" else
                       {"op": "CM", "o": src, "o2": tj, "result": spec(j)})
            return j

        def checks(i):
            if not good(i):
                quiet(i, "PSM")
                return
            try:
                p = own_path(i)
            except (AssertionError, KeyError, ValueError):
                return
            for op in ({"op": "M", "o": i, "path": p}, {"op": "P", "o": i}, {"op": "U", "o": i, "o2": 1, "path": p},
                       {"op": "U", "o": 1, "o2": i, "path": pb}):
                if i in tainted and op["op"] in "MU" and op["o"] == i:
                    continue
                annotate(op)
                ops.append(op)

        a0 = clone(a)
        a0.env = {k: v for k, v in full.items() if k not in hold}
        i0 = new_obj(a0, a.root)
        ops.append({"op": "B", "spec": spec(i0)})
        ib = new_obj(b, b.root)
        ops.append({"op": "B", "spec": spec(ib)})
        for _k in range(rng.choice([1, 2, 2, 3, 4])):
            quiet(i0 if rng.random() < 0.85 else ib, "PPSSXRQMU")
        # stages: the held variables are bound in one or two steps
        groups = [hold] if (len(hold) < 2 or rng.random() < 0.5) else [hold[:1], hold[1:]]
        if not hold:
            groups = [[]]
        cur = i0
        ok = True
        for gi, grp in enumerate(groups):
            over = {k: full[k] for k in grp}
            if rng.random() < 0.3:
                for k in sorted(sides[cur].env):
                    v = sides[cur].env[k]
                    if "{" not in v and k not in ("locale", "B") and rng.random() < 0.4 and not v.startswith("/"):
                        over[k] = rng.choice(["other", "n.w", "zz-1"])
            kind = rng.choice(["with_env", "with_env", "with_env", "both", "concat+with_env", "with_env+root", "with_env+concat",
                               "empty+with_env"])
            for part in kind.split("+"):
                nxt = None
                if part == "with_env":
                    nxt = derive(cur, over)
                elif part == "empty":
                    nxt = derive(cur, {})
                elif part == "root":
                    if not G.first_is_wildcard(sides[cur]) and not first_not_expandable(dict(spec(cur), root="/r")):
                        nxt = derive(cur, {}, root=rng.choice(G.ROOTS[:6] + REL_ROOTS))
                    else:
                        continue
                elif part == "both":
                    if not first_not_expandable(dict(_h_spec(sides[cur], "/r"), env=sorted(dict(sides[cur].env, **over).items()))):
                        nxt = derive(cur, over, root=rng.choice(G.ROOTS[:6] + REL_ROOTS))
                    else:
                        nxt = derive(cur, over)
                else:
                    t = plain_side(rng, 2)
                    if rng.random() < 0.5:
                        nxt = derive(cur, None, concat=("CT", _no_env(t), None))
                    else:
                        tj = new_obj(t, None)
                        ops.append({"op": "B", "spec": spec(tj)})
                        nxt = derive(cur, None, concat=("CM", t, tj))
                    if nxt is None:
                        continue
                if nxt is None:
                    ok = False
                    break
                for _k in range(rng.choice([0, 1, 1, 2])):
                    quiet(rng.choice([i0, cur, nxt, nxt]), "PSXRQMU")
                cur = nxt
            if not ok:
                break
        if not ok:
            continue
        d = cur
        checks(d)
        # another locale's file: the derived matcher must not claim it (unless the glob reference allows it)
        if good(d) and "locale" in sides[d].env and "{" not in sides[d].env["locale"]:
            o = clone(sides[d])
            o.env = dict(sides[d].env, locale=rng.choice([x for x in G.LOCALES if x != sides[d].env["locale"]]))
            try:
                if locale_ok(o):
                    op = {"op": "M", "o": d, "path": o.fill(o.normalize_fills(dict(fl)))}
                    annotate(op)
                    ops.append(op)
            except (AssertionError, KeyError, ValueError):
                pass
        # the source again, and a SECOND derivation from the same source (another locale, as ProjectFiles does per locale)
        if rng.random() < 0.6:
            quiet(i0, "PSXM")
            over = {k: full[k] for k in hold}
            if "locale" in over and rng.random() < 0.7:
                over["locale"] = rng.choice([x for x in G.LOCALES if x != full["locale"]])
            d2 = derive(i0, over)
            if good(d2):
                checks(d2)
            checks(d)
        # two concatenations on the same base: the base and the first result stay what they were
        if rng.random() < 0.25:
            for _k in range(2):
                j = derive(d, None, concat=("CT", _no_env(plain_side(rng, 2)), None))
                if j is not None:
                    checks(j)
            checks(d)
        # a write to the environment of one object (what concat does to its result): no OTHER object may change, and the object
        # itself answers by its new environment (preferably a variable used INSIDE a nested value, looked at before and after)
        if rng.random() < 0.55:
            tgt = rng.choice([d, d, i0] + [j for j in range(len(sides)) if j != ib])
            env_t = sides[tgt].env
            cand = [k for k in sorted(env_t) if "{" not in env_t[k] and k not in ("locale", "B") and not env_t[k].startswith("/")]
            nested = [k for k in cand if k in G.reachable_vars(sides[tgt])[1]]
            if nested and rng.random() < 0.7:
                k = rng.choice(nested)
            elif cand and rng.random() < 0.6:
                k = rng.choice(cand)
            else:
                k = rng.choice(["zz", "extra"])
            v = rng.choice(["written", "w.w", "q"])
            quiet(tgt, "PS")
            sides[tgt] = clone(sides[tgt])
            sides[tgt].env = dict(env_t, **{k: v})
            # (a matcher that has compiled its regex keeps it: nothing is demanded of its match/sub afterwards)
            tainted.add(tgt)
            ops.append({"op": "W", "o": tgt, "k": k, "v": v, "result": spec(tgt)})
            quiet(tgt, "PS")
            checks(tgt)
            quiet(i0, "PSM")
            d3 = derive(i0, {k2: full[k2] for k2 in hold})
            checks(d3)
            if tgt != d:
                checks(d)
        if len(ops) > 40:
            continue
        return {"cwd": cwd, "ops": ops, "hold": sorted(hold)}
    return None


def _no_env(t):
    t = clone(t)
    t.env = {}
    return t


def _same_wild(x, y):
    return [a for a in x.atoms() if a[0] in "sd"] == [a for a in y.atoms() if a[0] in "sd"]


def _hist_arg(case):
    s = "c12.hist %s %d" % (C.enc(case["cwd"]), len(case["ops"]))
    for op in case["ops"]:
        k = op["op"]
        if k == "B":
            sp = op["spec"]
            s += " B %s %s %d" % ("-" if sp["root"] is None else C.enc(sp["root"]), C.enc(sp["pat"]), len(sp["env"]))
            for kk, v in sp["env"]:
                s += " %s %s" % (C.enc(kk), C.enc(v))
        elif k in "PSXR":
            s += " %s %d" % (k, op["o"])
        elif k == "Q":
            s += " Q %d %d" % (op["o"], op["o2"])
        elif k == "M":
            s += " M %d %s" % (op["o"], C.enc(op["path"]))
        elif k == "U":
            s += " U %d %d %s" % (op["o"], op["o2"], C.enc(op["path"]))
        elif k == "E":
            s += " E %d %s %d" % (op["o"], "-" if op["root"] is None else C.enc(op["root"]), len(op["env"]))
            for kk, v in op["env"]:
                s += " %s %s" % (C.enc(kk), C.enc(v))
        elif k == "CT":
            s += " CT %d %s" % (op["o"], C.enc(op["text"]))
        elif k == "CM":
            s += " CM %d %d" % (op["o"], op["o2"])
        elif k == "W":
            s += " W %d %s %s" % (op["o"], C.enc(op["k"]), C.enc(op["v"]))
    return s


_OPNAME = {"P": "prefix", "S": "str()", "X": "pattern.expand(env, raise_missing=True)", "R": "repr()", "Q": "==", "M": "match",
           "U": "sub", "E": "Matcher(m, env, root) / with_env", "CT": "concat(text)", "CM": "concat(matcher)", "B": "Matcher(...)",
           "W": "env[k] = ..."}


def _state(sn):
    return (sn["pattern"], sn["root"], [tuple(kv) for kv in sn["env"]])


def _same_answer(x, y):
    if is_exc(x) or is_exc(y):
        return is_exc(x) and is_exc(y) and x["exc"] == y["exc"]
    return x == y


def judge_history(case, steps):
    """-> (list of (message, finding id or None), index of the first bad step or None)"""
    prev = []
    joined = set()          # results of concat and what is derived from them
    for t, (op, st) in enumerate(zip(case["ops"], steps)):
        k = op["op"]
        bad = []
        if st.get("stuck"):
            return [("the history cannot go on at call %d (%s): an earlier derivation raised" % (t, _OPNAME[k]), None)], t
        snaps = st["snap"]
        call = "call %d, %s on object %s" % (t, _OPNAME[k], op.get("o", len(snaps) - 1))
        # --- purity: every object that existed before the call
        for i, before in enumerate(prev):
            after = snaps[i]
            if k == "W" and i == op["o"]:
                continue
            if _state(after) != _state(before):
                lost = sorted(set(kv[0] for kv in before["env"]) - set(kv[0] for kv in after["env"]))
                bad.append(("%s changed the state of matcher object %d (%r): variables %s -> %s%s, pattern %s"
                            % (call, i, case["specs_text"][i] if i < len(case.get("specs_text", [])) else "?",
                               [kv[0] for kv in before["env"]], [kv[0] for kv in after["env"]],
                               " (lost: %s)" % ", ".join(lost) if lost else "",
                               "unchanged" if after["pattern"] == before["pattern"] and after["root"] == before["root"] else "CHANGED"),
                            None))
            elif after["cached"] != before["cached"] and not (k in "MU" and i == op["o"] and after["cached"]):
                bad.append(("%s changed whether object %d has a compiled regex (%s -> %s)" % (call, i, before["cached"], after["cached"]), None))
        if st.get("cache_bad"):
            bad.append(("%s: the regex cached by object(s) %s is not the one a matcher built afresh from the same pattern, variables and "
                        "root compiles" % (call, st["cache_bad"]), None))
        # --- derived objects
        if k in ("E", "CT", "CM") and not is_exc(st.get("out")):
            new = snaps[-1]
            if st.get("same_object"):
                bad.append(("%s returned an object that already exists (not a new matcher)" % call, None))
            fr = st.get("fresh_state")
            if isinstance(fr, dict) and "pattern" in fr:
                # (concat appends the nodes of the other pattern: two adjacent literals are not merged as the parser would)
                if k != "E" or op["o"] in joined:
                    joined.add(len(snaps) - 1)
                same = _state(new) == _state(fr) if len(snaps) - 1 not in joined else (new["root"], new["env"]) == (fr["root"], fr["env"])
                if not same or new["cached"]:
                    bad.append(("%s: the derived matcher has variables %r, root %r%s; a matcher built afresh from its pattern text %r, "
                                "variables and root has variables %r, root %r"
                                % (call, [kv[0] for kv in new["env"]], new["root"], " and a compiled regex" if new["cached"] else "",
                                   op["result"]["pat"], [kv[0] for kv in fr["env"]], fr["root"]), None))
            if len({sn["env_id"] for sn in snaps}) != len(snaps) and "alias" not in case:
                case["alias"] = t           # (not demanded by itself: reported with the first consequence)
        elif k in ("E", "CT", "CM", "B") and is_exc(st.get("out")):
            bad.append(("%s raised %s" % (call, st["out"].get("exc")), finding_of_exc(st["out"], op.get("result") or op.get("spec"))))
        # --- looking calls: the same answer as on fresh objects, and what is known by construction
        if k in QUIET and not st.get("tainted"):
            got = st["out"]
            sp = case["ops_spec"][t] if "ops_spec" in case else None
            if not _same_answer(got, st["fresh"]):
                bad.append(("%s answers %r; the same call on matchers built afresh from the same pattern text, variables and root answers %r"
                            % (call + (" with %r" % op["path"] if "path" in op else ""), got, st["fresh"]), finding_of_exc(got, sp)))
            if "exp" in op and got != op["exp"]:
                bad.append(("%s answers %r, expected by construction %r" % (call + (" with %r" % op["path"] if "path" in op else ""), got,
                                                                           op["exp"]), finding_of_exc(got, sp)))
            if op.get("exp_none") and got is not None:
                bad.append(("%s answers %r for a path the pattern does not cover (glob reference), expected None"
                            % (call + " with %r" % op["path"], got), finding_of_exc(got, sp)))
        if bad:
            return bad, t
        prev = snaps
    return [], None


def _hist_specs(case):
    """current spec (pattern text, variables, root) of the object each call is made on, and the text of every object"""
    specs, per_op = [], []
    for op in case["ops"]:
        k = op["op"]
        if k == "B":
            specs.append(op["spec"])
        elif k in ("E", "CT", "CM"):
            specs.append(op["result"])
        elif k == "W":
            specs[op["o"]] = op["result"]
        per_op.append(dict(specs[op["o"]]) if "o" in op and op["o"] < len(specs) else None)
    case["ops_spec"] = per_op
    case["specs_text"] = [sp["pat"] for sp in specs]


def run_history(ctx, out, n, rng, cls="history"):
    cases = [c for c in (gen_history(rng) for _ in range(n)) if c is not None]
    res = pool.pmap("impl.matcher", "impl_history", [[{"cwd": c["cwd"], "ops": c["ops"]}] for c in cases], timeout=8.0)
    lines = [_hist_arg(c) for c in cases]
    model = C.run_driver_parallel(lines) if ctx.model_ok else [None] * len(lines)
    shown = False
    for case, r, mo in zip(cases, res, model):
        out.evaluations += 1
        inp = {"cwd": case["cwd"], "ops": case["ops"], "hold": case["hold"], "class": cls}
        if "r" not in r:
            out.violations.append({"what": "history: adapter failed: %s %s" % (r.get("exc"), r.get("msg")), "input": inp, "op": "history",
                                   "finding": None})
            continue
        _hist_specs(case)
        bad, t = judge_history(case, r["r"]["steps"])
        if bad:
            inp["first_bad_call"] = t
            if "alias" in case:
                inp["objects_share_an_env_dict_since_call"] = case["alias"]
            for w, fid in bad[:2]:
                out.violations.append({"what": w, "input": inp, "op": "history", "finding": fid})
            out.count(cls + ".violations")
            continue
        if mo is not None and mo != r["r"]["canon"]:
            ms, rs = mo.split(" || "), r["r"]["canon"].split(" || ")
            at = next((i for i, (x, y) in enumerate(zip(ms, rs)) if x != y), min(len(ms), len(rs)))
            out.disagreements.append({"op": "c12.hist", "input": inp, "first_difference_at_call": at,
                                      "impl": rs[at] if at < len(rs) else None, "model": ms[at] if at < len(ms) else None})
        kinds = "".join(sorted({op["op"][0] for op in case["ops"]}))
        out.nontrivial.add(("history", case["ops"][0]["spec"]["pat"], json_key([{k: v for k, v in op.items() if k not in ("result", "exp")}
                                                                               for op in case["ops"]])))
        out.count("%s.cases" % cls)
        out.count("%s.calls" % cls, len(case["ops"]))
        out.count("%s.%s" % (cls, "partially-bound-source" if case["hold"] else "fully-bound-source"))
        for op in case["ops"]:
            out.count("%s.op.%s" % (cls, op["op"]))
        if not shown and len(out.samples) < 14 and case["hold"]:
            shown = True
            out.samples.append({"class": cls, "source": case["ops"][0]["spec"], "bound later": case["hold"],
                                "calls": [{k: v for k, v in op.items() if k not in ("result", "exp", "exp_none")} for op in case["ops"][:8]]})


def replay_history(i):
    case = {"cwd": i["cwd"], "ops": i["ops"]}
    r = pool.pmap("impl.matcher", "impl_history", [[case]], timeout=20.0)[0]
    if "r" not in r:
        return {"input": i, "result": r, "violates": True}
    _hist_specs(case)
    bad, t = judge_history(case, r["r"]["steps"])
    return {"input": i, "first_bad_call": t, "laws": [w for w, _ in bad], "violates": bool(bad)}


def replay_pairing(i):
    case = {k: i[k] for k in ("ref", "l10n", "env", "locale", "files", "late_locale", "warm", "other_locale") if k in i}
    r = pool.pmap("impl.matcher", "impl_pairing", [[case]], timeout=20.0)[0]
    if "r" not in r or "expected" not in i:
        return {"input": i, "result": r, "violates": "r" not in r}
    pairs = i["expected"]["pairs"]
    exp_look = [pairs[0], pairs[0], pairs[1], pairs[2]]
    bad = r["r"]["listed"] != i["expected"]["listed"] or r["r"]["lookups"] != exp_look
    return {"input": i, "listed": r["r"]["listed"], "lookups": r["r"]["lookups"], "violates": bool(bad)}

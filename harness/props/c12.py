"""C12 — Pattern expansion, matching and prefix are mutually consistent."""
import itertools

from lib import common as C
from lib import pool
from lib.runner import Outcome
from impl import pathgen as G
from props import c11 as E

ID = "C12"
LEAN_TARGETS = ["CLModel.Props.C12"]
M = "CLModel.Props.C12"
THEOREMS = [
    (M, "C12.star_no_slash", "a single star never matches across '/': the reported group of a top-level `*` contains no separator (all patterns, envs, paths)"),
    (M, "C12.starstar_whole_dirs", "a `**/` group is None or a non-empty text ending in '/': zero or more whole directories"),
    (M, "C12.only_complete_paths", "nothing but complete paths match: after a successful match the regex has consumed the whole path (all patterns, envs, paths)"),
    (M, "C12.match_has_prefix", "every path matched by ANY Matcher(pattern, env, root) starts with matcher.prefix (nested/self-referential variables, repeated variables, Android locale, roots), whenever both return"),
    (M, "C12.match_has_prefix_with_env", "the same after matcher.with_env(environ)"),
    (M, "C12.match_has_prefix_of_shape", "the same for any Matcher value of the parser's shape (unrooted env patterns, repeated variables have a first occurrence)"),
    (M, "C12.matches_own_expansion_partial", "a fully bound, wildcard-free pattern whose regex compiles matches its own expansion (engine run through the literal-like regex)"),
    (M, "C12.expand_match_star_partial", "expand -> match WITH wildcards (completeness + uniqueness of the backtracking matcher): for a matcher whose top-level nodes are literals, `*`, `**/` (or a final `**`) and first occurrences of fully bound variables (values may use further variables, {l} = '{l10n_base}/{locale}/'; any root), the path obtained by filling the wildcards with well separated values (no '/' in a star value, the literal after a star does not recur later in the same '/'-free run, `**/` = whole newline-free directories, no second double star) is matched, and the returned dictionary has the regex's group names as keys and maps s<n> to the filled value (`**`: None if empty) and every top-level variable to its expansion"),
    (M, "C12.filled_path_is_expansion_partial", "the filled path is Pattern.expand of the pattern in the environment 'groups returned by match, then the matcher's own environment', so expand_match_star_partial reads: a pattern whose variables and wildcards are bound expands to a path the same matcher matches, returning the bound values"),
    (M, "C12.star_separator_witness", "the separator hypothesis is forced: '*.*' filled with ('a', 'b.c') gives 'a.b.c', which match decomposes as ('a.b', 'c')"),
    (M, "C12.wildcard_value_witness", "forced value shapes: '/' in a star value, a `**/` value that is not whole directories or contains a newline, a newline in a final `**`: not matched"),
    (M, "C12.two_starstar_match_witness", "'one double star with directories' is forced: 'a/x/x/x/q.f' fills 'a/**/x/**/*.f' in several ways, match reports ('x/x/', None, 'q')"),
    (M, "C12.match_returns_bound_values", "... returning the bound variable values: the entry of a bound top-level variable is the expansion of its value"),
    (M, "C12.no_cycle_terminates", "_no_cycle: expansion never nests deeper than 2*len(env)+3 for ANY environment (self/mutual references), unless env['locale'] contains {android_locale}"),
    (M, "C12.matcher_terminates", "hence str(matcher), matcher.prefix and the regex construction terminate"),
    (M, "C12.constructed_matcher_envOK", "the environment shape the theorems assume holds for Matcher(pattern, env, root): parsed unrooted patterns; only 'no repeated variable in a value' remains"),
    (M, "C12.android_roundtrip_shipped", "all 143 shipped locale codes: BCP 47 -> Android -> BCP 47 is the identity (decided on the regenerated tables/regexes)"),
    (M, "C12.android_roundtrip_curated", "same for a curated list: language, language-REGION, script(+region), numeric region, variant, legacy he/id/yi (+region, and in the b+ form)"),
    (M, "C12.android_forms", "he-IL -> iw-rIL, sr-Latn -> b+sr+Latn, id -> in"),
    (M, "C12.android_cycle_witness", "C12-android-locale-cycle-recursion: locale='{android_locale}' does not terminate (negation witness of AndroidSafe)"),
    (M, "C12.trailing_newline_rejected", "Matcher('foo/*.ftl').match('foo/a.ftl\\n') is None, without the newline {'s1': 'a'}"),
    (M, "C12.rooted_wildcard_first_witness", "F11: rooted pattern starting with a wildcard: match raises KeyError, prefix IndexError"),
    (M, "C12.duplicate_group_witness", "F12: '{v}/{locale}' with v='{locale}x': re.error (duplicate group name)"),
    (M, "C12.android_legacy_bplus_roundtrip", "a legacy code in the b+ form comes back: he-Hebr-IL -> b+iw+Hebr+IL -> he-Hebr-IL"),
    (M, "C12.android_limits_witness", "limits outside the locale list: cin -> cid, en-US-x-foo -> en-US"),
    (M, "C12.android_roundtrip_general", "GENERAL Android round trip: for every locale made of '-'-joined subtags without '-'/'+' inside, none ending in iw/in/ji, none after the first of the form rXX, and exactly two subtags when it starts like ll-XX: _get_android_locale followed by the conversion in Matcher.match gives the locale back (re.sub analysed as left-to-right rewriting, each regex at an arbitrary position)"),
    (M, "C12.android_match_reports_locale_partial", "a matcher with {android_locale} reports the locale it was bound to: pattern of the class (literals, *, **/, final **, fully bound and repeated variables, {android_locale} and its repetitions), locale bound to a value expanding to a locale of the general lemma, no {locale} group of its own: the filled path is matched, group android_locale = the Android form, and the added entry `locale` = exactly the bound locale"),
    (M, "C12.android_general_witness", "each hypothesis of the general lemma is forced: cin, zh-Latn-pinyin, xx-Latn-rDE, en-US-x-foo, a+b-c do not come back"),
    (M, "C12.expand_match_backref_partial", "expand -> match with wildcards AND repeated variables ({l}a/{l}b/*.ftl, l10n/{locale}/x/{locale}.ftl): the later occurrences are back-references, which the engine treats like the literal text of the captured group; same conclusion as expand_match_star_partial, whose class is included"),
    (M, "C12.filled_path_is_expansion_backref_partial", "the filled path is Pattern.expand of the pattern under 'groups returned by match, then own env', with repeated variables"),
    (M, "C12.matches_own_expansion_backref_partial", "a fully bound pattern without wildcards, variables may repeat: str(matcher) is matched by the matcher (matches_own_expansion_partial without NoRep, for patterns without {android_locale})"),
    (M, "C12.mozpath_regex_is_lexer", "for EVERY pattern text the regex mozpath.match caches is the translation of the token list of a plain lexer (characters, `*`, `**/` after '/' or at the start, final `/**`, the pattern `**`), then `(?:/.*)?$`: finditer of the tokenising regex analysed position by position"),
    (M, "C12.mozpath_match_sound_complete", "mozpath.match is sound AND complete for an inductive glob relation (no regexes in it), for patterns of any length and every newline-free path: it never raises and returns True exactly when the pattern is empty or its token list matches the path or one of its ancestor directories"),
    (M, "C12.mozpath_empty_pattern", "the empty pattern matches everything"),
    (M, "C12.mozpath_literal", "a pattern without wildcards matches exactly itself and everything below it (`foo` matches `foo` and `foo/bar`)"),
    (M, "C12.mozpath_star_one_component", "`*` matches inside one path component only: A*B matches exactly A w B with w free of '/' (and what is below)"),
    (M, "C12.mozpath_dstar_any_dirs", "`**` matches any number of path components including none: A/**/B matches exactly A/B and A/w/B for every non-empty w (and what is below)"),
    (M, "C12.mozpath_slash_witness", "trailing slash / normalisation as the code has it: pattern 'foo/' does not match 'foo' but 'foo/' and 'foo//x'; path 'foo/' matches 'foo'; 'foo/*' matches 'foo/a/b' (ancestor rule), 'foo/*.ftl' does not match 'foo/a/b.ftl'"),
    (M, "C12.mozpath_newline_witness", "the newline-free hypothesis is forced: mozpath.match anchors with `$`, 'foo\\n' matches 'foo'"),
    (M, "C12.mozpath_adjacent_dstar_witness", "two adjacent `**` are not two directory wildcards: '**/**/b' does not match 'b' (the second is two single stars)"),
    (M, "C12.mozpath_join_assoc", "mozpath.join is associative (a later absolute part restarts the path)"),
    (M, "C12.mozpath_split_join", "split and '/'.join are inverse; no component contains '/'"),
    (M, "C12.mozpath_relpath_join", "relpath(join(base, q), base) = normpath(q) ('' for '.') for a relative q that never climbs above its start, base absolute or relative to the working directory"),
    (M, "C12.mozpath_relpath_witness", "forced hypotheses: relpath('') raises ValueError; a q that climbs out comes back as its normal form only while the working directory is deep enough"),
    (M, "C12.mozpath_basedir", "basedir returns one of the bases, which is a path-prefix of the path (or the path itself); None only if no base contains the path; among several the deepest"),
    (M, "C12.mozpath_commonprefix", "commonprefix (through min and max) is the longest common prefix: a prefix of every path, and every common prefix is a prefix of it"),
    (M, "C12.mozpath_parts", "dirname/basename/splitext lose nothing: head + basename = path, basename has no '/', dirname is a prefix, root + ext = path, ext is '' or '.' + text without '.' and '/'"),
    (M, "C12.expand_leaves_env_untouched", "nested expansion never touches the dict it is given: for every pattern, raise_missing, heap and address, pattern.expand answers what the stateless model answers for the dict's CONTENTS (a text or an exception, MissingEnvironment from any depth included) and the heap afterwards is the heap before plus new dicts"),
    (M, "C12.regex_leaves_env_untouched", "the same for regex_pattern / _cache_regex"),
    (M, "C12.no_cycle_copies", "_no_cycle(env) returns a dict holding env without the name and leaves env itself alone"),
    (M, "C12.readonly_ops_preserve_state", "prefix, str(), pattern.expand(env, raise_missing=True), repr(), == on matcher objects answer the stateless function of the views (value OR exception) and leave the store as it was: same objects (pattern, root, env address, cache), same dicts at all existing addresses"),
    (M, "C12.readonly_trigger_example", "the history of the round-5 regression on the model: '{l}browser/**' with l = '{l10n_base}/{locale}/', locale unbound: prefix, str ('' both), expand(raise_missing) (MissingEnvironment), then with_env({locale: de}): the derived matcher matches its own file with l = '/l10n/de/', not the fr file, prefix '/l10n/de/browser/', the source still has both variables"),
]
PARTIAL = [
    "matches_own_expansion_partial excludes repeated variables; matches_own_expansion_backref_partial lifts that for patterns without {android_locale} "
    "(a variable repeated INSIDE an environment value is still excluded: EnvOK)",
    "android round trip: general lemma android_roundtrip_general for all subtag lists satisfying AndroidOK (four forced exclusions, android_general_witness), plus the decided "
    "shipped/curated lists; {android_locale} with a BOUND locale is inside the proved expand->match class (android_match_reports_locale_partial); it is still outside "
    "sub_roundtrip_* and match_sound_general (the expansion side would need `getAndroidLocale` under the environment `sub` builds); with an unbound locale match_sound is "
    "false (C11.match_sound_android_witness)",
    "mozpath.match: proved for every pattern text and every NEWLINE-FREE path (forced: `$` accepts a final newline, mozpath_newline_witness); the glob relation is at token level (what `**` means next to another `**` is what the lexer says: mozpath_adjacent_dstar_witness)",
    "pure mozpath helpers: normpath, abspath, relpath, rebase, dirname, splitext are modelled and tied by correspondence on odd paths; proved laws: join associativity, split/join, relpath(join(base,q),base) = normpath(q) for non-climbing q, basedir (sound, None, deepest), commonprefix (longest common prefix), parts add up; NOT proved: normpath idempotence, a general relpath/rebase law (both depend on the working directory when a path climbs out: mozpath_relpath_witness); realpath (file system) is outside the model",
    "expand_match_star_partial / filled_path_is_expansion_partial (expand -> match with wildcards) are proved for the restricted class only: "
    "top-level literals, `*`, one `**/` (anything double-star-free after it) or a final `**`, first occurrences of fully bound variables (nested values "
    "allowed; since round 4 also repeated top-level variables = back-references: expand_match_backref_partial); not proved for {android_locale}, a repetition inside an "
    "environment value, two double stars (forced: two_starstar_match_witness), unbound (captured) "
    "variables next to wildcards (the star separator hypotheses are forced: star_separator_witness, wildcard_value_witness); outside the class the construction-based oracle checks every generated case",
]
LEVEL_TEXT = ("Lean 4 theorems over an executable transliteration of paths/matcher.py and mozpath.py, valid for ALL patterns, environments and paths: star "
              "groups contain no '/', `**/` groups are None or whole directories, a match consumes the whole path, "
              "matched paths start with the prefix, a fully bound pattern matches its own expansion and reports the bound values "
              "(with wildcards, repeated variables and {android_locale}: completeness + uniqueness of the backtracking matcher on well separated fillings of the restricted class), "
              "expansion terminates for every environment (cycle cutting) except the locale/android_locale cycle; Android round trip proved in general "
              "(all subtag lists outside four forced exclusions) and decided for all shipped + curated locales; mozpath.match proved sound and complete for an "
              "inductive glob relation for every pattern text (newline-free paths), laws of the pure mozpath helpers; model tied to the Python by structural "
              "equality of the regex AST and equal results (incl. odd paths, operation sequences on matcher objects); independent references + "
              "construction-based oracle incl. deliberately non-matching paths")
LEVEL_NOTE = ("see partial; trusted: Lean kernel, hand-written models validated by correspondence, Rx engine = CPython re on the audited subset; "
              "forced hypotheses with negation witnesses: AndroidSafe (locale/android_locale cycle), regex compiles / DistinctGroupNames (F12), FirstNodeOK (F11), "
              "newline-free path (mozpath `$`), the four exclusions of the Android lemma, non-climbing path (relpath); "
              "the Matcher-environment shape (parsed unrooted patterns) always holds for Matcher(...)")
TECHNIQUE = E.TECHNIQUE
TRUSTED = E.TRUSTED + [
    "model of mozpath.match in the same file (tied by the moz.match correspondence incl. structural equality of the cached regex)",
    "hand-written model CLModel/Paths/MozPath.lean of the posixpath functions behind the mozpath helpers (tied by the c12.mp.* streams on odd paths under three working directories)",
]
ASSUMPTIONS = E.ASSUMPTIONS + [
    "paths are normalised (no empty segments, newline only as the deliberately appended last character) in the matcher streams; the mozpath helper streams use arbitrary odd paths",
    "POSIX (os.sep == '/', os.altsep is None): the two replace branches of mozpath.normsep are dead; realpath (symbolic links) is outside the model",
]

classify = E.classify

CURATED_LOCALES = [
    # language
    "de", "fr", "ast", "en", "kab", "zh", "hsb", "lij", "wo",
    # language-REGION
    "en-US", "en-GB", "pt-BR", "es-MX", "zh-TW", "hi-IN", "bn-BD", "fy-NL", "nb-NO", "ast-ES",
    # script, script+region, numeric region, variant
    "sr-Latn", "sr-Cyrl", "zh-Hant-TW", "zh-Hans-CN", "uz-Latn-UZ", "es-419", "ca-valencia", "sr-Cyrl-RS", "az-Arab",
    # a language subtag ending in "b" in the b+ form (str.replace("b+", "") also hits "kab+")
    "kab-Latn", "hsb-419", "dsb-Latn-DE",
    # legacy codes
    "he", "id", "yi", "he-IL", "id-ID", "yi-US", "id-Latn", "he-Hebr-IL", "id-Latn-ID", "yi-Hebr",
]


def shipped_locales():
    from compare_locales import plurals
    return sorted(plurals.CATEGORIES_BY_LOCALE)


# ------------------------------------------------------------------ environment special cases
def env_special(rng, n):
    """variables defined through other variables, self references, mutual references, the
    locale <-> android_locale cycle; with one candidate path"""
    out = []
    forms = [
        ({"v": "{v}y"}, "self"), ({"v": "x{v}"}, "self"), ({"v": "{w}", "w": "{v}"}, "mutual"),
        ({"v": "{w}-1", "w": "{u}-2", "u": "z"}, "chain"), ({"v": "{w}{w}", "w": "ab"}, "chain"),
        ({"v": "{w}/{u}", "w": "{u}", "u": "q"}, "diamond"),
        ({"locale": "{android_locale}"}, "android-cycle"), ({"locale": "{v}", "v": "{android_locale}"}, "android-cycle"),
        ({"locale": "{locale}-x"}, "self"), ({"v": "{locale}", "locale": "de"}, "chain"),
        ({"v": "{ v }"}, "self"), ({"v": "{w}", "w": "{u}", "u": "{v}"}, "mutual"),
    ]
    pats = ["{v}", "a/{v}/b", "{v}/{w}", "x-{v}.ftl", "{android_locale}/{v}", "l/{locale}/*.ftl", "{w}/{v}/**", "{v}{v}",
            "{android_locale}", "{u}/{v}"]
    for _ in range(n):
        env, kind = rng.choice(forms)
        pat = rng.choice(pats)
        root = rng.choice([None, None, "/r"])
        paths = [pat.replace("{v}", "q").replace("{w}", "ab").replace("{u}", "z").replace("{locale}", "de")
                 .replace("{android_locale}", "de").replace("**", "d/e").replace("*", "f"),
                 rng.choice(["zy", "a/xy/b", "ab-1/ab", "q/q", "z-2-1"])]
        if root:
            paths = [root + "/" + p for p in paths]
        out.append((kind, {"pat": pat, "env": sorted(env.items()), "root": root, "with": None, "paths": paths}))
    return out


def run_specs(ctx, out, specs, cls, law=None):
    """correspondence (+ a law on the implementation's results) for raw matcher specs"""
    res = pool.pmap("impl.matcher", "impl_matcher", [[s] for s in specs], timeout=5.0)
    lines = []
    for s in specs:
        lines.append("pm.info " + G.margs(s))
        lines.append("pm.match " + G.margs(s) + G.paths_arg(s["paths"]))
        lines.append("pm.parse " + C.enc(s["pat"]))
    model = C.run_driver_parallel(lines) if ctx.model_ok else [None] * len(lines)
    for i, (s, r) in enumerate(zip(specs, res)):
        out.evaluations += 1
        inp = dict(s)
        inp["class"] = cls
        if "r" not in r:
            out.violations.append({"what": "matcher: %s %s" % (r.get("exc"), r.get("msg")), "input": inp, "op": "spec",
                                   "finding": E.finding_of_exc(r, s)})
            continue
        r = r["r"]
        bad = law(s, r) if law else []
        if bad:
            for what, finding in bad:
                out.violations.append({"what": what, "input": inp, "op": "spec", "finding": finding})
            continue
        for nm, im, mm in (("info", r["info"], model[3 * i]), ("match", r["matches"], model[3 * i + 1]),
                           ("parse", r["nodes"], model[3 * i + 2])):
            if mm is not None and im != mm:
                out.disagreements.append({"op": "pm." + nm, "input": inp, "impl": im, "model": mm})
                break
        out.count(cls + ".cases")
        for p, g in zip(s["paths"], r["match_raw"]):
            if isinstance(g, dict) and "exc" not in g and g:
                out.nontrivial.add((s["pat"], tuple(map(tuple, s["env"])), p))
            out.count("%s.%s" % (cls, "exc:" + g["exc"] if E.is_exc(g) else ("match" if g is not None else "nomatch")))


def generic_laws(s, r):
    """laws that need no expected value: prefix law, star / double star shape, and no crash
    other than the documented partiality"""
    bad = []
    prefix = r["prefix"]
    for p, g in zip(s["paths"], r["match_raw"]):
        if E.is_exc(g):
            f = E.finding_of_exc(g, s)
            if g["exc"] == "RecursionError" or (g["exc"] == "error" and g.get("msg", "").startswith("redefinition")):
                bad.append(("match(%r) raised %s: %s" % (p, g["exc"], g.get("msg")), f))
            continue
        if g is None:
            continue
        if isinstance(prefix, str) and not p.startswith(prefix):
            bad.append(("matched path %r does not start with prefix %r" % (p, prefix), None))
        for st in r["stars"]:
            if g.get(st) is not None and "/" in g[st]:
                bad.append(("star group %s = %r contains a separator (path %r)" % (st, g[st], p), None))
        for st, sfx in r["dstars"].items():
            if sfx == "/" and g.get(st) not in (None, "") and not g[st].endswith("/"):
                bad.append(("double star group %s = %r is not whole directories (path %r)" % (st, g[st], p), None))
    for what in ("prefix", "str"):
        v = r[what]
        if E.is_exc(v) and v["exc"] == "RecursionError":
            bad.append(("%s raised RecursionError" % what, E.finding_of_exc(v, s)))
    return bad


# ------------------------------------------------------------------ android
def run_android(ctx, out):
    locs = CURATED_LOCALES + shipped_locales()
    seen = set()
    locs = [l for l in locs if not (l in seen or seen.add(l))]
    limits = ["cin", "en-US-x-foo", "sid", "the"]      # outside the stated list; reported, not judged
    res = pool.pmap("impl.matcher", "impl_android", [[l] for l in locs + limits], timeout=5.0)
    model = C.run_driver_parallel(["pm.android " + C.enc(l) for l in locs + limits]) if ctx.model_ok else [None] * len(res)
    for l, r, mo in zip(locs + limits, res, model):
        out.evaluations += 1
        inp = {"locale": l, "class": "android"}
        if "r" not in r:
            out.violations.append({"what": "android conversion of %r raised %s" % (l, r.get("exc")), "input": inp, "op": "android"})
            continue
        r = r["r"]
        if l in limits:
            out.count("android.limit.%s" % ("roundtrip" if r["back"] == l else "no-roundtrip"))
        else:
            exp = G.ref_android(l)
            if r["android"] != exp:
                out.violations.append({"what": "Android form of %r is %r, expected %r" % (l, r["android"], exp), "input": inp, "op": "android"})
                continue
            if r["back"] != l:
                # root cause on the input: the b+ form contains a further "b+" (a subtag ending in "b")
                f = None   # the inner-"b+" stripping defect is fixed in /repo (21e8ed0); a failing round trip is a plain violation
                out.violations.append({"what": "%r -> %r -> %r: not the same locale" % (l, r["android"], r["back"]), "input": inp,
                                       "op": "android", "finding": f})
                continue
            out.nontrivial.add(("android", l))
            out.count("android.cases")
        if mo is not None and mo != r["canon"]:
            out.disagreements.append({"op": "pm.android", "input": inp, "impl": r["canon"], "model": mo})
    if len(out.samples) < 12:
        out.samples.append({"class": "android", "he-IL": G.ref_android("he-IL"), "sr-Latn": G.ref_android("sr-Latn")})



# ------------------------------------------------------------------ the class of the general Android lemma
def android_ok(parts):
    """the hypotheses of C12.android_roundtrip_general (C12A.AndroidOK), stated on the subtags"""
    import re as _r
    if not parts or any(("-" in p or "+" in p) for p in parts):
        return "chars"
    if any(p.endswith(("iw", "in", "ji")) for p in parts):
        return "legacy-end"
    if any(_r.match(r"r[A-Z]{2}", p) for p in parts[1:]):
        return "r-qualifier"
    if _r.match(r"[a-z]{2,3}-[A-Z]{2}", "-".join(parts)) and len(parts) != 2:
        return "region-with-more"
    return None


def gen_subtags(rng):
    import string
    low, up, dig = string.ascii_lowercase, string.ascii_uppercase, string.digits

    def word(alpha, lo, hi):
        return "".join(rng.choice(alpha) for _ in range(rng.randrange(lo, hi + 1)))
    parts = [rng.choice([word(low, 2, 3), word(low, 2, 3), word(low, 4, 8), rng.choice(["he", "id", "yi", "iw", "cin", "bin", "shi"])])]
    for _ in range(rng.choice([0, 0, 1, 1, 2, 3])):
        r = rng.random()
        if r < 0.25:
            parts.append(rng.choice(up) + word(low, 3, 3))          # Script
        elif r < 0.5:
            parts.append(word(up, 2, 2))                            # REGION
        elif r < 0.6:
            parts.append(word(dig, 3, 3))
        elif r < 0.8:
            parts.append(word(low + dig, 5, 8))                     # variant
        elif r < 0.9:
            parts.append(rng.choice(["rDE", "rUS", "pinyin", "x", "he", "Rid", "r1A", "rAb"]))
        else:
            parts.append(word(low + up + dig, 1, 6))
    return parts


def run_android_general(ctx, out, rng):
    cases, seen = [], set()
    for _ in range(ctx.n(1500, 15000)):
        parts = gen_subtags(rng)
        loc = "-".join(parts)
        if loc not in seen:
            seen.add(loc)
            cases.append((parts, loc, android_ok(parts)))
    res = pool.pmap("impl.matcher", "impl_android", [[loc] for _, loc, _ in cases], timeout=5.0)
    model = C.run_driver_parallel(["pm.android " + C.enc(loc) for _, loc, _ in cases]) if ctx.model_ok else [None] * len(cases)
    for (parts, loc, why), r, mo in zip(cases, res, model):
        out.evaluations += 1
        inp = {"locale": loc, "subtags": parts, "class": "android.general" if why is None else "android.outside." + why}
        if "r" not in r:
            out.violations.append({"what": "android conversion of %r raised %s" % (loc, r.get("exc")), "input": inp, "op": "android"})
            continue
        r = r["r"]
        if why is None and r["back"] != loc:
            out.violations.append({"what": "%r -> %r -> %r: not the same locale (the locale satisfies the hypotheses of the general round-trip lemma)"
                                   % (loc, r["android"], r["back"]), "input": inp, "op": "android", "finding": None})
            continue
        if mo is not None and mo != r["canon"]:
            out.disagreements.append({"op": "pm.android", "input": inp, "impl": r["canon"], "model": mo})
        if why is None:
            out.nontrivial.add(("android.general", loc))
            out.count("android.general." + ("plain" if len(parts) == 1 else "region" if "-r" in (r["android"] or "") else "bplus"))
        else:
            out.count("android.outside.%s.%s" % (why, "roundtrip" if r["back"] == loc else "no-roundtrip"))

# ------------------------------------------------------------------ mozpath.match
MOZ_SEGS = ["foo", "b.r", "*", "f*", "*.x", "a*b", "**", "q+"]


def moz_tokens(segs):
    toks = []

    def lit(t):
        if toks and toks[-1][0] == "L":
            toks[-1] = ("L", toks[-1][1] + t)
        else:
            toks.append(("L", t))
    n = len(segs)
    for i, sg in enumerate(segs):
        if sg == "**":
            if i + 1 < n:
                toks.append(("D", "/"))
            else:
                # `/**` at the end (or a bare `**`): anything below; with the ancestor rule this adds nothing
                if toks and toks[-1][0] == "L" and toks[-1][1].endswith("/"):
                    toks[-1] = ("L", toks[-1][1][:-1])
                    if toks[-1][1] == "":
                        toks.pop()
                toks.append(("END",))
            continue
        parts = sg.split("*")
        for j, p in enumerate(parts):
            if j:
                toks.append(("S",))
            if p:
                lit(p)
        if i + 1 < n:
            lit("/")
    return toks


def moz_ref(path, segs):
    """mozpath.match as documented: the pattern matches the path or one of its ancestor directories;
    `*` stays inside one path part, `**` stands for zero or more directories"""
    toks = moz_tokens(segs)
    bare = False
    if toks and toks[-1] == ("END",):
        toks = toks[:-1]
        bare = not toks
    if bare:
        return True
    cands = [path] + [path[:i] for i, c in enumerate(path) if c == "/"]
    return any(G.ref_match(toks, c) for c in cands)


def run_moz(ctx, out, rng):
    maxlen = 3
    pats = [list(sg) for n in range(1, maxlen + 1) for sg in itertools.product(MOZ_SEGS, repeat=n)]
    if ctx.tier == "quick":
        pats = [p for p in pats if len(p) <= 2] + rng.sample([p for p in pats if len(p) == 3], 150)
    jobs = []
    for segs in pats:
        if any(a == "**" and b == "**" for a, b in zip(segs, segs[1:])):
            continue
        pat = "/".join(segs)
        paths = set()
        for _ in range(4):
            parts = []
            for sg in segs:
                if sg == "**":
                    k = rng.choice([0, 1, 2])
                    parts.extend(rng.choice(["d", "foo", "e.x"]) for _ in range(k))
                else:
                    parts.append(sg.replace("*", rng.choice(["", "m", "ab", "f.x"])))
            p = "/".join(parts)
            paths.add(p)
            if parts:
                paths.add("/".join(parts[:-1]))
                paths.add(p + "/below/it")
                paths.add(p + "x")
                paths.add("zz/" + p)
                paths.add(p.replace("m", "m/n", 1))
        paths = sorted(x for x in paths if x and "//" not in x and not x.startswith("/"))
        jobs.append((segs, pat, paths))
    jobs.append(([], "", ["anything"]))
    res = pool.pmap("impl.matcher", "impl_moz", [[pat, paths] for _, pat, paths in jobs], timeout=5.0)
    model = C.run_driver_parallel(["moz.match " + C.enc(pat) + G.paths_arg(paths) for _, pat, paths in jobs]) if ctx.model_ok \
        else [None] * len(jobs)
    for (segs, pat, paths), r, mo in zip(jobs, res, model):
        out.evaluations += 1
        inp = {"pattern": pat, "paths": paths, "class": "mozpath"}
        if "r" not in r:
            out.violations.append({"what": "mozpath.match raised %s" % r.get("exc"), "input": inp, "op": "moz"})
            continue
        r = r["r"]
        bad = False
        for p, got in zip(paths, r["res"]):
            exp = True if not pat else moz_ref(p, segs)
            if got != ("1" if exp else "0"):
                out.violations.append({"what": "mozpath.match(%r, %r) = %s, expected %s" % (p, pat, got, exp), "input": inp, "op": "moz"})
                bad = True
                break
        if bad:
            continue
        if mo is not None and mo != r["canon"]:
            out.disagreements.append({"op": "moz.match", "input": inp, "impl": r["canon"], "model": mo})
        if "1" in r["res"] and "0" in r["res"]:
            out.nontrivial.add(("moz", pat))
        out.count("moz.cases")



# ------------------------------------------------------------------ round 4: the pure mozpath helpers
import os as _os
import posixpath as _pp

from impl import mozgen as MG


def _mp_jobs(ctx, rng):
    """(function, args, cwd) triples over odd paths: empty, '.', '..', doubled slashes, trailing slash, absolute/relative"""
    quick = ctx.tier == "quick"
    odd = MG.odd_paths(2 if quick else 3)
    rnd = [MG.rand_path(rng) for _ in range(ctx.n(600, 6000))]
    paths = odd + rnd
    jobs = []
    for p in paths:
        for fn in ("normsep", "normpath", "dirname", "basename", "splitext", "split"):
            jobs.append((fn, [p], None))
    for p in rng.sample(odd, min(len(odd), ctx.n(150, 800))):
        # realpath of names that do not exist under "/" (no symbolic link can be involved): the absolute normal form
        if not p.startswith("//"):            # realpath folds a leading "//" (abspath keeps exactly two slashes)
            jobs.append(("realpath", [p], "/"))
    pool_small = MG.odd_paths(1) + ["a/b", "/x/y", "c/", "..", "a//b"]
    for _ in range(ctx.n(1500, 12000)):
        k = rng.choice([0, 1, 2, 2, 3, 3, 4])
        jobs.append(("join", [rng.choice(pool_small) if rng.random() < 0.7 else MG.rand_path(rng, 3) for _ in range(k)], None))
    for _ in range(ctx.n(1500, 12000)):
        cwd = rng.choice(MG.CWDS)
        r = rng.random()
        if r < 0.45:
            p, st = MG.rand_path(rng, 4), MG.rand_path(rng, 4)
        elif r < 0.75:
            # the instance of the theorem: relpath(join(base, q), base) for a relative q that does not climb out
            st = rng.choice(["/r", "/r/x/y", "rel/dir", "", ".", "/", "/tmp/../r"])
            q = MG.clean_rel(rng)
            p = _pp.join(st, q) if st else q
            jobs.append(("relpath.law", [p, st, q], cwd))
            continue
        else:
            p, st = rng.choice(paths), rng.choice(["", ".", "..", "/", "a", "/tmp", "a/b/.."])
        jobs.append(("relpath", [p, st], cwd))
        if rng.random() < 0.3:
            jobs.append(("abspath", [p], cwd))
    for _ in range(ctx.n(1200, 10000)):
        k = rng.choice([0, 1, 2, 2, 3, 4])
        stem = MG.rand_path(rng, 3)
        ps = [stem[:rng.randrange(len(stem) + 1)] + rng.choice(["", "x", "a/b", "/", "é"]) if rng.random() < 0.7 else MG.rand_path(rng, 3)
              for _ in range(k)]
        jobs.append(("commonprefix", ps, None))
    for _ in range(ctx.n(1500, 12000)):
        path = rng.choice(["foo/bar/baz", "/a/b/c", "a", "", "foo/ba", "x/y/", "/", "//a/b"]) if rng.random() < 0.6 else MG.rand_path(rng, 4)
        cands = [""] + [path[:i] for i, c in enumerate(path) if c == "/"] + [path, path + "x", path[:-1], "baz", "foo/ba", "b", "/a", "foo/bar/bazz"]
        bases = [rng.choice(cands) for _ in range(rng.choice([0, 1, 2, 3, 4, 5]))]
        jobs.append(("basedir", [path] + bases, None))
    for _ in range(ctx.n(1200, 10000)):
        cwd = rng.choice(MG.CWDS)
        top = rng.choice(["/r", "/r/x", "rel", "", "/", "a/b", "/r/./x"])
        sub = rng.choice(["y", "y/z", "a.b", "é/q"])
        deep = (top + "/" + sub) if top not in ("", "/") else top + sub
        r = rng.random()
        if r < 0.4:
            old, base = top, deep
        elif r < 0.8:
            old, base = deep, top
        elif r < 0.9:
            old, base = top, top
        else:
            old, base = rng.choice(["/r", "/q/x", "rel"]), rng.choice(["/s", "/q/y", "other"])     # not nested
        rel = rng.choice(["", "x", "x/", "y/z", "y/", "y", "../u", "./v/", sub, sub + "/f.ftl"]) if rng.random() < 0.7 else MG.clean_rel(rng)
        jobs.append(("rebase", [old, base, rel], cwd))
    return jobs


def run_mozhelpers(ctx, out, rng):
    jobs = _mp_jobs(ctx, rng)
    calls = []
    for fn, args, cwd in jobs:
        if fn == "relpath.law":
            calls.append(["relpath", args[:2], cwd])
        else:
            calls.append([fn, args, cwd])
    res = pool.pmap("impl.matcher", "impl_mozpath", calls, timeout=5.0)
    lines = []
    for fn, args, cwd in calls:
        pre = [cwd] if fn in ("relpath", "abspath", "rebase", "realpath") else []
        lines.append("c12.mp.%s" % ("abspath" if fn == "realpath" else fn) + G.paths_arg(pre + list(args)))
    model = C.run_driver_parallel(lines) if ctx.model_ok else [None] * len(lines)
    for (fn, args, cwd), r, mo in zip(jobs, res, model):
        out.evaluations += 1
        inp = {"fn": fn, "args": args, "cwd": cwd, "class": "mozpath." + fn}
        if "r" not in r:
            out.violations.append({"what": "mozpath.%s%r: adapter failed: %s" % (fn, tuple(args), r.get("exc")), "input": inp, "op": "mp"})
            continue
        got, canon = r["r"]["raw"], r["r"]["canon"]
        bad = mp_oracle(fn, args, cwd, got)
        if bad:
            for w in bad:
                out.violations.append({"what": w, "input": inp, "op": "mp"})
            continue
        if mo is not None and mo != canon:
            out.disagreements.append({"op": "c12.mp." + fn.split(".")[0], "input": inp, "impl": canon, "model": mo})
        out.nontrivial.add(("mp", fn, tuple(args), cwd))
        out.count("mozpath.%s%s" % (fn, ".raises" if E.is_exc(got) else ""))
    if len(out.samples) < 12:
        out.samples.append({"class": "mozpath", "normpath('a//./b/../c/')": "a/c", "basedir('foo/bar/baz', ['foo','baz','foo/bar'])": "foo/bar"})


def mp_oracle(fn, args, cwd, got):
    """what the docstrings of mozpath.py (and of the posixpath functions they wrap) promise, checked on the RESULT"""
    exc = got.get("exc") if isinstance(got, dict) else None
    if fn == "normsep":
        return [] if got == args[0] else ["normsep(%r) = %r on a POSIX system" % (args[0], got)]
    if fn == "normpath":
        return MG.check_normpath(args[0], got)
    if fn == "join":
        return MG.check_join(args, got)
    if fn == "split":
        return MG.check_split(args[0], got) if exc is None else ["split raised %s" % exc]
    if fn in ("dirname", "basename"):
        p = args[0]
        b = p[p.rfind("/") + 1:]
        head = p[:len(p) - len(b)]
        exp = b if fn == "basename" else (head if head == "/" * len(head) else head.rstrip("/"))
        return [] if got == exp else ["%s(%r) = %r, expected %r" % (fn, p, got, exp)]
    if fn == "splitext":
        return MG.check_splitext(args[0], got[0], got[1]) if exc is None else ["splitext raised %s" % exc]
    if fn == "commonprefix":
        return MG.check_commonprefix(args, got)
    if fn == "basedir":
        return MG.check_basedir(args[0], args[1:], got)
    if fn in ("abspath", "realpath"):
        exp = _pp.normpath(_pp.join(cwd, args[0]))
        return [] if got == exp else ["abspath(%r) under %r = %r, expected %r" % (args[0], cwd, got, exp)]
    if fn in ("relpath", "relpath.law"):
        p, st = args[0], args[1]
        if p == "":
            return [] if exc == "ValueError" else ["relpath('', %r) = %r, expected ValueError" % (st, got)]
        if exc is not None:
            return ["relpath(%r, %r) raised %s" % (p, st, exc)]
        bad = []
        if got == ".":
            bad.append("relpath(%r, %r) = '.', the same directory must be reported as ''" % (p, st))
        a_st, a_p = _pp.normpath(_pp.join(cwd, st)), _pp.normpath(_pp.join(cwd, p))
        back = _pp.normpath(_pp.join(a_st, got))
        if back != a_p and not (a_p.startswith("//") or a_st.startswith("//")):
            bad.append("relpath(%r, %r) under %r = %r: start joined with it is %r, not the path %r" % (p, st, cwd, got, back, a_p))
        if fn == "relpath.law":
            q = args[2]
            nq = MG.ref_normpath(q)
            exp = "" if nq == "." else nq
            if got != exp:
                bad.append("relpath(join(%r, %r), %r) = %r, expected the normal form %r of the relative part" % (st, q, st, got, exp))
        return bad
    if fn == "rebase":
        old, base, rel = args

        def contains(outer, inner):
            return outer == inner or outer == "" or inner.startswith(outer + "/")
        if old == base:
            return [] if got == rel else ["rebase(%r, %r, %r) = %r, expected the path unchanged" % (old, base, rel, got)]
        shorter = len(base) < len(old)
        nested = contains(base, old) if shorter else contains(old, base)
        if not nested:
            return [] if exc == "AssertionError" else ["rebase(%r, %r, %r) = %r for bases that are not nested" % (old, base, rel, got)]
        if exc is not None:
            if exc == "ValueError" and rel == "" and not shorter:
                return []
            return ["rebase(%r, %r, %r) raised %s" % (old, base, rel, exc)]
        bad = []
        a_old, a_base = _pp.normpath(_pp.join(cwd, old)), _pp.normpath(_pp.join(cwd, base))
        want = _pp.normpath(_pp.join(a_old, rel))
        have = _pp.normpath(_pp.join(a_base, got))
        climbs = MG.ref_normpath(rel).startswith("..") or rel.startswith("/")
        if climbs:
            return bad      # a path that leaves its base: the result depends on the working directory (relpath), nothing is demanded
        if want != have and not (a_old.startswith("//") or a_base.startswith("//")):
            bad.append("rebase(%r, %r, %r) = %r names %r under the new base, the original is %r" % (old, base, rel, got, have, want))
        if rel.endswith("/") != got.endswith("/") and rel != "":
            bad.append("rebase(%r, %r, %r) = %r: the trailing slash is not kept" % (old, base, rel, got))
        return bad
    return ["unknown function %s" % fn]


# excluded points of the hypotheses of C12.expand_match_star_partial (separator / value shapes): the real code is
# run there and compared with the model (the Lean witnesses star_separator_witness, wildcard_value_witness are decided
# on the model); the generic laws still apply, nothing else is demanded (two stars in one segment are outside the grammar)
SEPARATOR_PROBES = [
    {"pat": "*.*", "env": [], "root": None, "with": None, "paths": ["a.b.c", "a.b", ".", "a/b.c"]},
    {"pat": "*-*.ftl", "env": [], "root": None, "with": None, "paths": ["a-b-c.ftl", "-.ftl", "a-b.ftl.ftl"]},
    {"pat": "*.x", "env": [], "root": None, "with": None, "paths": ["a/b.x", "a.x.x", ".x"]},
    {"pat": "a/**/x", "env": [], "root": None, "with": None, "paths": ["a//x", "a/bx", "a/b\nc/x", "a/b/x", "a/x"]},
    {"pat": "a/**", "env": [], "root": None, "with": None, "paths": ["a/b\nc", "a/b/c", "a/"]},
    {"pat": "a/**/x/*.f", "env": [], "root": None, "with": None, "paths": ["a/x/x/q.f", "a/x/q.f", "a/y/x/x/q.f"]},
    {"pat": "l/{locale}/**/*.ftl", "env": [("locale", "de")], "root": None, "with": None,
     "paths": ["l/de/a/b/c.d.ftl", "l/de/c.d.ftl", "l/de/a/.ftl", "l/fr/a/b/c.ftl"]},
]


def run(ctx):
    out = Outcome()
    out.rule = ("single matchers from the C11 grammar (bounded-exhaustive up to 2/3 segments + seeded random, roots, with_env, nested "
                "variables, `**.ftl`-style adjacent stars, roots with regex metacharacters incl. paths just outside the root; sequences: use, "
                "with_env, use again) with the path obtained by filling the wildcards and ~9 mutated paths each (extra directory, separator in a "
                "star, truncated, extended, trailing newline, changed character) judged by an independent glob reference; environments "
                "with self/mutual references and the locale/android_locale cycle; random pattern strings (generic laws); Android "
                "conversion over a curated list + all shipped locales; mozpath.match over all patterns of <= 3 segments from 8 forms. "
                "non-trivial = successful match with groups / locale converted / mozpath pattern with both verdicts; distinct inputs")
    rng = ctx.rng("c12")
    sides = E.enum_sides(2 if ctx.tier == "quick" else 3)
    triples = []
    for idx, (sig, sd) in enumerate(sides):
        allf = E.fill_options(sig)
        for fl in (allf if len(allf) <= 9 else rng.sample(allf, 9)):
            a = E.clone(sd)
            a.env = dict(E.ENUM_ENVS[idx % 2])
            if idx % 5 == 0 and not G.first_is_wildcard(a):
                a.root = G.ROOTS[idx % len(G.ROOTS)]
            triples.append((a, a, dict(enumerate(fl))))
    out.count("enum.singles", len(triples))
    E.run_pairs(ctx, out, triples, "enum", want_sub=False, want_neg=True, rng=rng)
    rnd = []
    for _ in range(ctx.n(12000, 120000)):
        a, b, fills = G.gen_pair(rng)
        rnd.append((a, a, fills))
    E.run_pairs(ctx, out, rnd, "random", want_sub=False, want_neg=True, rng=rng)
    E.run_sequences(ctx, out, ctx.n(1500, 15000), ctx.rng("c12", "seq"))
    pr = [p for p in E.probe_cases(rng, ctx.n(300, 2000))]
    for cls in sorted({p[0] for p in pr}):
        E.run_pairs(ctx, out, [(p[1], p[1], p[3]) for p in pr if p[0] == cls], cls, want_sub=False, want_neg=True, rng=rng)
    sp = env_special(rng, ctx.n(1500, 8000))
    for kind in sorted({k for k, _ in sp}):
        run_specs(ctx, out, [s for k, s in sp if k == kind], "env." + kind, generic_laws)
    run_specs(ctx, out, [G.gen_wild(rng) for _ in range(ctx.n(15000, 150000))], "wild", generic_laws)
    run_specs(ctx, out, [dict(s) for s in SEPARATOR_PROBES], "probe.separator", generic_laws)
    run_android(ctx, out)
    run_android_general(ctx, out, ctx.rng("c12", "android-general"))
    run_moz(ctx, out, ctx.rng("c12", "moz"))
    run_mozhelpers(ctx, out, ctx.rng("c12", "mp"))
    E.run_round4(ctx, out, ctx.rng("c12", "r4"))
    E.run_history(ctx, out, ctx.n(900, 9000), ctx.rng("c12", "history"))
    return out


def replay(payload):
    res = []
    for v in payload.get("violations", []):
        i = v["input"]
        if v.get("op") == "pair":
            res.extend(E.replay({"violations": [v]})["cases"])
        elif v.get("op") == "sequence":
            res.append(E.replay_sequence(i))
        elif v.get("op") == "derive":
            res.append(E.replay_derive(i))
        elif v.get("op") == "history":
            res.append(E.replay_history(i))
        elif v.get("op") == "spec":
            r = pool.pmap("impl.matcher", "impl_matcher", [[{k: i[k] for k in ("pat", "env", "root", "with", "paths")}]], timeout=10.0)[0]
            bad = generic_laws(i, r["r"]) if "r" in r else [("crash", None)]
            res.append({"input": i, "result": r.get("r", r), "violates": bool(bad), "laws": bad})
        elif v.get("op") == "android":
            r = pool.pmap("impl.matcher", "impl_android", [[i["locale"]]], timeout=10.0)[0]
            ok = "r" in r and r["r"]["android"] == G.ref_android(i["locale"]) and r["r"]["back"] == i["locale"]
            res.append({"input": i, "result": r, "violates": not ok})
        elif v.get("op") == "moz":
            r = pool.pmap("impl.matcher", "impl_moz", [[i["pattern"], i["paths"]]], timeout=10.0)[0]
            segs = i["pattern"].split("/") if i["pattern"] else []
            ok = "r" in r and all(g == ("1" if (not i["pattern"] or moz_ref(p, segs)) else "0") for p, g in zip(i["paths"], r["r"]["res"]))
            res.append({"input": i, "result": r, "violates": not ok})
    return {"violates": any(r.get("violates") for r in res), "cases": res}

"""C12 — Pattern expansion, matching and prefix are mutually consistent."""
import itertools

from lib import common as C
from lib import pool
from lib.runner import Outcome
from impl import pathgen as G
from props import c11 as E

ID = "C12"
LEAN_TARGETS = ["CLModel.Props.C12"]
M = "CLModel.Props.C12"
THEOREMS = [
    (M, "C12.star_no_slash", "a single star never matches across '/': the reported group of a top-level `*` contains no separator (all patterns, envs, paths)"),
    (M, "C12.starstar_whole_dirs", "a `**/` group is None or a non-empty text ending in '/': zero or more whole directories"),
    (M, "C12.only_complete_paths", "nothing but complete paths match: after a successful match the regex has consumed the whole path (all patterns, envs, paths)"),
    (M, "C12.match_has_prefix", "every path matched by ANY Matcher(pattern, env, root) starts with matcher.prefix (nested/self-referential variables, repeated variables, Android locale, roots), whenever both return"),
    (M, "C12.match_has_prefix_with_env", "the same after matcher.with_env(environ)"),
    (M, "C12.match_has_prefix_of_shape", "the same for any Matcher value of the parser's shape (unrooted env patterns, repeated variables have a first occurrence)"),
    (M, "C12.matches_own_expansion_partial", "a fully bound, wildcard-free pattern whose regex compiles matches its own expansion (engine run through the literal-like regex)"),
    (M, "C12.expand_match_star_partial", "expand -> match WITH wildcards (completeness + uniqueness of the backtracking matcher): for a matcher whose top-level nodes are literals, `*`, `**/` (or a final `**`) and first occurrences of fully bound variables (values may use further variables, {l} = '{l10n_base}/{locale}/'; any root), the path obtained by filling the wildcards with well separated values (no '/' in a star value, the literal after a star does not recur later in the same '/'-free run, `**/` = whole newline-free directories, no second double star) is matched, and the returned dictionary has the regex's group names as keys and maps s<n> to the filled value (`**`: None if empty) and every top-level variable to its expansion"),
    (M, "C12.filled_path_is_expansion_partial", "the filled path is Pattern.expand of the pattern in the environment 'groups returned by match, then the matcher's own environment', so expand_match_star_partial reads: a pattern whose variables and wildcards are bound expands to a path the same matcher matches, returning the bound values"),
    (M, "C12.star_separator_witness", "the separator hypothesis is forced: '*.*' filled with ('a', 'b.c') gives 'a.b.c', which match decomposes as ('a.b', 'c')"),
    (M, "C12.wildcard_value_witness", "forced value shapes: '/' in a star value, a `**/` value that is not whole directories or contains a newline, a newline in a final `**`: not matched"),
    (M, "C12.two_starstar_match_witness", "'one double star with directories' is forced: 'a/x/x/x/q.f' fills 'a/**/x/**/*.f' in several ways, match reports ('x/x/', None, 'q')"),
    (M, "C12.match_returns_bound_values", "... returning the bound variable values: the entry of a bound top-level variable is the expansion of its value"),
    (M, "C12.no_cycle_terminates", "_no_cycle: expansion never nests deeper than 2*len(env)+3 for ANY environment (self/mutual references), unless env['locale'] contains {android_locale}"),
    (M, "C12.matcher_terminates", "hence str(matcher), matcher.prefix and the regex construction terminate"),
    (M, "C12.constructed_matcher_envOK", "the environment shape the theorems assume holds for Matcher(pattern, env, root): parsed unrooted patterns; only 'no repeated variable in a value' remains"),
    (M, "C12.android_roundtrip_shipped", "all 143 shipped locale codes: BCP 47 -> Android -> BCP 47 is the identity (decided on the regenerated tables/regexes)"),
    (M, "C12.android_roundtrip_curated", "same for a curated list: language, language-REGION, script(+region), numeric region, variant, legacy he/id/yi (+region, and in the b+ form)"),
    (M, "C12.android_forms", "he-IL -> iw-rIL, sr-Latn -> b+sr+Latn, id -> in"),
    (M, "C12.android_cycle_witness", "C12-android-locale-cycle-recursion: locale='{android_locale}' does not terminate (negation witness of AndroidSafe)"),
    (M, "C12.trailing_newline_rejected", "Matcher('foo/*.ftl').match('foo/a.ftl\\n') is None, without the newline {'s1': 'a'}"),
    (M, "C12.rooted_wildcard_first_witness", "F11: rooted pattern starting with a wildcard: match raises KeyError, prefix IndexError"),
    (M, "C12.duplicate_group_witness", "F12: '{v}/{locale}' with v='{locale}x': re.error (duplicate group name)"),
    (M, "C12.android_legacy_bplus_roundtrip", "a legacy code in the b+ form comes back: he-Hebr-IL -> b+iw+Hebr+IL -> he-Hebr-IL"),
    (M, "C12.android_limits_witness", "limits outside the locale list: cin -> cid, en-US-x-foo -> en-US"),
]
PARTIAL = [
    "matches_own_expansion_partial excludes patterns in which a variable occurs a second time (back-reference (?P=name)); not a forced "
    "hypothesis, the general case is covered by the correspondence + oracle only (match_has_prefix has no such restriction)",
    "android round trip: decided over the shipped table and a curated list, no general lemma (it would have to exclude the two limit families cin / en-US-x-foo)",
    "mozpath.match: no Lean theorem; model tied by structural regex equality + results, laws checked by an independent glob reference over all patterns of <= 3 segments",
    "expand_match_star_partial / filled_path_is_expansion_partial (expand -> match with wildcards) are proved for the restricted class only: "
    "top-level literals, `*`, one `**/` (anything double-star-free after it) or a final `**`, first occurrences of fully bound variables (nested values "
    "allowed); not proved for repeated variables (back-references), {android_locale}, two double stars (forced: two_starstar_match_witness), unbound (captured) "
    "variables next to wildcards (the star separator hypotheses are forced: star_separator_witness, wildcard_value_witness); outside the class the construction-based oracle checks every generated case",
]
LEVEL_TEXT = ("Lean 4 theorems over an executable transliteration of paths/matcher.py, valid for ALL patterns, environments and paths: star "
              "groups contain no '/', `**/` groups are None or whole directories, a match consumes the whole path, "
              "matched paths start with the prefix, a fully bound pattern matches its own expansion and reports the bound values "
              "(with wildcards: completeness + uniqueness of the backtracking matcher on well separated fillings of the restricted class), "
              "expansion terminates for every environment (cycle cutting) except the locale/android_locale cycle; Android round trip "
              "decided for all shipped + curated locales; model tied to the Python by structural equality of the regex AST and equal "
              "results; independent glob reference + construction-based oracle incl. deliberately non-matching paths")
LEVEL_NOTE = ("see partial; trusted: Lean kernel, hand-written model validated by correspondence, Rx engine = CPython re on the audited subset; "
              "forced hypotheses with negation witnesses: AndroidSafe (locale/android_locale cycle), regex compiles / DistinctGroupNames (F12), FirstNodeOK (F11); "
              "the Matcher-environment shape (parsed unrooted patterns) always holds for Matcher(...)")
TECHNIQUE = E.TECHNIQUE
TRUSTED = E.TRUSTED + [
    "model of mozpath.match in the same file (tied by the moz.match correspondence incl. structural equality of the cached regex)",
]
ASSUMPTIONS = E.ASSUMPTIONS + [
    "paths are normalised (no empty segments, newline only as the deliberately appended last character)",
]

classify = E.classify

CURATED_LOCALES = [
    # language
    "de", "fr", "ast", "en", "kab", "zh", "hsb", "lij", "wo",
    # language-REGION
    "en-US", "en-GB", "pt-BR", "es-MX", "zh-TW", "hi-IN", "bn-BD", "fy-NL", "nb-NO", "ast-ES",
    # script, script+region, numeric region, variant
    "sr-Latn", "sr-Cyrl", "zh-Hant-TW", "zh-Hans-CN", "uz-Latn-UZ", "es-419", "ca-valencia", "sr-Cyrl-RS", "az-Arab",
    # a language subtag ending in "b" in the b+ form (str.replace("b+", "") also hits "kab+")
    "kab-Latn", "hsb-419", "dsb-Latn-DE",
    # legacy codes
    "he", "id", "yi", "he-IL", "id-ID", "yi-US", "id-Latn", "he-Hebr-IL", "id-Latn-ID", "yi-Hebr",
]


def shipped_locales():
    from compare_locales import plurals
    return sorted(plurals.CATEGORIES_BY_LOCALE)


# ------------------------------------------------------------------ environment special cases
def env_special(rng, n):
    """variables defined through other variables, self references, mutual references, the
    locale <-> android_locale cycle; with one candidate path"""
    out = []
    forms = [
        ({"v": "{v}y"}, "self"), ({"v": "x{v}"}, "self"), ({"v": "{w}", "w": "{v}"}, "mutual"),
        ({"v": "{w}-1", "w": "{u}-2", "u": "z"}, "chain"), ({"v": "{w}{w}", "w": "ab"}, "chain"),
        ({"v": "{w}/{u}", "w": "{u}", "u": "q"}, "diamond"),
        ({"locale": "{android_locale}"}, "android-cycle"), ({"locale": "{v}", "v": "{android_locale}"}, "android-cycle"),
        ({"locale": "{locale}-x"}, "self"), ({"v": "{locale}", "locale": "de"}, "chain"),
        ({"v": "{ v }"}, "self"), ({"v": "{w}", "w": "{u}", "u": "{v}"}, "mutual"),
    ]
    pats = ["{v}", "a/{v}/b", "{v}/{w}", "x-{v}.ftl", "{android_locale}/{v}", "l/{locale}/*.ftl", "{w}/{v}/**", "{v}{v}",
            "{android_locale}", "{u}/{v}"]
    for _ in range(n):
        env, kind = rng.choice(forms)
        pat = rng.choice(pats)
        root = rng.choice([None, None, "/r"])
        paths = [pat.replace("{v}", "q").replace("{w}", "ab").replace("{u}", "z").replace("{locale}", "de")
                 .replace("{android_locale}", "de").replace("**", "d/e").replace("*", "f"),
                 rng.choice(["zy", "a/xy/b", "ab-1/ab", "q/q", "z-2-1"])]
        if root:
            paths = [root + "/" + p for p in paths]
        out.append((kind, {"pat": pat, "env": sorted(env.items()), "root": root, "with": None, "paths": paths}))
    return out


def run_specs(ctx, out, specs, cls, law=None):
    """correspondence (+ a law on the implementation's results) for raw matcher specs"""
    res = pool.pmap("impl.matcher", "impl_matcher", [[s] for s in specs], timeout=5.0)
    lines = []
    for s in specs:
        lines.append("pm.info " + G.margs(s))
        lines.append("pm.match " + G.margs(s) + G.paths_arg(s["paths"]))
        lines.append("pm.parse " + C.enc(s["pat"]))
    model = C.run_driver_parallel(lines) if ctx.model_ok else [None] * len(lines)
    for i, (s, r) in enumerate(zip(specs, res)):
        out.evaluations += 1
        inp = dict(s)
        inp["class"] = cls
        if "r" not in r:
            out.violations.append({"what": "matcher: %s %s" % (r.get("exc"), r.get("msg")), "input": inp, "op": "spec",
                                   "finding": E.finding_of_exc(r, s)})
            continue
        r = r["r"]
        bad = law(s, r) if law else []
        if bad:
            for what, finding in bad:
                out.violations.append({"what": what, "input": inp, "op": "spec", "finding": finding})
            continue
        for nm, im, mm in (("info", r["info"], model[3 * i]), ("match", r["matches"], model[3 * i + 1]),
                           ("parse", r["nodes"], model[3 * i + 2])):
            if mm is not None and im != mm:
                out.disagreements.append({"op": "pm." + nm, "input": inp, "impl": im, "model": mm})
                break
        out.count(cls + ".cases")
        for p, g in zip(s["paths"], r["match_raw"]):
            if isinstance(g, dict) and "exc" not in g and g:
                out.nontrivial.add((s["pat"], tuple(map(tuple, s["env"])), p))
            out.count("%s.%s" % (cls, "exc:" + g["exc"] if E.is_exc(g) else ("match" if g is not None else "nomatch")))


def generic_laws(s, r):
    """laws that need no expected value: prefix law, star / double star shape, and no crash
    other than the documented partiality"""
    bad = []
    prefix = r["prefix"]
    for p, g in zip(s["paths"], r["match_raw"]):
        if E.is_exc(g):
            f = E.finding_of_exc(g, s)
            if g["exc"] == "RecursionError" or (g["exc"] == "error" and g.get("msg", "").startswith("redefinition")):
                bad.append(("match(%r) raised %s: %s" % (p, g["exc"], g.get("msg")), f))
            continue
        if g is None:
            continue
        if isinstance(prefix, str) and not p.startswith(prefix):
            bad.append(("matched path %r does not start with prefix %r" % (p, prefix), None))
        for st in r["stars"]:
            if g.get(st) is not None and "/" in g[st]:
                bad.append(("star group %s = %r contains a separator (path %r)" % (st, g[st], p), None))
        for st, sfx in r["dstars"].items():
            if sfx == "/" and g.get(st) not in (None, "") and not g[st].endswith("/"):
                bad.append(("double star group %s = %r is not whole directories (path %r)" % (st, g[st], p), None))
    for what in ("prefix", "str"):
        v = r[what]
        if E.is_exc(v) and v["exc"] == "RecursionError":
            bad.append(("%s raised RecursionError" % what, E.finding_of_exc(v, s)))
    return bad


# ------------------------------------------------------------------ android
def run_android(ctx, out):
    locs = CURATED_LOCALES + shipped_locales()
    seen = set()
    locs = [l for l in locs if not (l in seen or seen.add(l))]
    limits = ["cin", "en-US-x-foo", "sid", "the"]      # outside the stated list; reported, not judged
    res = pool.pmap("impl.matcher", "impl_android", [[l] for l in locs + limits], timeout=5.0)
    model = C.run_driver_parallel(["pm.android " + C.enc(l) for l in locs + limits]) if ctx.model_ok else [None] * len(res)
    for l, r, mo in zip(locs + limits, res, model):
        out.evaluations += 1
        inp = {"locale": l, "class": "android"}
        if "r" not in r:
            out.violations.append({"what": "android conversion of %r raised %s" % (l, r.get("exc")), "input": inp, "op": "android"})
            continue
        r = r["r"]
        if l in limits:
            out.count("android.limit.%s" % ("roundtrip" if r["back"] == l else "no-roundtrip"))
        else:
            exp = G.ref_android(l)
            if r["android"] != exp:
                out.violations.append({"what": "Android form of %r is %r, expected %r" % (l, r["android"], exp), "input": inp, "op": "android"})
                continue
            if r["back"] != l:
                # root cause on the input: the b+ form contains a further "b+" (a subtag ending in "b")
                f = None   # the inner-"b+" stripping defect is fixed in /repo (21e8ed0); a failing round trip is a plain violation
                out.violations.append({"what": "%r -> %r -> %r: not the same locale" % (l, r["android"], r["back"]), "input": inp,
                                       "op": "android", "finding": f})
                continue
            out.nontrivial.add(("android", l))
            out.count("android.cases")
        if mo is not None and mo != r["canon"]:
            out.disagreements.append({"op": "pm.android", "input": inp, "impl": r["canon"], "model": mo})
    if len(out.samples) < 12:
        out.samples.append({"class": "android", "he-IL": G.ref_android("he-IL"), "sr-Latn": G.ref_android("sr-Latn")})


# ------------------------------------------------------------------ mozpath.match
MOZ_SEGS = ["foo", "b.r", "*", "f*", "*.x", "a*b", "**", "q+"]


def moz_tokens(segs):
    toks = []

    def lit(t):
        if toks and toks[-1][0] == "L":
            toks[-1] = ("L", toks[-1][1] + t)
        else:
            toks.append(("L", t))
    n = len(segs)
    for i, sg in enumerate(segs):
        if sg == "**":
            if i + 1 < n:
                toks.append(("D", "/"))
            else:
                # `/**` at the end (or a bare `**`): anything below; with the ancestor rule this adds nothing
                if toks and toks[-1][0] == "L" and toks[-1][1].endswith("/"):
                    toks[-1] = ("L", toks[-1][1][:-1])
                    if toks[-1][1] == "":
                        toks.pop()
                toks.append(("END",))
            continue
        parts = sg.split("*")
        for j, p in enumerate(parts):
            if j:
                toks.append(("S",))
            if p:
                lit(p)
        if i + 1 < n:
            lit("/")
    return toks


def moz_ref(path, segs):
    """mozpath.match as documented: the pattern matches the path or one of its ancestor directories;
    `*` stays inside one path part, `**` stands for zero or more directories"""
    toks = moz_tokens(segs)
    bare = False
    if toks and toks[-1] == ("END",):
        toks = toks[:-1]
        bare = not toks
    if bare:
        return True
    cands = [path] + [path[:i] for i, c in enumerate(path) if c == "/"]
    return any(G.ref_match(toks, c) for c in cands)


def run_moz(ctx, out, rng):
    maxlen = 3
    pats = [list(sg) for n in range(1, maxlen + 1) for sg in itertools.product(MOZ_SEGS, repeat=n)]
    if ctx.tier == "quick":
        pats = [p for p in pats if len(p) <= 2] + rng.sample([p for p in pats if len(p) == 3], 150)
    jobs = []
    for segs in pats:
        if any(a == "**" and b == "**" for a, b in zip(segs, segs[1:])):
            continue
        pat = "/".join(segs)
        paths = set()
        for _ in range(4):
            parts = []
            for sg in segs:
                if sg == "**":
                    k = rng.choice([0, 1, 2])
                    parts.extend(rng.choice(["d", "foo", "e.x"]) for _ in range(k))
                else:
                    parts.append(sg.replace("*", rng.choice(["", "m", "ab", "f.x"])))
            p = "/".join(parts)
            paths.add(p)
            if parts:
                paths.add("/".join(parts[:-1]))
                paths.add(p + "/below/it")
                paths.add(p + "x")
                paths.add("zz/" + p)
                paths.add(p.replace("m", "m/n", 1))
        paths = sorted(x for x in paths if x and "//" not in x and not x.startswith("/"))
        jobs.append((segs, pat, paths))
    jobs.append(([], "", ["anything"]))
    res = pool.pmap("impl.matcher", "impl_moz", [[pat, paths] for _, pat, paths in jobs], timeout=5.0)
    model = C.run_driver_parallel(["moz.match " + C.enc(pat) + G.paths_arg(paths) for _, pat, paths in jobs]) if ctx.model_ok \
        else [None] * len(jobs)
    for (segs, pat, paths), r, mo in zip(jobs, res, model):
        out.evaluations += 1
        inp = {"pattern": pat, "paths": paths, "class": "mozpath"}
        if "r" not in r:
            out.violations.append({"what": "mozpath.match raised %s" % r.get("exc"), "input": inp, "op": "moz"})
            continue
        r = r["r"]
        bad = False
        for p, got in zip(paths, r["res"]):
            exp = True if not pat else moz_ref(p, segs)
            if got != ("1" if exp else "0"):
                out.violations.append({"what": "mozpath.match(%r, %r) = %s, expected %s" % (p, pat, got, exp), "input": inp, "op": "moz"})
                bad = True
                break
        if bad:
            continue
        if mo is not None and mo != r["canon"]:
            out.disagreements.append({"op": "moz.match", "input": inp, "impl": r["canon"], "model": mo})
        if "1" in r["res"] and "0" in r["res"]:
            out.nontrivial.add(("moz", pat))
        out.count("moz.cases")


# excluded points of the hypotheses of C12.expand_match_star_partial (separator / value shapes): the real code is
# run there and compared with the model (the Lean witnesses star_separator_witness, wildcard_value_witness are decided
# on the model); the generic laws still apply, nothing else is demanded (two stars in one segment are outside the grammar)
SEPARATOR_PROBES = [
    {"pat": "*.*", "env": [], "root": None, "with": None, "paths": ["a.b.c", "a.b", ".", "a/b.c"]},
    {"pat": "*-*.ftl", "env": [], "root": None, "with": None, "paths": ["a-b-c.ftl", "-.ftl", "a-b.ftl.ftl"]},
    {"pat": "*.x", "env": [], "root": None, "with": None, "paths": ["a/b.x", "a.x.x", ".x"]},
    {"pat": "a/**/x", "env": [], "root": None, "with": None, "paths": ["a//x", "a/bx", "a/b\nc/x", "a/b/x", "a/x"]},
    {"pat": "a/**", "env": [], "root": None, "with": None, "paths": ["a/b\nc", "a/b/c", "a/"]},
    {"pat": "a/**/x/*.f", "env": [], "root": None, "with": None, "paths": ["a/x/x/q.f", "a/x/q.f", "a/y/x/x/q.f"]},
    {"pat": "l/{locale}/**/*.ftl", "env": [("locale", "de")], "root": None, "with": None,
     "paths": ["l/de/a/b/c.d.ftl", "l/de/c.d.ftl", "l/de/a/.ftl", "l/fr/a/b/c.ftl"]},
]


def run(ctx):
    out = Outcome()
    out.rule = ("single matchers from the C11 grammar (bounded-exhaustive up to 2/3 segments + seeded random, roots, with_env, nested "
                "variables, `**.ftl`-style adjacent stars, roots with regex metacharacters incl. paths just outside the root; sequences: use, "
                "with_env, use again) with the path obtained by filling the wildcards and ~9 mutated paths each (extra directory, separator in a "
                "star, truncated, extended, trailing newline, changed character) judged by an independent glob reference; environments "
                "with self/mutual references and the locale/android_locale cycle; random pattern strings (generic laws); Android "
                "conversion over a curated list + all shipped locales; mozpath.match over all patterns of <= 3 segments from 8 forms. "
                "non-trivial = successful match with groups / locale converted / mozpath pattern with both verdicts; distinct inputs")
    rng = ctx.rng("c12")
    sides = E.enum_sides(2 if ctx.tier == "quick" else 3)
    triples = []
    for idx, (sig, sd) in enumerate(sides):
        allf = E.fill_options(sig)
        for fl in (allf if len(allf) <= 9 else rng.sample(allf, 9)):
            a = E.clone(sd)
            a.env = dict(E.ENUM_ENVS[idx % 2])
            if idx % 5 == 0 and not G.first_is_wildcard(a):
                a.root = G.ROOTS[idx % len(G.ROOTS)]
            triples.append((a, a, dict(enumerate(fl))))
    out.count("enum.singles", len(triples))
    E.run_pairs(ctx, out, triples, "enum", want_sub=False, want_neg=True, rng=rng)
    rnd = []
    for _ in range(ctx.n(12000, 120000)):
        a, b, fills = G.gen_pair(rng)
        rnd.append((a, a, fills))
    E.run_pairs(ctx, out, rnd, "random", want_sub=False, want_neg=True, rng=rng)
    E.run_sequences(ctx, out, ctx.n(1500, 15000), ctx.rng("c12", "seq"))
    pr = [p for p in E.probe_cases(rng, ctx.n(300, 2000))]
    for cls in sorted({p[0] for p in pr}):
        E.run_pairs(ctx, out, [(p[1], p[1], p[3]) for p in pr if p[0] == cls], cls, want_sub=False, want_neg=True, rng=rng)
    sp = env_special(rng, ctx.n(1500, 8000))
    for kind in sorted({k for k, _ in sp}):
        run_specs(ctx, out, [s for k, s in sp if k == kind], "env." + kind, generic_laws)
    run_specs(ctx, out, [G.gen_wild(rng) for _ in range(ctx.n(15000, 150000))], "wild", generic_laws)
    run_specs(ctx, out, [dict(s) for s in SEPARATOR_PROBES], "probe.separator", generic_laws)
    run_android(ctx, out)
    run_moz(ctx, out, ctx.rng("c12", "moz"))
    return out


def replay(payload):
    res = []
    for v in payload.get("violations", []):
        i = v["input"]
        if v.get("op") == "pair":
            res.extend(E.replay({"violations": [v]})["cases"])
        elif v.get("op") == "sequence":
            res.append(E.replay_sequence(i))
        elif v.get("op") == "spec":
            r = pool.pmap("impl.matcher", "impl_matcher", [[{k: i[k] for k in ("pat", "env", "root", "with", "paths")}]], timeout=10.0)[0]
            bad = generic_laws(i, r["r"]) if "r" in r else [("crash", None)]
            res.append({"input": i, "result": r.get("r", r), "violates": bool(bad), "laws": bad})
        elif v.get("op") == "android":
            r = pool.pmap("impl.matcher", "impl_android", [[i["locale"]]], timeout=10.0)[0]
            ok = "r" in r and r["r"]["android"] == G.ref_android(i["locale"]) and r["r"]["back"] == i["locale"]
            res.append({"input": i, "result": r, "violates": not ok})
        elif v.get("op") == "moz":
            r = pool.pmap("impl.matcher", "impl_moz", [[i["pattern"], i["paths"]]], timeout=10.0)[0]
            segs = i["pattern"].split("/") if i["pattern"] else []
            ok = "r" in r and all(g == ("1" if (not i["pattern"] or moz_ref(p, segs)) else "0") for p, g in zip(i["paths"], r["r"]["res"]))
            res.append({"input": i, "result": r, "violates": not ok})
    return {"violates": any(r.get("violates") for r in res), "cases": res}

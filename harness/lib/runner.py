"""Decision procedure of one check (DESIGN.md section 2.8).

A property module (harness/props/cNN.py) provides
  ID            "C20"
  LEAN_TARGETS  lake module targets whose build re-checks the theorems
  THEOREMS      [(lean module, fully qualified theorem name, one-line meaning)]
  PARTIAL       [str]   theorems proving less than the property, gap in words
  TRUSTED       [str]   trusted base specific to the property
  ASSUMPTIONS   [str]
  run(ctx)      correspondence + oracle; returns Outcome
  classify(v)   optional: maps a violation dict to a known-finding id or None
  replay(payload) optional
"""
import json
import os
import sys
import time
import traceback

from . import common as C


class Ctx:
    def __init__(self, tier, seed, scale=1, model_ok=True):
        self.tier = tier
        self.seed = seed
        self.scale = scale          # budget multiplier (escalated search uses 10)
        self.model_ok = model_ok    # False when the Lean driver could not be built
        self.deadline = None

    def n(self, quick, thorough):
        return int((quick if self.tier == "quick" else thorough) * self.scale)

    def rng(self, *tags):
        return C.rng_for(self.seed, *tags)


class Outcome:
    """what a property's run() reports"""

    def __init__(self):
        self.evaluations = 0
        self.nontrivial = set()      # distinct canonical non-trivial outcomes (hashable)
        self.rule = ""
        self.samples = []
        self.distribution = {}
        self.disagreements = []      # model != implementation, property oracle did not fail
        self.violations = []         # implementation violates the property: dicts with 'what','input'
        self.contracts = {}
        self.notes = []

    def count(self, key, k=1):
        self.distribution[key] = self.distribution.get(key, 0) + k

    def merge(self, other):
        self.evaluations += other.evaluations
        self.nontrivial |= other.nontrivial
        self.samples += other.samples
        for k, v in other.distribution.items():
            self.count(k, v)
        self.disagreements += other.disagreements
        self.violations += other.violations
        self.contracts.update(other.contracts)
        self.notes += other.notes


def prove(prop, log):
    """translate + build + audit.  Returns dict(ok, driver_ok, failed, axioms, obligations, discharged)."""
    res = {"ok": True, "driver_ok": True, "failed": [], "axioms": {}, "obligations": len(prop.THEOREMS),
           "discharged": 0, "translate": None}
    with C.BuildLock():
        ok, info = C.translate()
        res["translate"] = info
        if not ok:
            res["ok"] = False
            res["failed"].append("translator: %s" % info.get("error", "failed"))
        b = C.lake_build(["cldriver"])
        if not b.ok:
            res["driver_ok"] = False
            res["ok"] = False
            res["failed"].append("lake build cldriver: %s" % ";".join(b.failed_modules or ["?"]))
            log.append(b.log[-3000:])
        b = C.lake_build(list(prop.LEAN_TARGETS))
        if not b.ok:
            res["ok"] = False
            res["failed"].append("lake build %s: failed modules %s" % (
                " ".join(prop.LEAN_TARGETS), ";".join(b.failed_modules or ["?"])))
            log.append(b.log[-3000:])
            return res
    if res["driver_ok"]:
        names = C.run_driver(["ops.list"])[0].split()
        dups = sorted({n for n in names if names.count(n) > 1})
        if dups:
            raise RuntimeError("duplicate driver operation names: %s" % dups)
    # forbidden constructs in the sources of the project
    srcs = C.import_closure(list(prop.LEAN_TARGETS) + ["Driver"])
    hits = C.grep_forbidden(srcs)
    if hits:
        res["ok"] = False
        res["failed"].append("forbidden constructs: " + ", ".join(hits[:10]))
    # thorough tier: independent re-check of the compiled modules with leanchecker
    if os.environ.get("VERIF_TIER_EFFECTIVE") == "thorough":
        import subprocess
        mods = [os.path.relpath(f, C.LEAN)[:-5].replace(os.sep, ".") for f in C.import_closure(list(prop.LEAN_TARGETS))]
        try:
            p = subprocess.run(["lake", "env", "leanchecker"] + mods, cwd=C.LEAN, stdout=subprocess.PIPE,
                               stderr=subprocess.STDOUT, timeout=3000)
            res["leanchecker"] = {"modules": len(mods), "rc": p.returncode}
            if p.returncode != 0:
                res["ok"] = False
                res["failed"].append("leanchecker: " + p.stdout.decode(errors="replace")[-400:])
        except Exception as e:
            res["leanchecker"] = {"error": repr(e)}
    # axioms
    by_mod = {}
    for mod, thm, _ in prop.THEOREMS:
        by_mod.setdefault(mod, []).append(thm)
    for mod, thms in by_mod.items():
        ax, out = C.audit_axioms(mod, thms)
        for t in thms:
            a = ax.get(t)
            res["axioms"][t] = a
            if a is None:
                res["ok"] = False
                res["failed"].append("theorem not found: %s" % t)
            elif not set(a) <= C.ALLOWED_AXIOMS:
                res["ok"] = False
                res["failed"].append("axioms of %s: %s" % (t, a))
            else:
                res["discharged"] += 1
    return res


def main(prop, argv):
    import argparse
    ap = argparse.ArgumentParser()
    ap.add_argument("--tier", default=os.environ.get("VERIF_TIER", "quick"), choices=["quick", "thorough"])
    ap.add_argument("--replay")
    args = ap.parse_args(argv)
    seed = C.seed_from_env()
    t0 = time.time()
    if args.replay:
        payload = json.load(open(args.replay if os.path.isabs(args.replay) else os.path.join(C.VERIF, args.replay)))
        r = prop.replay(payload)
        print(json.dumps(r, indent=1, default=str))
        return 1 if r.get("violates") else 0

    log = []
    os.environ["VERIF_TIER_EFFECTIVE"] = args.tier
    try:
        pr = prove(prop, log)
    except Exception:
        print("INFRA: proof step crashed\n" + traceback.format_exc())
        return 2
    known = C.load_known_findings()
    known_ids = {k["id"]: k for k in known.get("known", []) if k.get("property") == prop.ID}

    from . import fingerprints
    try:
        fp_changed = fingerprints.changed_for(prop.ID, getattr(prop, "EXTRA_FILES", ()))
    except Exception:
        fp_changed = []
    # function-level fingerprints (model map): which mapped functions differ from the tree the models were aligned with
    fn_changed = None
    try:
        from . import modelmap
        aff = modelmap.affected(C.REPO) or []
        fn_changed = [a for a in aff if prop.ID in a["properties"]]
        ch = modelmap.changed_functions(C.REPO) or {}
        anchored = set(fingerprints.anchors().get(prop.ID, []))
        mod_level = [f for f in ch.get("module_level", []) if f in anchored]
    except Exception:
        fn_changed, mod_level = None, []
    # anchored source differs from the tree the model was last aligned with: search with a larger budget
    scale = 3 if (fp_changed or fn_changed or mod_level) else 1
    import tempfile
    from . import implcov
    covdir = tempfile.mkdtemp(prefix="implcov-", dir=os.path.join(C.VERIF, "replays") if os.path.isdir(os.path.join(C.VERIF, "replays")) else None)
    os.environ["VERIF_IMPLCOV_DIR"] = covdir
    cov_on = implcov.start()
    try:
        out = prop.run(Ctx(args.tier, seed, scale, pr["driver_ok"]))
    except Exception:
        print("INFRA: correspondence/oracle crashed\n" + traceback.format_exc())
        return 2

    classify = getattr(prop, "classify", lambda v: v.get("finding"))

    def split(vs):
        new, hit = [], {}
        for v in vs:
            fid = classify(v)
            if fid is not None and fid in known_ids:
                hit.setdefault(fid, v)
            else:
                new.append(v)
        return new, hit

    new, hit = split(out.violations)
    broken = []
    if not pr["ok"]:
        broken += pr["failed"]
    if out.disagreements:
        broken.append("correspondence: %d model/implementation disagreements, first: %s" % (
            len(out.disagreements), json.dumps(out.disagreements[0], default=str)[:600]))
    escalated = False
    if broken and not new:
        # a proof obligation or the correspondence no longer checks: search harder for a failing input
        escalated = True
        try:
            out2 = prop.run(Ctx(args.tier, seed + 7919, 10 if args.tier == "quick" else 4, pr["driver_ok"]))
            n2, h2 = split(out2.violations)
            new += n2
            for k, v in h2.items():
                hit.setdefault(k, v)
            out.evaluations += out2.evaluations
            out.nontrivial |= out2.nontrivial
        except Exception:
            log.append(traceback.format_exc())

    rc = 0
    lines = []
    for fid, v in sorted(hit.items()):
        lines.append("KNOWN-FINDING: property=%s %s: %s" % (prop.ID, fid, known_ids[fid].get("what", "")))
    if new:
        payload = {"property": prop.ID, "kind": "failing-input", "seed": seed, "tier": args.tier,
                   "violations": new[:20], "broken": broken}
        path = C.write_replay(prop.ID, seed, 0, payload)
        lines.append("VIOLATION property=%s replay=%s" % (prop.ID, path))
        rc = 1
    elif broken:
        payload = {"property": prop.ID, "kind": "no-failing-input-found", "seed": seed, "tier": args.tier,
                   "no_longer_checks": broken, "disagreements": out.disagreements[:20],
                   "build_log_tail": log[-1][-2000:] if log else "", "escalated_search": escalated}
        path = C.write_replay(prop.ID, seed, 1, payload)
        lines.append("VIOLATION property=%s replay=%s no-failing-input-found" % (prop.ID, path))
        rc = 1

    nontrivial = len(out.nontrivial)
    coverage = {
        "obligations": pr["obligations"], "discharged": pr["discharged"],
        "checker_cmd": "cd lean && lake build %s cldriver && lake env lean <#print axioms of every theorem>%s" % (
            " ".join(prop.LEAN_TARGETS), " && lake env leanchecker <import closure>" if args.tier == "thorough" else ""),
        "trusted_base": list(getattr(prop, "TRUSTED", [])) + [
            "Lean 4.33 kernel; axioms allowed: propext, Classical.choice, Quot.sound",
            "harness/translate.py (regex/table translator), validated by the rx.* correspondence",
            "Rx semantics = CPython re on the audited subset (validated differentially, not proved)"],
        "theorems": [{"name": t, "module": m, "meaning": d, "axioms": pr["axioms"].get(t)} for m, t, d in prop.THEOREMS],
        "partial": list(getattr(prop, "PARTIAL", [])),
        "evaluations": out.evaluations, "distinct_nontrivial": nontrivial,
        "rule": out.rule, "samples": out.samples[:12], "distribution": out.distribution,
        "contracts": out.contracts, "translate": pr["translate"],
        "proof_failures": pr["failed"], "disagreements": len(out.disagreements),
        "known_findings_hit": sorted(hit), "escalated_search": escalated, "notes": out.notes,
        "fingerprints_changed": fp_changed, "budget_scale": scale, "leanchecker": pr.get("leanchecker"),
    }
    try:
        if cov_on:
            files = sorted(set(fingerprints.anchors().get(prop.ID, [])) | set(getattr(prop, "EXTRA_FILES", ())))
            coverage["impl_coverage"] = implcov.report(files, implcov.collect(covdir))
            try:
                mm = modelmap.by_name()
                ic = coverage["impl_coverage"]
                for f in ic["functions_partial"]:
                    f["status"] = (mm.get(f["function"]) or {}).get("status")
                ic["functions_unreached"] = [{"function": n, "status": (mm.get(n) or {}).get("status")}
                                             for n in ic["functions_unreached"]]
                st = {}
                for n, e in mm.items():
                    if n.split(":")[0] in files:
                        st[e["status"]] = st.get(e["status"], 0) + 1
                coverage["model_map"] = {"anchored_functions_by_status": st, "doc": "docs/MODEL_MAP.md",
                                         "functions_changed_since_alignment": fn_changed,
                                         "module_level_changed": mod_level}
            except Exception:
                coverage["model_map"] = {"error": traceback.format_exc()[-300:]}
    except Exception:
        coverage["impl_coverage"] = {"error": traceback.format_exc()[-400:]}
    finally:
        import shutil
        shutil.rmtree(covdir, ignore_errors=True)
    C.write_evidence(prop.ID, args.tier, seed, coverage, list(getattr(prop, "ASSUMPTIONS", [])),
                     time.time() - t0, len(new) + (1 if (broken and not new) else 0))
    degenerate = out.evaluations > 0 and nontrivial < 2
    for l in lines:
        print(l)
    print("%s %s: theorems %d/%d, evaluations %d, nontrivial %d, disagreements %d, violations %d, known %d, %.1fs" % (
        prop.ID, args.tier, pr["discharged"], pr["obligations"], out.evaluations, nontrivial,
        len(out.disagreements), len(new), len(hit), time.time() - t0))
    if rc == 0 and degenerate:
        print("INFRA: degenerate generator (non-trivial share too low)")
        return 2
    return rc

"""Validation of the Lean regex semantics (Rx) against CPython `re`.

For every pattern extracted from /repo (harness/gen_patterns.json) and for random patterns
of the supported grammar, `match`, `search` (with pos) and `finditer` spans and group spans are
compared between `re` and the native Lean driver on strings over the pattern's own alphabet.
"""
import json
import os
import re

from . import common as C
from .runner import Outcome

import translate as T


def alphabet(tree, acc):
    k = tree[0]
    if k in ("lit", "notLit"):
        acc.add(tree[1])
        if k == "notLit":
            acc.add(97)
    elif k == "cls":
        for it in tree[2]:
            if it[0] == "ch":
                acc.add(it[1])
            elif it[0] == "range":
                acc.add(it[1])
                acc.add(it[2])
                acc.add((it[1] + it[2]) // 2)
            elif it[0] in ("word", "notWord"):
                acc.update([95, 97, 0xE9, 45])
            elif it[0] in ("digit", "notDigit"):
                acc.update([48, 0x663, 97])
            elif it[0] in ("space", "notSpace"):
                acc.update([32, 0xA0, 97])
        if tree[1]:
            acc.add(120)
    elif k == "any":
        acc.update([97, 10])
    elif k in ("seq", "alt"):
        alphabet(tree[1], acc)
        alphabet(tree[2], acc)
    elif k == "rep":
        alphabet(tree[4], acc)
    elif k == "group":
        alphabet(tree[2], acc)
    elif k == "look":
        alphabet(tree[3], acc)
    elif k in ("bol", "eol"):
        acc.add(10)
    return acc


def fmt_match(m, ng):
    if m is None:
        return "none"
    parts = ["%d %d" % m.span()]
    for i in range(1, ng + 1):
        parts.append("%d %d" % m.span(i))
    return " ".join(parts)


def rand_string(rng, alpha, maxlen):
    n = rng.randrange(maxlen + 1)
    return "".join(chr(rng.choice(alpha)) for _ in range(n))


def random_pattern(rng, depth=0):
    """random pattern string from the supported subset"""
    atoms = ["a", "b", "c", r"\n", ".", "[ab]", "[^a]", r"\w", r"\d", "[a-c]", "x", " ", r"\\", "="]
    r = rng.random()
    if depth > 3 or r < 0.35:
        return rng.choice(atoms)
    if r < 0.55:
        return random_pattern(rng, depth + 1) + random_pattern(rng, depth + 1)
    if r < 0.65:
        return "(?:%s|%s)" % (random_pattern(rng, depth + 1), random_pattern(rng, depth + 1))
    if r < 0.75:
        return "(%s)" % random_pattern(rng, depth + 1)
    if r < 0.9:
        q = rng.choice(["*", "+", "?", "*?", "+?", "??", "{1,2}", "{2}", "{0,2}?"])
        a = rng.choice(atoms + ["(?:ab)", "(?:a|bc)", "(a)", "(?:a[bc])"])
        return a + q
    if r < 0.95:
        return rng.choice(["^", "$", r"\Z", "(?=a)", "(?!b)", "(?<!a)", "(?<=b)"])
    return random_pattern(rng, depth + 1)


def validate(ctx, names=None, per_pattern=None, random_patterns=None):
    out = Outcome()
    rng = ctx.rng("rxval")
    meta = json.load(open(os.path.join(C.HARNESS, "gen_patterns.json")))
    if names is not None:
        meta = [m for m in meta if m["name"] in names]
    per_pattern = per_pattern if per_pattern is not None else ctx.n(150, 3000)
    random_patterns = random_patterns if random_patterns is not None else ctx.n(150, 4000)
    jobs = []   # (line, expected, descr)
    pats = []
    for m in meta:
        pats.append(("@" + m["name"], m["pattern"], m["flags"], m["groups"]))
    for _ in range(random_patterns):
        for _try in range(20):
            p = random_pattern(rng)
            fl = rng.choice([0, 0, re.M, re.S, re.M | re.S])
            try:
                w, gi, ng = T.wire_pattern(p, fl)
                re.compile(p, fl)
            except (T.Unsupported, re.error):
                continue
            pats.append((w, p, fl, ng))
            break
    for ref, p, fl, ng in pats:
        try:
            cre = re.compile(p, fl)
            tree, _, _ = T.parse_tree(p, fl)
        except Exception as e:   # translation failures are reported by the translator step
            continue
        alpha = sorted(alphabet(tree, {97, 10}))
        n = per_pattern if ref.startswith("@") else 12
        for i in range(n):
            s = rand_string(rng, alpha, 3 if i < n // 4 else (10 if i < n // 2 else 24))
            pos = rng.randrange(len(s) + 1) if rng.random() < 0.4 else 0
            endpos = rng.randrange(pos, len(s) + 1) if rng.random() < 0.15 else None
            es = "-" if endpos is None else str(endpos)
            args = (s, pos) if endpos is None else (s, pos, endpos)
            jobs.append(("rx.match %s %d %d %s %s" % (ref, ng, pos, es, C.enc(s)), fmt_match(cre.match(*args), ng), (p, fl, s, pos, endpos, "match")))
            jobs.append(("rx.search %s %d %d %s %s" % (ref, ng, pos, es, C.enc(s)), fmt_match(cre.search(*args), ng), (p, fl, s, pos, endpos, "search")))
            if i % 3 == 0:
                jobs.append(("rx.finditer %s %d %s" % (ref, ng, C.enc(s)), " ; ".join(fmt_match(mm, ng) for mm in cre.finditer(s)), (p, fl, s, 0, None, "finditer")))
    res = C.run_driver_parallel([j[0] for j in jobs]) if ctx.model_ok else []
    for (line, exp, d), got in zip(jobs, res):
        out.evaluations += 1
        if exp != "none" and exp != "":
            out.nontrivial.add((d[0], d[2], d[3], d[5]))
        if got != exp:
            out.disagreements.append({"op": "rx", "pattern": d[0], "flags": d[1], "subject": d[2], "pos": d[3],
                                      "endpos": d[4], "fn": d[5], "re": exp, "model": got})
    out.contracts["rx_vs_re_cases"] = out.evaluations
    out.contracts["rx_patterns"] = len(pats)
    return out

"""Shared plumbing of the verification harness (run with /venv/bin/python)."""
import fcntl
import hashlib
import json
import os
import random
import subprocess
import sys
import time

HARNESS = os.path.dirname(os.path.dirname(os.path.abspath(__file__)))
VERIF = os.path.dirname(HARNESS)
LEAN = os.path.join(VERIF, "lean")
REPO = os.environ.get("VERIF_REPO", "/repo")
PY = "/venv/bin/python"
DRIVER = os.path.join(LEAN, ".lake", "build", "bin", "cldriver")
ALLOWED_AXIOMS = {"propext", "Classical.choice", "Quot.sound"}


# ------------------------------------------------------------------ wire
def enc(s):
    """Python str -> protocol text token"""
    return "t:" + ",".join(str(ord(c)) for c in s)


def dec(tok):
    assert tok.startswith("t:"), tok
    body = tok[2:]
    return "".join(chr(int(x)) for x in body.split(",")) if body else ""


# ------------------------------------------------------------------ driver
def run_driver(lines, timeout=600):
    """Send protocol lines to the native Lean driver, return the output lines."""
    if not lines:
        return []
    data = ("\n".join(lines) + "\n").encode("ascii")
    p = subprocess.run([DRIVER], input=data, stdout=subprocess.PIPE, stderr=subprocess.PIPE, timeout=timeout)
    if p.returncode != 0:
        raise RuntimeError("cldriver failed: rc=%s %s" % (p.returncode, p.stderr.decode()[:500]))
    out = p.stdout.decode("ascii").split("\n")
    if out and out[-1] == "":
        out.pop()
    if len(out) != len(lines):
        raise RuntimeError("cldriver returned %d lines for %d ops" % (len(out), len(lines)))
    return out


def run_driver_parallel(lines, jobs=None, timeout=900):
    """Same, split over several driver processes."""
    from concurrent.futures import ThreadPoolExecutor
    jobs = jobs or min(16, os.cpu_count() or 4)
    if len(lines) < 2000 or jobs == 1:
        return run_driver(lines, timeout)
    n = (len(lines) + jobs - 1) // jobs
    chunks = [lines[i:i + n] for i in range(0, len(lines), n)]
    with ThreadPoolExecutor(len(chunks)) as ex:
        res = list(ex.map(lambda c: run_driver(c, timeout), chunks))
    out = []
    for r in res:
        out.extend(r)
    return out


# ------------------------------------------------------------------ build
class BuildResult:
    def __init__(self, ok, log, failed_modules):
        self.ok = ok
        self.log = log
        self.failed_modules = failed_modules


def translate():
    """Regenerate Gen/*.lean from /repo.  Returns (ok, info dict)."""
    p = subprocess.run([PY, "-W", "ignore", os.path.join(HARNESS, "translate.py")],
                       stdout=subprocess.PIPE, stderr=subprocess.PIPE, cwd=VERIF,
                       env=dict(os.environ, PYTHONPATH=REPO))
    try:
        info = json.loads(p.stdout.decode().strip().splitlines()[-1])
    except Exception:
        info = {"error": (p.stderr.decode() or p.stdout.decode())[-800:]}
    return p.returncode == 0 and "error" not in info, info


def lake_build(targets, timeout=3000):
    p = subprocess.run(["lake", "build"] + list(targets), cwd=LEAN, stdout=subprocess.PIPE,
                       stderr=subprocess.STDOUT, timeout=timeout)
    log = p.stdout.decode(errors="replace")
    failed = []
    for line in log.splitlines():
        if line.startswith("- "):
            failed.append(line[2:].strip())
    return BuildResult(p.returncode == 0, log, failed)


class BuildLock:
    """serialises translate + lake build between concurrently running checks"""

    def __enter__(self):
        self.f = open(os.path.join(LEAN, ".lock"), "w")
        fcntl.flock(self.f, fcntl.LOCK_EX)
        return self

    def __exit__(self, *a):
        fcntl.flock(self.f, fcntl.LOCK_UN)
        self.f.close()


def audit_axioms(module, theorems, timeout=900):
    """#print axioms for each theorem; returns {thm: [axioms]} or raises"""
    src = "import %s\n" % module + "".join("#print axioms %s\n" % t for t in theorems)
    path = os.path.join(LEAN, ".audit_%d.lean" % os.getpid())
    with open(path, "w") as f:
        f.write(src)
    try:
        p = subprocess.run(["lake", "env", "lean", path], cwd=LEAN, stdout=subprocess.PIPE,
                           stderr=subprocess.STDOUT, timeout=timeout)
    finally:
        os.unlink(path)
    out = p.stdout.decode(errors="replace")
    res = {}
    # output format: 'thm' depends on axioms: [a, b]   |  'thm' does not depend on any axioms
    import re as _re
    flat = " ".join(out.split())
    for t in theorems:
        m = _re.search(r"'%s' depends on axioms: \[([^\]]*)\]" % _re.escape(t), flat)
        if m:
            res[t] = [a.strip() for a in m.group(1).split(",") if a.strip()]
        elif _re.search(r"'%s' does not depend on any axioms" % _re.escape(t), flat):
            res[t] = []
        else:
            res[t] = None
    return res, out


FORBIDDEN = ["sorry", "admit", "native_decide", "bv_decide", "implemented_by", "unsafe ", "maxHeartbeats 0"]


def import_closure(modules):
    """source files of the given Lean modules and of everything of this project they import"""
    import re as _re
    seen, todo, files = set(), list(modules), []
    while todo:
        m = todo.pop()
        if m in seen:
            continue
        seen.add(m)
        path = os.path.join(LEAN, *m.split(".")) + ".lean"
        if not os.path.exists(path):
            continue
        files.append(path)
        for line in open(path, encoding="utf-8"):
            mm = _re.match(r"\s*(?:public\s+)?import\s+(CLModel[\w.]*|Driver)", line)
            if mm:
                todo.append(mm.group(1))
    return files


def grep_forbidden(paths):
    """scan Lean sources (comments stripped crudely) for forbidden constructs"""
    import re as _re
    hits = []
    for path in paths:
        try:
            text = open(path, encoding="utf-8").read()
        except OSError:
            continue
        text = _re.sub(r"/-.*?-/", "", text, flags=_re.S)
        for i, line in enumerate(text.splitlines(), 1):
            code = line.split("--")[0]
            for w in FORBIDDEN:
                if w in code:
                    hits.append("%s:%d:%s" % (os.path.relpath(path, VERIF), i, w))
            if _re.match(r"\s*axiom\s", code):
                hits.append("%s:%d:axiom" % (os.path.relpath(path, VERIF), i))
    return hits


# ------------------------------------------------------------------ misc
def seed_from_env():
    try:
        return int(os.environ.get("VERIF_SEED", "0"))
    except ValueError:
        return 0


def rng_for(seed, *tags):
    h = hashlib.sha256(("%d|" % seed + "|".join(str(t) for t in tags)).encode()).digest()
    return random.Random(int.from_bytes(h[:8], "big"))


def load_known_findings():
    path = os.path.join(VERIF, "known_findings.json")
    try:
        return json.load(open(path))
    except FileNotFoundError:
        return {"known": [], "fixed": []}


def write_replay(prop, seed, n, payload):
    d = os.path.join(VERIF, "replays")
    os.makedirs(d, exist_ok=True)
    path = os.path.join(d, "%s-%d-%d.json" % (prop, seed, n))
    with open(path, "w") as f:
        json.dump(payload, f, indent=1, sort_keys=True, default=str)
    return os.path.relpath(path, VERIF)


def write_evidence(prop, tier, seed, coverage, assumptions, wall_s, violations):
    d = os.path.join(VERIF, "evidence")
    os.makedirs(d, exist_ok=True)
    ev = {
        "property_id": prop, "tier": tier, "seed": seed, "level": "proof",
        "coverage": coverage, "assumptions": assumptions, "wall_s": round(wall_s, 2),
        "violations": violations,
    }
    tmp = os.path.join(d, "%s.json.tmp%d" % (prop, os.getpid()))
    with open(tmp, "w") as f:
        json.dump(ev, f, indent=1, sort_keys=True, default=str)
    os.replace(tmp, os.path.join(d, "%s.json" % prop))

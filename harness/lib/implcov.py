"""Which lines of the anchored implementation did this run of the check execute?

Part of the tie between model and code (never a verdict): the correspondence and the oracle only
speak about the code they drive, so every check records, per function of the files its property is
anchored in, how many of the executable lines were reached by the inputs of this run (in this
process and in the worker subprocesses), and lists the functions that were reached only partly or
not at all.  Python 3.12 `sys.monitoring` LINE events, each location disabled after its first hit.
"""
import ast
import json
import os
import sys

from . import common as C

_hits = set()
_active = False
PREFIX = os.path.join(os.path.realpath(C.REPO), "compare_locales") + os.sep


def start():
    global _active
    if _active:
        return True
    if os.environ.get("VERIF_IMPLCOV", "1") == "0":
        return False
    mon = getattr(sys, "monitoring", None)
    if mon is None:
        return False
    try:
        mon.use_tool_id(mon.COVERAGE_ID, "verif-implcov")
    except ValueError:
        return False

    rel = {}

    def relname(fn):
        r = rel.get(fn, 0)
        if r == 0:
            real = fn if fn.startswith(PREFIX) else os.path.realpath(fn)
            r = rel[fn] = ("compare_locales/" + real[len(PREFIX):]) if real.startswith(PREFIX) else None
        return r

    def on_line(code, line):
        r = relname(code.co_filename)
        if r is not None:
            _hits.add((r, line))
        return mon.DISABLE

    def on_start(code, offset):
        # LINE events only inside code objects of the code under test (cheap for everything else)
        if relname(code.co_filename) is not None:
            mon.set_local_events(mon.COVERAGE_ID, code, mon.events.LINE)
        return mon.DISABLE

    mon.register_callback(mon.COVERAGE_ID, mon.events.LINE, on_line)
    mon.register_callback(mon.COVERAGE_ID, mon.events.PY_START, on_start)
    mon.set_events(mon.COVERAGE_ID, mon.events.PY_START)
    _active = True
    return True


def dump(directory):
    if not _active:
        return
    try:
        os.makedirs(directory, exist_ok=True)
        by = {}
        for f, l in _hits:
            by.setdefault(f, []).append(l)
        with open(os.path.join(directory, "%d.json" % os.getpid()), "w") as fh:
            json.dump(by, fh)
    except OSError:
        pass


def collect(directory):
    """union of this process' hits and of every worker dump in `directory`"""
    by = {}
    for f, l in _hits:
        by.setdefault(f, set()).add(l)
    try:
        names = os.listdir(directory)
    except OSError:
        names = []
    for n in names:
        try:
            d = json.load(open(os.path.join(directory, n)))
        except (OSError, ValueError):
            continue
        for f, ls in d.items():
            by.setdefault(f, set()).update(ls)
    return by


def _code_lines(code, out):
    for _, _, line in code.co_lines():
        if line is not None:
            out.add(line)
    for c in code.co_consts:
        if hasattr(c, "co_lines"):
            _code_lines(c, out)


def functions(relpath):
    """[(qualified name, first line, last line, executable lines)] of the functions of a source file;
    the `def` line itself and docstrings are not counted"""
    path = os.path.join(C.REPO, relpath)
    src = open(path, encoding="utf-8").read()
    tree = ast.parse(src)
    execl = set()
    _code_lines(compile(src, path, "exec"), execl)
    res = []

    def walk(node, prefix):
        for ch in ast.iter_child_nodes(node):
            if isinstance(ch, (ast.FunctionDef, ast.AsyncFunctionDef)):
                body = ch.body
                if body and isinstance(body[0], ast.Expr) and isinstance(getattr(body[0], "value", None), ast.Constant) \
                        and isinstance(body[0].value.value, str):
                    body = body[1:]
                if body:
                    lo, hi = body[0].lineno, ch.end_lineno
                    inner = set()
                    for sub in ast.walk(ch):
                        if sub is not ch and isinstance(sub, (ast.FunctionDef, ast.AsyncFunctionDef, ast.ClassDef)):
                            inner.update(range(sub.lineno, sub.end_lineno + 1))
                    lines = sorted(l for l in execl if lo <= l <= hi and l not in inner)
                    res.append((prefix + ch.name, ch.lineno, ch.end_lineno, lines))
                walk(ch, prefix + ch.name + ".")
            elif isinstance(ch, ast.ClassDef):
                walk(ch, prefix + ch.name + ".")
            elif not isinstance(ch, (ast.expr, ast.Constant)):
                walk(ch, prefix)

    walk(tree, "")
    return res


def report(files, hits):
    """evidence block: per anchored file lines reached / executable lines inside functions, and the
    functions reached partly or not at all"""
    out = {"files": {}, "functions_total": 0, "functions_full": 0, "functions_partial": [], "functions_unreached": []}
    tl = th = 0
    for rel in sorted(files):
        try:
            fns = functions(rel)
        except (OSError, SyntaxError) as e:
            out["files"][rel] = {"error": type(e).__name__}
            continue
        got = hits.get(rel, set())
        nl = nh = 0
        for name, lo, hi, lines in fns:
            if not lines:
                continue
            h = [l for l in lines if l in got]
            nl += len(lines)
            nh += len(h)
            out["functions_total"] += 1
            if len(h) == len(lines):
                out["functions_full"] += 1
            elif h:
                out["functions_partial"].append({"function": "%s:%s" % (rel, name), "reached": len(h), "of": len(lines),
                                                 "missing_lines": [l for l in lines if l not in got][:40]})
            else:
                out["functions_unreached"].append("%s:%s" % (rel, name))
        out["files"][rel] = {"function_lines": nl, "reached": nh}
        tl += nl
        th += nh
    out["function_lines"] = tl
    out["reached"] = th
    out["note"] = ("lines of the property's anchored files executed by the implementation during this run "
                   "(correspondence + oracle inputs); steering information about the tie, never a verdict")
    return out

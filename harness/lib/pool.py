"""Pool of watchdog-supervised worker subprocesses (DESIGN.md 2.12)."""
import json
import os
import queue
import selectors
import subprocess
import sys
import threading
import time

from . import common as C

HANG = {"exc": "Hang", "msg": "no result within the deadline", "where": []}


class Worker:
    def __init__(self, env=None):
        self.env = env
        self.spawn()

    def spawn(self):
        env = dict(os.environ)
        env["PYTHONPATH"] = C.HARNESS + os.pathsep + C.REPO
        env.setdefault("PYTHONHASHSEED", "0")
        if self.env:
            env.update(self.env)
        self.p = subprocess.Popen([C.PY, "-W", "ignore", os.path.join(C.HARNESS, "lib", "worker.py")],
                                  stdin=subprocess.PIPE, stdout=subprocess.PIPE, stderr=subprocess.DEVNULL,
                                  env=env, bufsize=0)
        self.sel = selectors.DefaultSelector()
        self.sel.register(self.p.stdout, selectors.EVENT_READ)
        self.buf = b""

    def kill(self):
        try:
            self.p.kill()
            self.p.wait(timeout=5)
        except Exception:
            pass
        try:
            self.sel.close()
        except Exception:
            pass

    def close(self):
        """end of input: lets the worker leave its loop (it then writes its coverage dump), then reaps it"""
        try:
            self.p.stdin.close()
            self.p.wait(timeout=5)
        except Exception:
            pass
        self.kill()

    def call(self, tasks, timeout):
        """returns list of results or None on timeout/crash (worker is respawned)"""
        try:
            self.p.stdin.write((json.dumps(tasks) + "\n").encode())
            self.p.stdin.flush()
        except (BrokenPipeError, OSError):
            self.kill()
            self.spawn()
            return None
        deadline = time.monotonic() + timeout
        while b"\n" not in self.buf:
            left = deadline - time.monotonic()
            if left <= 0 or not self.sel.select(left):
                self.kill()
                self.spawn()
                return None
            chunk = os.read(self.p.stdout.fileno(), 1 << 16)
            if not chunk:
                self.kill()
                self.spawn()
                return None
            self.buf += chunk
        line, self.buf = self.buf.split(b"\n", 1)
        return json.loads(line)


def pmap(module, fn, args_list, timeout=2.0, jobs=None, batch=32, env=None):
    """Run fn(*args) for every args in worker subprocesses; a case that does not answer within
    `timeout` seconds (re-tried alone on a fresh worker with 10x the deadline) yields HANG."""
    n = len(args_list)
    results = [None] * n
    if n == 0:
        return results
    jobs = jobs or min(14, os.cpu_count() or 4, max(1, n // batch + 1))
    q = queue.Queue()
    for i in range(0, n, batch):
        q.put(list(range(i, min(n, i + batch))))

    def loop():
        w = Worker(env)
        try:
            while True:
                try:
                    idxs = q.get_nowait()
                except queue.Empty:
                    return
                res = w.call([[module, fn, args_list[i]] for i in idxs], timeout + 0.05 * len(idxs))
                if res is not None:
                    for i, r in zip(idxs, res):
                        results[i] = r
                    continue
                for i in idxs:      # find the culprit(s) one by one
                    r = w.call([[module, fn, args_list[i]]], timeout)
                    if r is None:
                        r = w.call([[module, fn, args_list[i]]], timeout * 10)
                    results[i] = r[0] if r is not None else dict(HANG)
        finally:
            w.close()

    ts = [threading.Thread(target=loop) for _ in range(jobs)]
    for t in ts:
        t.start()
    for t in ts:
        t.join()
    return results

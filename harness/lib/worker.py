"""Child process: executes implementation adapters under the parent's watchdog.
Protocol: one JSON list of tasks per line in, one JSON list of results per line out.
task = [module, function, args]; result = {"r": value} | {"exc": type, "msg": text}"""
import importlib
import json
import os
import sys
import warnings

warnings.filterwarnings("ignore")
sys.path.insert(0, os.path.dirname(os.path.dirname(os.path.abspath(__file__))))


def main():
    out = sys.stdout
    sys.stdout = sys.stderr          # adapters must not pollute the protocol stream
    cache = {}
    covdir = os.environ.get("VERIF_IMPLCOV_DIR")
    if covdir:
        try:
            from lib import implcov
            implcov.start()
        except Exception:
            covdir = None
    for line in sys.stdin:
        tasks = json.loads(line)
        res = []
        for mod, fn, args in tasks:
            try:
                f = cache.get((mod, fn))
                if f is None:
                    f = getattr(importlib.import_module(mod), fn)
                    cache[(mod, fn)] = f
                res.append({"r": f(*args)})
            except BaseException as e:   # noqa: the point is to classify every failure
                if isinstance(e, (KeyboardInterrupt, SystemExit)):
                    raise
                import traceback
                tb = traceback.extract_tb(e.__traceback__)
                where = ["%s:%s:%s" % (os.path.basename(f.filename), f.lineno, f.name) for f in tb[-3:]]
                res.append({"exc": type(e).__name__, "msg": str(e)[:300], "where": where})
        out.write(json.dumps(res) + "\n")
        out.flush()
    if covdir:
        implcov.dump(covdir)


if __name__ == "__main__":
    main()

"""Fingerprints of the anchored source files (DESIGN.md 2.2 T3): budget steering, never a verdict.

The normalised AST (docstrings and formatting removed) of every file a property is anchored in is
hashed; `harness/fingerprints.json` records the hashes of the tree the models were last brought in
line with.  A check whose anchored files differ says so in its evidence and multiplies its search
budget; a changed hash alone never fails a check."""
import ast
import hashlib
import json
import os

from . import common as C

PATH = os.path.join(C.HARNESS, "fingerprints.json")


def _strip_docstrings(tree):
    for node in ast.walk(tree):
        if isinstance(node, (ast.FunctionDef, ast.AsyncFunctionDef, ast.ClassDef, ast.Module)):
            b = node.body
            if b and isinstance(b[0], ast.Expr) and isinstance(getattr(b[0], "value", None), ast.Constant) \
                    and isinstance(b[0].value.value, str):
                node.body = b[1:] or [ast.Pass()]
    return tree


def file_hash(path):
    try:
        src = open(path, encoding="utf-8").read()
        return hashlib.sha256(ast.dump(_strip_docstrings(ast.parse(src))).encode()).hexdigest()[:16]
    except (OSError, SyntaxError) as e:
        return "unreadable:%s" % type(e).__name__


def anchors():
    out = {}
    for line in open(os.path.join(C.VERIF, "properties.jsonl")):
        p = json.loads(line)
        out[p["id"]] = list(p["anchors"]["files"])
    return out


def current(files):
    return {f: file_hash(os.path.join(C.REPO, f)) for f in files}


def changed_for(prop_id, extra=()):
    """files anchored in the property whose normalised AST differs from the recorded one"""
    try:
        rec = json.load(open(PATH))
    except (OSError, ValueError):
        return []
    files = sorted(set(anchors().get(prop_id, [])) | set(extra))
    cur = current(files)
    return [f for f in files if rec.get(f) is not None and rec[f] != cur[f]]


def record():
    files = sorted({f for fs in anchors().values() for f in fs})
    json.dump(current(files), open(PATH, "w"), indent=1, sort_keys=True)
    return len(files)

import re, subprocess, glob
for it in range(40):
    out=subprocess.run(["lake","build"],cwd="/verif/lean",stdout=subprocess.PIPE,stderr=subprocess.STDOUT).stdout.decode()
    m=re.search(r"import (CLModel\.[\w.]+) failed, environment already contains '([\w.']+)' from (CLModel\.[\w.]+)", out)
    if not m:
        print(out[-600:]); break
    mod, name, other = m.groups()
    short=name.split(".")[-1]
    fam=re.match(r"CLModel\.(?:Proofs|Props)\.(C\d\d)", mod)
    tag=fam.group(1).lower() if fam else "x"
    if (fam and fam.group(1) in ("C11","C12")) or mod.endswith("RxSem"):
        tag="c11"
        files=glob.glob("/verif/lean/CLModel/Proofs/C11*.lean")+glob.glob("/verif/lean/CLModel/Proofs/C12*.lean")+["/verif/lean/CLModel/Proofs/RxSem.lean","/verif/lean/CLModel/Props/C11.lean","/verif/lean/CLModel/Props/C12.lean"]
    elif fam:
        files=glob.glob("/verif/lean/CLModel/Proofs/%s*.lean"%fam.group(1))+glob.glob("/verif/lean/CLModel/Props/%s.lean"%fam.group(1))
    else:
        files=["/verif/lean/"+mod.replace(".","/")+".lean"]
    n=0
    for f in files:
        s=open(f).read()
        s2=re.sub(r"(?<![\w.'])%s(?![\w'])"%re.escape(short), short+"_"+tag, s)
        if s2!=s: open(f,"w").write(s2); n+=1
    print("renamed", name, "in", mod, "family ->", short+"_"+tag, "files:", n)
    if n==0: break

"""Regenerates docs/SEEDS.md from seeded/*/meta.json."""
import glob
import json
import os

VERIF = os.path.dirname(os.path.dirname(os.path.abspath(__file__)))
rows = []
for d in sorted(glob.glob(os.path.join(VERIF, "seeded", "*"))):
    m = json.load(open(os.path.join(d, "meta.json")))
    rows.append((os.path.basename(d), (m.get("summary") or "").replace("|", "/").replace("\n", " "),
                 (m.get("needs") or "").replace("|", "/").replace("\n", " "),
                 "; ".join("%s: %s" % kv for kv in m["caught_by"].items()), m.get("history", "")))
out = ["# Seeded changes and which checks catch them\n",
       "Each change was produced by a fresh sub-agent that saw only the property text and a scratch worktree of /repo; it compiles, "
       "passes the repository's test suite (382 passed) and breaks the property (demo.py fails with it, passes without). "
       "Confirmed and run with `harness/seedtest.sh` (scratch worktree + `VERIF_REPO` override, quick tier).\n",
       "| seed | change | needs, to manifest | outcome of ./check | history |", "|---|---|---|---|---|"]
for r in rows:
    out.append("| %s | %s | %s | %s | %s |" % r)
caught = sum(1 for r in rows if "VIOLATION" in r[3])
out.append("\n%d seeds, %d caught (%d with a concrete failing input)." % (
    len(rows), caught, sum(1 for r in rows if "concrete failing input" in r[3])))
open(os.path.join(VERIF, "docs", "SEEDS.md"), "w").write("\n".join(out) + "\n")
print(len(rows), caught)

import importlib
import sys

from lib import runner


def main():
    pid = sys.argv[1]
    mod = importlib.import_module("props.%s" % pid.lower())
    sys.exit(runner.main(mod, sys.argv[2:]))


if __name__ == "__main__":
    main()

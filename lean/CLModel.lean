import CLModel.Rx.Basic
import CLModel.Gen.Regexes
import CLModel.Gen.Tables
import CLModel.Props.C01
import CLModel.Props.C20
import CLModel.Compare.Merge
import CLModel.Props.C04
import CLModel.Props.C05

import CLModel.Rx.Basic
import CLModel.Gen.Regexes
import CLModel.Gen.Tables

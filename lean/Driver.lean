/- Native line-protocol driver: one operation per input line, one result per output line. -/

import CLModel.Ops.Rx
import CLModel.Ops.C20
import CLModel.Ops.C01
import CLModel.Ops.C04
import CLModel.Ops.C05
import CLModel.Ops.C19
import CLModel.Ops.C03
import CLModel.Ops.C10
import CLModel.Ops.C16
import CLModel.Ops.C17
import CLModel.Ops.C14
import CLModel.Ops.C06
import CLModel.Ops.C15
import CLModel.Ops.C18
import CLModel.Ops.C08
import CLModel.Ops.C09
import CLModel.Ops.C02
import CLModel.Ops.C11
import CLModel.Ops.C07
import CLModel.Ops.C13
import CLModel.Ops.C10P
import CLModel.Ops.C12

def allOps : List (String × (List String → String)) :=
  Ops.Rx.ops ++ Ops.C20.ops ++ Ops.C01.ops ++ Ops.C04.ops ++ Ops.C05.ops ++ Ops.C19.ops ++ Ops.C03.ops ++ Ops.C10.ops ++ Ops.C16.ops ++ Ops.C17.ops ++ Ops.C14.ops ++ Ops.C06.ops ++ Ops.C15.ops ++ Ops.C18.ops ++ Ops.C08.ops ++ Ops.C09.ops ++ Ops.C02.ops ++ Ops.C11.ops ++ Ops.C07.ops ++ Ops.C13.ops ++ Ops.C10P.ops ++ Ops.C12.ops

/-- names of all operations (the harness checks that they are pairwise distinct) -/
def opNames : String := " ".intercalate (allOps.map (·.1))

def handle (line : String) : String :=
  match ((Proto.splitChars (Char.ofNat 32) (line.toList.filter (fun c => c != (Char.ofNat 10) && c != (Char.ofNat 13)))).map String.ofList).filter (· ≠ "") with
  | [] => "bad-op"
  | op :: args =>
    if op == "ops.list" then opNames else
    match allOps.find? (·.1 == op) with
    | some (_, f) => f args
    | none => "bad-op"

partial def loop (hin : IO.FS.Stream) (hout : IO.FS.Stream) : IO Unit := do
  let line ← hin.getLine
  if line.isEmpty then return ()
  hout.putStrLn (handle line)
  loop hin hout

def main : IO Unit := do
  let hin ← IO.getStdin
  let hout ← IO.getStdout
  loop hin hout
  hout.flush

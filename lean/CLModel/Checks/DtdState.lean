/-
The DTDChecker INSTANCE as a state machine (round 4).

`Dtd.check` is the model of one call of `DTDChecker.check(refEnt, l10nEnt)` as a function of the values.  The real
object is long-lived: `ContentComparer.compare` and `L10nLinter.lint_file` create ONE checker per file
(`getChecker`), call `set_reference` once and then `check` once per entity.  What survives from call to call:

* `self.reference`              (set by `set_reference`)
* `self.__known_entities`       (memo filled by the first `known_entities` call when a reference is set)
* `self.processContent`, `self.extra_tests`   (fixed by `__init__`)
* `DTDChecker.texthandler.textcontent`        (a CLASS attribute: one `TextContent` object shared by all instances;
                                               reset and refilled by every android-dtd check)
* `self._css_spec` / `self._css_sep`          (compiled lazily by the first `parse_css_spec`)

`step` is a transliteration of `check` with that state threaded through, every read of a memo being a read of the
STATE (the sections take `reflist` as a parameter instead of recomputing it).  Props/C07.lean proves that the
verdict of every step equals `Dtd.check` on the values (the state only memoises); `Ops/C07.lean` runs sequences
of pairs through `runSeq` and the harness compares every verdict AND the state with the real checker object.
Core Lean only.
-/
import CLModel.Checks.Dtd
namespace DtdState
open Dtd

structure State where
  /-- `self.extra_tests is not None and "android-dtd" in self.extra_tests` (extra_tests never changes) -/
  extraAndroid : Bool
  /-- `self.processContent` -/
  processContent : Bool
  /-- `self.reference`: the raw values of all reference entities (what `known_entities` reads of them) -/
  reference : Option (List Text)
  /-- `self.__known_entities` -/
  known : Option (List Text)
  /-- `DTDChecker.texthandler.textcontent` (class attribute, shared) -/
  textcontent : Text
  /-- `hasattr(self, "_css_spec")` -/
  cssCompiled : Bool
  deriving Repr, DecidableEq, Inhabited

/-- `DTDChecker.__init__(extra_tests)`; `text0` = what the shared text handler holds at that moment -/
def init (android : Bool) (text0 : Text := []) : State :=
  let processContent := false
  let processContent := if android then true else processContent
  { extraAndroid := android, processContent := processContent, reference := none, known := none,
    textcontent := text0, cssCompiled := false }

/-- `Checker.set_reference(reference)` -/
def setReference (st : State) (vals : List Text) : State := { st with reference := some vals }

/-- `known_entities(refValue)`: fills the memo on first use when a reference is set -/
def knownEntitiesS (st : State) (refValue : Text) : State × List Text :=
  let st1 : State :=
    match st.known, st.reference with
    | none, some vals =>
      { st with known := some (vals.foldl (fun acc v => sunion acc (entitiesForValue v)) []) }
    | _, _ => st
  (st1, match st1.known with
        | some k => k
        | none => entitiesForValue refValue)

/-! ### the sections of `check`, with `entities` / `reflist` as values of local variables -/

/-- the two parses of the reference value (`entities` = the declarations built from `reflist`) -/
def refSectionR (xmlParse : Bytes → ParseRes) (entities : Text) (ref : Ent) : Out :=
  let warn : Result := ⟨.warning, .lc 0 0, msgCantParse, .xmlparse⟩
  match docValue entities ref.val with
  | none => { results := [], exc := some .unicodeEncodeError }
  | some d1 =>
    match (xmlParse d1).err with
    | some _ => .ok [warn]
    | none =>
      match docDecl entities ref with
      | none => { results := [], exc := some .unicodeEncodeError }
      | some d2 =>
        match (xmlParse d2).err with
        | some _ => .ok [warn]
        | none => .ok []

/-- the two parses of the localized value (`entities'` = `_entities`) -/
def l10nSectionR (xmlParse : Bytes → ParseRes) (entities' : Text) (l10n : Ent) : Out × Text :=
  match docValue entities' l10n.val with
  | none => ({ results := [], exc := some .unicodeEncodeError }, [])
  | some d3 =>
    let r3 := xmlParse d3
    match r3.err with
    | some e => (xmlError l10n.val e, r3.text)
    | none =>
      match docDecl entities' l10n with
      | none => ({ results := [], exc := some .unicodeEncodeError }, r3.text)
      | some d4 =>
        match (xmlParse d4).err with
        | some e => (xmlError l10n.val e, r3.text)
        | none => (.ok [], r3.text)

def unknownSectionR (reflist inContext missing : List Text) : List Result :=
  missing.map (unknownWarning reflist inContext)

def mismatchSectionR (inContext l10nlist missing : List Text) : List Result :=
  let mismatch := sdiff (sdiff l10nlist inContext) missing
  if !inContext.isEmpty && !l10nlist.isEmpty && !mismatch.isEmpty then
    mismatch.map (fun key =>
      ⟨.warning, .lc 0 0, msgEntity ++ key ++ msgReferencedBut ++ join commaSp inContext ++ msgUsedInContext, .xmlparse⟩)
  else []

/-- `parse_css_spec(val)`: compiles the two regexes on first use (`hasattr(self, "_css_spec")`) -/
def parseCssSpecS (st : State) (val : Text) :
    State × (Option (List (Text × Text)) × Option (List CssErr)) :=
  let st1 := if !st.cssCompiled then { st with cssCompiled := true } else st
  (st1, parseCssSpec val)

/-- `maybe_style(ref_value, l10n_value)`: `ref_map` is a fresh local dict of THIS call; `check_style` consumes it -/
def maybeStyleS (st : State) (refVal l10nVal : Text) : State × List Result :=
  let (st1, r) := parseCssSpecS st refVal
  match r.1 with
  | none => (st1, [])
  | some [] => (st1, [])
  | some refMap =>
    let (st2, p) := parseCssSpecS st1 l10nVal
    (st2, checkStyle refMap p.1 p.2)

/-- `DTDChecker.check(refEnt, l10nEnt)` consumed to the end (or to its exception): new state, verdicts -/
def step (xmlParse : Bytes → ParseRes) (st : State) (ref l10n : Ent) : State × Out :=
  -- yield from super().check(refEnt, l10nEnt)
  let o0 := Out.ok (baseCheck l10n)
  -- reflist = self.known_entities(refValue); inContext = self.entities_for_value(refValue)
  let (st1, reflist) := knownEntitiesS st ref.val
  let inContext := entitiesForValue ref.val
  let entities := entityDecls reflist
  let o1 := refSectionR xmlParse entities ref
  match o1.exc with
  | some _ => (st1, o0.andThen fun _ => o1)
  | none =>
    let l10nlist := entitiesForValue l10n.val
    let missing := sdiff l10nlist reflist
    let entities' := entities ++ entityDecls missing
    -- if self.processContent: self.texthandler.textcontent = ""; parser.setContentHandler(self.texthandler)
    let st2 := if st1.processContent then { st1 with textcontent := [] } else st1
    let (o2, text) := l10nSectionR xmlParse entities' l10n
    -- characters() events of the first localized document go to the text handler
    let st3 := if st2.processContent then { st2 with textcontent := st2.textcontent ++ text } else st2
    match o2.exc with
    | some _ => (st3, o0.andThen fun _ => o1.andThen fun _ => o2)
    | none =>
      let (st4, style) := maybeStyleS st3 ref.val l10n.val
      let o3 := Out.ok (unknownSectionR reflist inContext missing ++ mismatchSectionR inContext l10nlist missing ++
                        numberSection ref.val l10n.val ++ lengthSection ref.val l10n.val ++ style)
      -- if self.extra_tests is not None and "android-dtd" in self.extra_tests:
      let o4 := if st4.extraAndroid then androidSection st4.textcontent else .ok []
      (st4, o0.andThen fun _ => o1.andThen fun _ => o2.andThen fun _ => o3.andThen fun _ => o4)

/-- one checker over a list of (reference entity, localized entity) pairs, in order -/
def runSeq (xmlParse : Bytes → ParseRes) : State → List (Ent × Ent) → List (State × Out)
  | _, [] => []
  | st, (r, l) :: rest =>
    let so := step xmlParse st r l
    so :: runSeq xmlParse so.1 rest

/-- the values one call sees, as the input of the stateless model -/
def inpOf (st : State) (ref l10n : Ent) : Inp :=
  { android := st.extraAndroid, reference := st.reference, ref := ref, l10n := l10n }

end DtdState

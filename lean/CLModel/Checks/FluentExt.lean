/-
Round-4 extension of the Fluent checker model (C08).  Everything here is ADDED next to
CLModel/Checks/Fluent.lean (which is shared and stays as it is):

* `checkMessageRaw` / `checkTermRaw` / `checkDispatch`: `FluentChecker.check_message` and `check_term` as the
  public methods they are, applied to ANY entry — including the two defensive branches
  `L10nMessageVisitor.visit_Term` / `TermVisitor.visit_Message` (`raise RuntimeError`) that `check` can never
  reach because it dispatches on the type of the localized entry.
* `checkStyle4` / `maybeStyle`: `CSSCheckMixin.check_style` with the category of every yielded tuple and
  `CSSCheckMixin.maybe_style` (the entry of the other checkers into the same CSS code).
* `styleSeq`: check_style called repeatedly with ONE `ref_map` object (several `style` attributes in one message:
  `reference.css_styles` is popped from in place).
* `entityEquals`: `FluentEntity.equals` / `FluentTerm.equals` (= `BaseNode.equals` of fluent.syntax with
  `ignored_fields = ["comment", "span"]`, for terms also `"attributes"`).
* `Checker`: the per-instance state of a `FluentChecker` object (`locale`, `extra_tests`, `reference`) threaded
  through a SEQUENCE of `set_reference` / `check` calls, as ContentComparer.compare and the linter use one instance.

Core Lean only (linked into the native driver).
-/
import CLModel.Checks.Fluent
namespace Ftl
open Gen.Tables

/-! ### check_message / check_term as public methods -/

/-- the two ways the raw methods can raise -/
inductive RawErr where
  /-- `raise RuntimeError("Should not use … for …")` of visit_Term / visit_Message -/
  | runtime
  /-- the IndexError of `plurals.get_plural` (see `Ftl.check`) -/
  | index
  deriving Repr, DecidableEq

/-- `FluentChecker.check_message(ref_entry, l10n_entry)` with any l10n entry:
    `ref_data.visit(ref_entry)` never raises; `l10n_data.visit(l10n_entry)` on a Term is
    `L10nMessageVisitor.visit_Term`: RuntimeError before anything else happens. -/
def checkMessageRaw (kp : Option (List Str)) (ref l10n : Entry) : Except RawErr (List Msg) :=
  match l10n with
  | .message m => .ok (checkMessage kp ref m)
  | .term _ => .error .runtime

/-- `FluentChecker.check_term(l10n_entry)` with any entry: `TermVisitor.visit_Message` raises -/
def checkTermRaw (kp : Option (List Str)) (l10n : Entry) : Except RawErr (List Msg) :=
  match l10n with
  | .term t => .ok (checkTerm kp t)
  | .message _ => .error .runtime

/-- the body of `FluentChecker.check` after `yield from super().check(...)`, written with the raw methods:
    `isinstance(l10n_entry, ftl.Message)` → check_message, `isinstance(l10n_entry, ftl.Term)` → check_term -/
def checkDispatch (kp : Option (List Str)) (key all : Str) (ref l10n : Entry) : Except RawErr (List Out) :=
  match l10n with
  | .message _ =>
    match checkMessageRaw kp ref l10n with
    | .ok msgs => .ok (checkEncoding key all ++ finish l10n.start msgs)
    | .error e => .error e
  | .term _ =>
    match checkTermRaw kp l10n with
    | .ok msgs => .ok (checkEncoding key all ++ finish l10n.start msgs)
    | .error e => .error e

/-- a raw method under a locale: the plural lookup raises IndexError only when check_variants runs -/
def rawWithLocale (locale : Option Str) (l10n : Entry) (f : Option (List Str) → Except RawErr (List Msg)) :
    Except RawErr (List Msg) :=
  match getPlural locale with
  | .ok kp => f kp
  | .error _ =>
    match f none with
    | .error e => .error e          -- the RuntimeError comes first (raised on entering the visitor)
    | .ok r => if hasSelect l10n then .error .index else .ok r

/-! ### check_style with categories, maybe_style -/

/-- `list(check_style(ref_map, l10n_map, errors))` as 4-tuples, and `ref_map` afterwards -/
def checkStyle4 (refMap : CssMap) (l10nMap : Option CssMap) (errors : Option (List CssErr)) : List Out × CssMap :=
  match l10nMap with
  | none => ([⟨fmt checkStyleStr_0 [], 0, fmt checkStyleStr_1 [], fmt checkStyleStr_2 []⟩], refMap)
  | some [] => ([⟨fmt checkStyleStr_0 [], 0, fmt checkStyleStr_1 [], fmt checkStyleStr_2 []⟩], refMap)
  | some lm =>
    if (match errors with | some (_ :: _) => true | _ => false) then
      ([⟨fmt checkStyleStr_3 [], 0, fmt checkStyleStr_4 [], fmt checkStyleStr_5 []⟩], refMap)
    else
      let (refMap', msgs) := styleLoop lm refMap []
      let msgs := (dictKeys refMap').foldl (fun acc prop => fmt checkStyleStr_8 [prop] :: acc) msgs
      (if msgs.isEmpty then [] else
        [⟨fmt checkStyleStr_9 [], 0, join (fmt checkStyleStr_10 []) msgs, fmt checkStyleStr_11 []⟩], refMap')

/-- `list(CSSCheckMixin().maybe_style(ref_value, l10n_value))` -/
def maybeStyle (refValue l10nValue : Str) : List Out :=
  match (parseCssSpec refValue).1 with
  | none => []
  | some [] => []          -- `if not ref_map: return` (cannot happen: a returned map is never empty)
  | some rm =>
    let r := parseCssSpec l10nValue
    (checkStyle4 rm r.1 r.2).1

/-- check_style on the SAME ref_map object for a list of localized values (each parsed on its own):
    yielded tuples per call, and the map that is left -/
def styleSeq : CssMap → List Str → List (List Out) × CssMap
  | rm, [] => ([], rm)
  | rm, v :: rest =>
    let r := parseCssSpec v
    let (outs, rm') := checkStyle4 rm r.1 r.2
    let (more, final) := styleSeq rm' rest
    (outs :: more, final)

/-! ### FluentEntity.equals -/

def VKey.eqv : VKey → VKey → Bool := VKey.equals

def NamedArg.eqv (a b : NamedArg) : Bool := a.name == b.name && a.isNum == b.isNum && a.value == b.value

def namedEqv : List NamedArg → List NamedArg → Bool
  | [], [] => true
  | a :: r, b :: s => a.eqv b && namedEqv r s
  | _, _ => false

def optStrEq : Option Str → Option Str → Bool
  | none, none => true
  | some a, some b => a == b
  | _, _ => false

mutual
  /-- `BaseNode.equals(other, ignored_fields=[…, "span"])`: same node type, every other field equal, lists
      item by item after a length check -/
  def Pattern.eqv : Pattern → Pattern → Bool
    | .mk _ e1, .mk _ e2 => elemsEqv e1 e2
  def elemsEqv : List Elem → List Elem → Bool
    | [], [] => true
    | a :: r, b :: s => Elem.eqv a b && elemsEqv r s
    | _, _ => false
  def Elem.eqv : Elem → Elem → Bool
    | .text a, .text b => a == b
    | .placeable a, .placeable b => Expr.eqv a b
    | _, _ => false
  def Expr.eqv : Expr → Expr → Bool
    | .strLit a, .strLit b => a == b
    | .numLit a, .numLit b => a == b
    | .msgRef _ i a, .msgRef _ j b => i == j && optStrEq a b
    | .termRef _ i a x, .termRef _ j b y => i == j && optStrEq a b && optArgsEqv x y
    | .varRef a, .varRef b => a == b
    | .funRef i x, .funRef j y => i == j && CallArgs.eqv x y
    | .select s1 v1, .select s2 v2 => Expr.eqv s1 s2 && variantsEqv v1 v2
    | .placeable a, .placeable b => Expr.eqv a b
    | _, _ => false
  def optArgsEqv : Option CallArgs → Option CallArgs → Bool
    | none, none => true
    | some a, some b => CallArgs.eqv a b
    | _, _ => false
  def variantsEqv : List Variant → List Variant → Bool
    | [], [] => true
    | a :: r, b :: s => Variant.eqv a b && variantsEqv r s
    | _, _ => false
  def Variant.eqv : Variant → Variant → Bool
    | .mk k1 p1 d1, .mk k2 p2 d2 => VKey.eqv k1 k2 && Pattern.eqv p1 p2 && d1 == d2
  def CallArgs.eqv : CallArgs → CallArgs → Bool
    | .mk p1 n1, .mk p2 n2 => exprsEqv p1 p2 && namedEqv n1 n2
  def exprsEqv : List Expr → List Expr → Bool
    | [], [] => true
    | a :: r, b :: s => Expr.eqv a b && exprsEqv r s
    | _, _ => false
end

def optPatternEqv : Option Pattern → Option Pattern → Bool
  | none, none => true
  | some a, some b => a.eqv b
  | _, _ => false

def Attribute.eqv (a b : Attribute) : Bool := a.name == b.name && a.value.eqv b.value

def attrsEqv : List Attribute → List Attribute → Bool
  | [], [] => true
  | a :: r, b :: s => a.eqv b && attrsEqv r s
  | _, _ => false

def Entry.id : Entry → Str
  | .message m => m.id
  | .term t => t.id
def Entry.value : Entry → Option Pattern
  | .message m => m.value
  | .term t => some t.value
def Entry.attributes : Entry → List Attribute
  | .message m => m.attributes
  | .term t => t.attributes

/-- `selfEntity.equals(otherEntity)`: `self.entry.equals(other.entry, ignored_fields=self.ignored_fields)`.
    FluentMessage ignores comment and span, FluentTerm also attributes.  `BaseNode.equals` compares the
    FIELDS only (Message and Term have the same field names), not the node type of the entry itself. -/
def entityEquals (self other : Entry) : Bool :=
  self.id == other.id && optPatternEqv self.value other.value &&
    (match self with
     | .term _ => true
     | .message _ => attrsEqv self.attributes other.attributes)

/-! ### one FluentChecker instance over a sequence of calls -/

/-- the attributes of a `FluentChecker` object (`Checker.__init__`): nothing else is ever stored on it.
    (`_css_spec` / `_css_sep` are cached on the VISITOR objects, which `check_message` creates per call.) -/
structure Checker where
  locale : Option Str
  /-- `extra_tests` is None for Fluent files in every caller; kept to make the state complete -/
  extraTests : Option (List Str)
  /-- `set_reference(reference)`: keys of the reference entities -/
  reference : Option (List Str)
  deriving Repr, DecidableEq

/-- `getChecker(File(…, locale=L), extra_tests=None)` -/
def Checker.new (locale : Option Str) : Checker := ⟨locale, none, none⟩

inductive Action where
  | setRef (keys : List Str)
  | case (key all : Str) (ref l10n : Entry)

/-- one method call on the instance: its result (for `check`) and the instance afterwards -/
def Checker.step (c : Checker) : Action → Option (Except Unit (List Out)) × Checker
  | .setRef keys => (none, { c with reference := some keys })
  | .case key all ref l10n => (some (check c.locale key all ref l10n), c)      -- `check` reads `self.locale` only

/-- a sequence of calls on ONE instance: results of the `check` calls in order, and the instance at the end -/
def Checker.run (c : Checker) : List Action → List (Except Unit (List Out)) × Checker
  | [] => ([], c)
  | a :: rest =>
    let (r, c') := c.step a
    let (rs, cf) := c'.run rest
    (match r with | some x => x :: rs | none => rs, cf)

end Ftl

/-
Model of compare_locales.checks.android (AndroidChecker.check, check_string, not_translatable,
no_at_string, non_simple_data, check_apostrophes, get_params, check_params) and of the two
pieces of compare_locales.parser.android it relies on (textContent, the `val`/`all` an
AndroidEntity is created with).  Core Lean only.

The minidom node is an INPUT of the model (external library): node name, the value of the
`translatable` attribute if present, the child list by node type (text / CDATA / anything else)
and `node.toxml()` as the library produced it.
Regexes and string constants come from `Gen.*` (regenerated from /repo on every run).
-/
import CLModel.Rx.Basic
import CLModel.Gen.Regexes
import CLModel.Gen.Tables
namespace Android
open Rx

/-! ## the DOM node as the checker sees it -/

inductive Child where
  | text (data : List Nat)      -- Node.TEXT_NODE
  | cdata (data : List Nat)     -- Node.CDATA_SECTION_NODE
  | other                       -- element, comment, processing instruction, ...
  deriving Repr, DecidableEq, Inhabited

def Child.isCdata : Child → Bool
  | .cdata _ => true
  | _ => false

def Child.isText : Child → Bool
  | .text _ => true
  | _ => false

structure Node where
  name : List Nat                      -- node.nodeName
  translatable : Option (List Nat)     -- value of the attribute `translatable`, if present
  children : List Child                -- node.childNodes
  xml : List Nat                       -- node.toxml()   (external)
  deriving Repr, DecidableEq, Inhabited

/-- what `AndroidChecker.check` reads of an AndroidEntity -/
structure Entity where
  node : Node
  val : List Nat        -- Entity.val  (= raw_val = the `raw_val` constructor argument)
  all : List Nat        -- Entity.all
  deriving Repr, DecidableEq, Inhabited

/-- data of the first CDATA child (`for child in node.childNodes: if CDATA: return child.data`) -/
def firstCdata : List Child → Option (List Nat)
  | [] => none
  | .cdata d :: _ => some d
  | _ :: rest => firstCdata rest

/-- parser/android.py `textContent` -/
def textContent (n : Node) : List Nat :=
  if n.children.length == 0 then [] else
  match firstCdata n.children with
  | some d => d
  | none =>
    match n.children with
    | [.text d] => d
    | _ => n.xml        -- "Return something, we'll fail in checks on this"

/-- `AndroidParser.handleElement` for a `<string name=…>` element: `raw_val = textContent(element)`,
    `all = pre_comment.all + inner_white.all + element.toxml()`; `pre` is the text of the attached
    comment and white-space (empty if there is none). -/
def mkEntity (n : Node) (pre : List Nat) : Entity :=
  { node := n, val := textContent n, all := pre ++ n.xml }

/-! ## results -/

inductive Sev | error | warning
  deriving Repr, DecidableEq, Inhabited

inductive Msg where
  | mojibake                                   -- "� in: {key}"            (category encodings)
  | incompatible                               -- "Incompatible resource types"
  | unsupported                                -- "Unsupported resource type"
  | notTranslatable                            -- "strings must be translatable"
  | notPlain                                   -- "Only plain text allowed, or one CDATA surrounded by whitespace"
  | doubleQuotes                               -- "Double straight quotes not allowed"
  | apostrophe                                 -- "Apostrophe must be escaped"
  | conflict (order : Nat) (f1 f2 : List Nat)  -- "Conflicting formatting, %{order}${f1} vs %{order}${f2}"
  | notInRef (order : Nat) (f : List Nat)      -- "Formatter %{order}${f} not found in reference"
  | mismatch                                   -- "Mismatching formatter"
  | notInL10n (order : Nat) (f : List Nat)     -- "Formatter %{order}${f} not found in translation"
  | countMismatch                              -- "Formatter count mismatch"
  deriving Repr, DecidableEq, Inhabited

structure Result where
  sev : Sev
  pos : Nat
  msg : Msg
  deriving Repr, DecidableEq, Inhabited

def err (pos : Nat) (m : Msg) : Result := ⟨.error, pos, m⟩
def warn (pos : Nat) (m : Msg) : Result := ⟨.warning, pos, m⟩

/-! ## small Python helpers -/

/-- `contents[a:b]` -/
def slice (s : Array Nat) (a b : Nat) : List Nat := (s.extract a b).toList

/-- `str.strip()` (Python white-space = the `\s` class of `re` for str patterns) -/
def strip (l : List Nat) : List Nat :=
  ((l.dropWhile isSpace).reverse.dropWhile isSpace).reverse

/-- `int(c)` for one ASCII digit.  `none` stands for everything else (other Unicode digits,
    ValueError); it is not reachable because `order` matched `[1-9]\$` (theorem `lexParams_total`). -/
def intDigit? (c : Nat) : Option Nat := if 48 ≤ c && c ≤ 57 then some (c - 48) else none

/-- dict lookup in an insertion-ordered dict -/
def dget {β : Type} (d : List (Nat × β)) (k : Nat) : Option β :=
  match d.find? (fun p => p.1 == k) with
  | some p => some p.2
  | none => none

/-! ## checks/base.py Checker.check : encoding errors -/

def baseCheck (l10n : Entity) : List Result :=
  (finditer l10n.all.toArray Gen.Pat.checks_base_mochibake).map (fun m => warn m.1 .mojibake)

/-! ## not_translatable, no_at_string, non_simple_data -/

/-- `any(node.hasAttribute("translatable") and node.getAttribute("translatable") == "false" …)` -/
def notTranslatable (nodes : List Node) : Bool :=
  nodes.any (fun n => n.translatable.isSome && n.translatable == some Gen.Tables.android_translatable_false)

/-- `any(textContent(node).startswith("@string/") …)` -/
def noAtString (nodes : List Node) : Bool :=
  nodes.any (fun n => Gen.Tables.android_at_prefix.isPrefixOf (textContent n))

/-- `non_simple_data`.  In the last branch there is exactly one CDATA child, so
    `child == cdata[0]` (node identity) holds exactly for the CDATA child. -/
def nonSimpleData (n : Node) : Bool :=
  let cdata := n.children.filter (·.isCdata)
  if cdata.length == 0 then
    match n.children with
    | [] => false                 -- empty translation is OK
    | [c] => !c.isText
    | _ => true                   -- childNodes.length != 1
  else if cdata.length > 1 then true
  else
    n.children.any (fun c =>
      match c with
      | .cdata _ => false
      | .text d => strip d != []
      | .other => true)

/-! ## check_apostrophes -/

def checkApostrophes (string : List Nat) : List Result :=
  -- re.finditer('""', re.sub(r"\\.", "  ", string)): escapes are blanked out first, offsets kept
  let blanked := subWith string.toArray Gen.Pat.checks_android_check_apostrophes_1
    (fun _ _ => Gen.Tables.android_escape_repl)
  let r1 := (finditer blanked.toArray Gen.Pat.checks_android_check_apostrophes_0).map
    (fun m => err m.1 .doubleQuotes)
  let silenced := subWith string.toArray Gen.Pat.checks_android_silencer
    (fun _ _ => Gen.Tables.android_silence_repl)
  let isQuoted := Gen.Tables.android_quote_start.isPrefixOf silenced
    && Gen.Tables.android_quote_end.isSuffixOf silenced
  let r2 := if !isQuoted then
      (finditer silenced.toArray Gen.Pat.checks_android_check_apostrophes_2).map
        (fun m => err m.1 .apostrophe)
    else []
  r1 ++ r2

/-! ## get_params -/

/-- one match of the printf regex: start, explicit position (`int(order[0])`) and format text -/
structure Tok where
  pos : Nat
  order : Option Nat
  fmt : List Nat
  deriving Repr, DecidableEq, Inhabited

/-- `m.group("order")`, `m.group("format")` of one match.  `none` = outside the modelled behaviour
    (format group absent, `int()` raising); unreachable by `lexParams_total`. -/
def tokOf (s : Array Nat) (m : Nat × St) : Option Tok :=
  match m.2.group Gen.Pat.checks_android_get_params_0_g_format with
  | none => none
  | some (fa, fb) =>
    match m.2.group Gen.Pat.checks_android_get_params_0_g_order with
    | none => some ⟨m.1, none, slice s fa fb⟩
    | some (oa, ob) =>
      match slice s oa ob with
      | [] => some ⟨m.1, none, slice s fa fb⟩          -- `if order:` is false for ""
      | c :: _ => (intDigit? c).map (fun o => ⟨m.1, some o, slice s fa fb⟩)

/-- all printf matches of a string, in order -/
def lexParams (s : List Nat) : Option (List Tok) :=
  (finditer s.toArray Gen.Pat.checks_android_get_params_0).mapM (tokOf s.toArray)

/-- local state of `get_params` -/
structure PState where
  params : List (Nat × List Nat)      -- dict position -> format, insertion ordered
  errors : List (Msg × Nat)
  count : Nat
  next : Nat                          -- next_implicit
  deriving Repr, DecidableEq, Inhabited

def PState.init : PState := ⟨[], [], 0, 1⟩

/-- body of the `for m in re.finditer(...)` loop -/
def stepTok (st : PState) (t : Tok) : PState :=
  let count := st.count + 1
  let on : Nat × Nat := match t.order with
    | some o => (o, st.next)
    | none => (st.next, st.next + 1)
  match dget st.params on.1 with
  | none => { params := st.params ++ [(on.1, t.fmt)], errors := st.errors, count := count, next := on.2 }
  | some f =>
    if f == t.fmt then { st with count := count, next := on.2 }
    else { st with errors := st.errors ++ [(.conflict on.1 t.fmt f, t.pos)], count := count, next := on.2 }

/-- an element of `refs`: a minidom node or a plain string -/
inductive RefArg where
  | node (n : Node)
  | str (s : List Nat)

def RefArg.text : RefArg → List Nat
  | .node n => textContent n
  | .str s => s

def getParams (refs : List RefArg) : Option PState :=
  refs.foldlM (fun st r => (lexParams r.text).map (fun ts => ts.foldl stepTok st)) PState.init

/-! ## check_params -/

def insertKey (p : Nat × List Nat) : List (Nat × List Nat) → List (Nat × List Nat)
  | [] => [p]
  | q :: rest => if p.1 ≤ q.1 then p :: q :: rest else q :: insertKey p rest

/-- `sorted(lparams)` (keys of a dict are distinct), keeping the values alongside -/
def sortKeys (l : List (Nat × List Nat)) : List (Nat × List Nat) := l.foldr insertKey []

def checkParams (params : List (Nat × List Nat)) (count : Nat) (string : List Nat) : Option (List Result) :=
  match getParams [.str string] with
  | none => none
  | some l =>
    let r1 := l.errors.map (fun e => err e.2 e.1)
    let sorted := sortKeys l.params
    let r2 := sorted.filterMap (fun p =>
      match dget params p.1 with
      | none => some (err 0 (.notInRef p.1 p.2))
      | some rf => if rf != p.2 then some (err 0 .mismatch) else none)
    let r3 := params.filterMap (fun p =>
      if !(sorted.map (·.1)).contains p.1 then some (warn 0 (.notInL10n p.1 p.2)) else none)
    -- has_errors is set exactly when one of the three loops yields
    let hasErrors := !r1.isEmpty || !r2.isEmpty || !r3.isEmpty
    let r4 := if !hasErrors && count != l.count then [warn 0 .countMismatch] else []
    some (r1 ++ r2 ++ r3 ++ r4)

/-! ## check_string, check -/

def checkString (refs : List Node) (l10n : Entity) : Option (List Result) :=
  if notTranslatable (l10n.node :: refs) then some [err 0 .notTranslatable] else
  if noAtString [l10n.node] then some [err 0 .notTranslatable] else
  let w := if noAtString refs then [warn 0 .notTranslatable] else []
  if nonSimpleData l10n.node then some (w ++ [err 0 .notPlain]) else
  let a := checkApostrophes l10n.val
  match getParams (refs.map .node) with
  | none => none
  | some p =>
    let e := p.errors.map (fun x => warn x.2 x.1)
    match checkParams p.params p.count l10n.val with
    | none => none
    | some c => some (w ++ a ++ e ++ c)

/-- `AndroidChecker.check`; `none` = outside the modelled behaviour (never, see `check_total`) -/
def check (ref l10n : Entity) : Option (List Result) :=
  let r0 := baseCheck l10n
  if ref.node.name != l10n.node.name then some (r0 ++ [err 0 .incompatible]) else
  if ref.node.name != Gen.Tables.android_string_tag then some (r0 ++ [warn 0 .unsupported]) else
  (checkString [ref.node] l10n).map (r0 ++ ·)

def hasError (rs : List Result) : Bool := rs.any (·.sev == .error)

end Android

/-
`DTDChecker.unicode_escape` with `\N{name}` escapes (round 4).

`Dtd.ueScan` gives up (`unsupported`) at a well-formed `\N{name}`: CPython's unicode-escape decoder asks the Unicode
name database there.  Here the database is a parameter (`known`: is this the name of a single character?), so that
the model answers everywhere: a known name is one decoded character, an unknown one is the error
"unknown Unicode character name" at the counter of its backslash.  Everything else is `Dtd.ueScan`, branch by branch.
Core Lean only.
-/
import CLModel.Checks.Dtd
namespace DtdNamed
open Dtd

def msgUnknownName : Text :=
  [117, 110, 107, 110, 111, 119, 110, 32, 85, 110, 105, 99, 111, 100, 101, 32, 99, 104, 97, 114, 97, 99, 116, 101, 114, 32, 110, 97, 109, 101]

def ueScanN (known : Bytes → Bool) : Nat → Nat → Bytes → UE
  | 0, _, _ => .fine
  | _, _, [] => .fine
  | fuel + 1, n, c :: rest =>
    if c != 92 then ueScanN known fuel (n + 1) rest else
    match rest with
    | [] => .error n msgEndOfString
    | e :: rest' =>
      if e == 10 then ueScanN known fuel n rest'
      else if e == 92 || e == 39 || e == 34 || e == 98 || e == 102 || e == 116 || e == 110 || e == 114
              || e == 118 || e == 97 then ueScanN known fuel (n + 1) rest'
      else if isOct e then
        let r1 := match rest' with
          | d :: r => if isOct d then (match r with | d2 :: r2 => if isOct d2 then r2 else r | [] => r) else rest'
          | [] => rest'
        ueScanN known fuel (n + 1) r1
      else if e == 120 then
        (match ueHex 2 rest' with
         | some (some r) => ueScanN known fuel (n + 1) r | some none => .error n msgIllegal | none => .error n msgTruncX)
      else if e == 117 then
        (match ueHex 4 rest' with
         | some (some r) => ueScanN known fuel (n + 1) r | some none => .error n msgIllegal | none => .error n msgTruncU4)
      else if e == 85 then
        (match ueHex 8 rest' with
         | some (some r) => ueScanN known fuel (n + 1) r | some none => .error n msgIllegal | none => .error n msgTruncU8)
      else if e == 78 then
        (match rest' with
         | 123 :: r =>
           let name := r.takeWhile (· != 125)
           if name.length < r.length && !name.isEmpty then
             (if known name then ueScanN known fuel (n + 1) (r.drop (name.length + 1)) else .error n msgUnknownName)
           else .error n msgMalformedN
         | _ => .error n msgMalformedN)
      else ueScanN known fuel (n + 2) rest'

/-- `unicode_escape(val)` with the name database `known` -/
def unicodeEscapeN (known : Bytes → Bool) (val : Text) : Option UE :=
  (backslashReplace val).map (fun b => ueScanN known (b.length + 1) 0 b)

end DtdNamed

/-
ValueGrammar — an inductive grammar of localized values that are well-formed by construction
(text, entity references, character references, elements with attributes, comments, CDATA
sections, processing instructions), and the fixed set of well-formedness-breaking edits.
Specification only (used by the C07 theorems).  Core Lean only.
-/
import CLModel.Checks.XmlContent
namespace XmlContent

/-- XML `Name` -/
def isName : Text → Bool
  | [] => false
  | c :: cs => isNameStart c && cs.all isNameChar

/-- character data that needs no look-ahead: any `Char` but `&`, `<` and `]` -/
def isTextChar (c : Nat) : Bool := isXmlChar c && c != 38 && c != 60 && c != 93

/-- the automaton's running value of a decimal character reference -/
def decAcc (n : Nat) (ds : Text) : Nat := ds.foldl (fun n c => min (n * 10 + (c - 48)) 0x110000) n

/-- the automaton's running value of a hexadecimal character reference -/
def hexAcc (n : Nat) (hs : Text) : Nat :=
  hs.foldl (fun n c => match hexVal c with | some d => min (n * 16 + d) 0x110000 | none => n) n

/-- a reference: `&name;` to a declared or predefined entity, `&#n;`, `&#xh;` to a legal character -/
inductive RefText (d : List Text) : Text → Prop
  | ent (n : Text) : isName n = true → (d.contains n || predefined.contains n) = true →
      RefText d (38 :: n ++ [59])
  | dec (d0 : Nat) (ds : Text) : isDigit d0 = true → ds.all isDigit = true → crOk (decAcc (d0 - 48) ds) = true →
      RefText d (38 :: 35 :: d0 :: ds ++ [59])
  | hex (h0 x0 : Nat) (hs : Text) : hexVal h0 = some x0 → hs.all (fun c => (hexVal c).isSome) = true →
      crOk (hexAcc x0 hs) = true → RefText d (38 :: 35 :: 120 :: h0 :: hs ++ [59])

/-- attribute value between quotes `q`: characters other than `<`, `&`, the quote; references -/
inductive AttrValText (d : List Text) (q : Nat) : Text → Prop
  | nil : AttrValText d q []
  | char (c : Nat) (v : Text) : isXmlChar c = true → c ≠ 60 → c ≠ 38 → c ≠ q → AttrValText d q v →
      AttrValText d q (c :: v)
  | ref (r v : Text) : RefText d r → AttrValText d q v → AttrValText d q (r ++ v)

/-- attribute specifications `S+ name S* = S* q value q`, names pairwise distinct (`seen` = names so far) -/
inductive AttrsText (d : List Text) : List Text → Text → List Text → Prop
  | nil (seen : List Text) : AttrsText d seen [] seen
  | cons (seen : List Text) (a : Text) (s0 : Nat) (ws1 ws2 ws3 : Text) (q : Nat) (val rest : Text)
      (seen' : List Text) :
      isS s0 = true → ws1.all isS = true → ws2.all isS = true → ws3.all isS = true →
      isName a = true → seen.contains a = false → (q = 34 ∨ q = 39) →
      AttrValText d q val → AttrsText d (a :: seen) rest seen' →
      AttrsText d seen (s0 :: ws1 ++ a ++ ws2 ++ [61] ++ ws3 ++ [q] ++ val ++ [q] ++ rest) seen'

/-- comment body: no `--`, not ending in `-` (`dash` = the previous character was `-`) -/
def commentOk : Bool → Text → Bool
  | dash, [] => !dash
  | dash, c :: cs => if c == 45 then !dash && commentOk true cs else isXmlChar c && commentOk false cs

/-- CDATA body: no `]]>` (`br` = number of immediately preceding `]`, capped at 2) -/
def cdataOk : Nat → Text → Bool
  | _, [] => true
  | br, c :: cs =>
    if c == 93 then cdataOk (if br ≥ 1 then 2 else 1) cs
    else isXmlChar c && !(c == 62 && br ≥ 2) && cdataOk 0 cs

/-- processing-instruction data: no `?>` (`q` = the previous character was `?`) -/
def piOk : Bool → Text → Bool
  | _, [] => true
  | q, c :: cs =>
    if c == 63 then piOk true cs
    else isXmlChar c && !(c == 62 && q) && piOk false cs

/-- localized values that are well-formed by construction; every production is one item followed
    by the rest of the value -/
inductive ValueGrammar (d : List Text) : Text → Prop
  | nil : ValueGrammar d []
  | text (c : Nat) (v : Text) : isTextChar c = true → ValueGrammar d v → ValueGrammar d (c :: v)
  | ref (r v : Text) : RefText d r → ValueGrammar d v → ValueGrammar d (r ++ v)
  | elem (n attrs ws ws' body v : Text) (seen' : List Text) :
      isName n = true → AttrsText d [] attrs seen' → ws.all isS = true → ws'.all isS = true →
      ValueGrammar d body → ValueGrammar d v →
      ValueGrammar d (60 :: n ++ attrs ++ ws ++ [62] ++ body ++ [60, 47] ++ n ++ ws' ++ [62] ++ v)
  | empty (n attrs ws v : Text) (seen' : List Text) :
      isName n = true → AttrsText d [] attrs seen' → ws.all isS = true → ValueGrammar d v →
      ValueGrammar d (60 :: n ++ attrs ++ ws ++ [47, 62] ++ v)
  | comment (body v : Text) : commentOk false body = true → ValueGrammar d v →
      ValueGrammar d ([60, 33, 45, 45] ++ body ++ [45, 45, 62] ++ v)
  | cdata (body v : Text) : cdataOk 0 body = true → ValueGrammar d v →
      ValueGrammar d ([60, 33, 91, 67, 68, 65, 84, 65, 91] ++ body ++ [93, 93, 62] ++ v)
  | pi (target : Text) (v : Text) : isName target = true → isXmlTarget target = false → ValueGrammar d v →
      ValueGrammar d ([60, 63] ++ target ++ [63, 62] ++ v)
  | piData (target : Text) (s : Nat) (body v : Text) : isName target = true → isXmlTarget target = false →
      isS s = true → piOk false body = true → ValueGrammar d v →
      ValueGrammar d ([60, 63] ++ target ++ s :: body ++ [63, 62] ++ v)

/-- the breaking edits, relative to the stack of open elements at the position where they are inserted -/
inductive BreakingEdit (stk : List Text) : Text → Prop
  /-- `&` followed by something that can start neither a name nor a character reference -/
  | bareAmp (c : Nat) : c ≠ 35 → isNameStart c = false → BreakingEdit stk [38, c]
  /-- `<` followed by something that can start no markup -/
  | bareLt (c : Nat) : c ≠ 47 → c ≠ 33 → c ≠ 63 → isNameStart c = false → BreakingEdit stk [60, c]
  /-- `&name` not followed by `;` -/
  | unterminatedRef (n : Text) (c : Nat) : isName n = true → isNameChar c = false → c ≠ 59 →
      BreakingEdit stk (38 :: n ++ [c])
  /-- `&#digits` not followed by `;` -/
  | unterminatedCharRef (d0 : Nat) (ds : Text) (c : Nat) : isDigit d0 = true → ds.all isDigit = true →
      isDigit c = false → c ≠ 59 → BreakingEdit stk (38 :: 35 :: d0 :: ds ++ [c])
  /-- an end tag that does not close the innermost open element -/
  | strayClose (n ws : Text) : isName n = true → ws.all isS = true → stk.head? ≠ some n →
      BreakingEdit stk ([60, 47] ++ n ++ ws ++ [62])
  /-- `<a><b></a>` : mis-nested -/
  | misnested (a b : Text) : isName a = true → isName b = true → a ≠ b →
      BreakingEdit stk ((60 :: a ++ [62]) ++ (60 :: b ++ [62]) ++ ([60, 47] ++ a ++ [62]))

/-- prefixes of grammar values cut at an item boundary at any nesting depth, with the names of the
    elements that are open at the cut (innermost first) -/
inductive ContentPrefix (d : List Text) : Text → List Text → Prop
  | nil : ContentPrefix d [] []
  | items (p a : Text) (stk : List Text) : ContentPrefix d p stk → ValueGrammar d a → ContentPrefix d (p ++ a) stk
  | enter (p n attrs ws : Text) (stk seen' : List Text) : ContentPrefix d p stk → isName n = true →
      AttrsText d [] attrs seen' → ws.all isS = true →
      ContentPrefix d (p ++ (60 :: n ++ attrs ++ ws ++ [62])) (n :: stk)

/-- `s` is a content position of the automaton: character data may start here -/
def St.atContent (s : St) : Bool :=
  match s.mode with
  | .content _ => true
  | _ => false

end XmlContent

/-
Model of compare_locales.parser.android: the entity classes (AndroidEntity, NodeMixin /
XMLWhitespace / XMLComment / DocumentWrapper, XMLJunk: `all`, `key`, `raw_val`, `val`, `position`,
`value_position`), `textContent`, `normalize`, `AndroidParser.walk`, `handleElement`, `handleComment`.
Core Lean only (linked into `cldriver`).

INPUT of the model (external library): what `xml.dom.minidom.parseString(contents.encode("utf-8"))`
returned — either "it raised" or the DOM tree as a NODE SUMMARY (`DNode`): for every node its type and
the data minidom stores (element: nodeName, the attribute list in `_attrs` order = the order of both
`attributes.items()` and `writexml`, the child list; text / CDATA / comment: data; processing
instruction: target, data; document type: name, publicId, systemId, internalSubset).
`Node.toxml()` is modelled (`DNode.toxml?`, Python 3.12 `writexml` with empty indent / newl) and tied by its own
correspondence op, so that every text the parser stores is a function of the node summary.

String constants come from `Gen.TablesAndroid` / `Gen.Tables` (regenerated from /repo on every run), the
`NEWLINE` regex from `Gen.Pat`.
-/
import CLModel.Checks.Android
import CLModel.Gen.TablesAndroid
namespace AndroidP
open Rx

/-! ## the DOM as minidom hands it over -/

inductive DNode where
  | element (name : List Nat) (attrs : List (List Nat × List Nat)) (children : List DNode)
  | text (data : List Nat)                   -- Node.TEXT_NODE
  | cdata (data : List Nat)                  -- Node.CDATA_SECTION_NODE
  | comment (data : List Nat)                -- Node.COMMENT_NODE
  | pi (target data : List Nat)              -- Node.PROCESSING_INSTRUCTION_NODE
  | doctype (name pub : List Nat) (sys : Option (List Nat)) (subset : Option (List Nat))
  deriving Repr, Inhabited

def DNode.isElement : DNode → Bool
  | .element .. => true
  | _ => false

def DNode.isComment : DNode → Bool
  | .comment _ => true
  | _ => false

/-- `node.nodeType in (Node.TEXT_NODE, Node.CDATA_SECTION_NODE)` -/
def DNode.isTextLike : DNode → Bool
  | .text _ => true
  | .cdata _ => true
  | _ => false

/-! ## `Node.toxml()`  (external: xml.dom.minidom of CPython 3.12, `writexml` with indent = newl = "") -/

/-- `sub in s` for Python strings -/
def containsSub (needle : List Nat) : List Nat → Bool
  | [] => needle.isEmpty
  | c :: rest => needle.isPrefixOf (c :: rest) || containsSub needle rest

/-- `_write_data`: `& < " >` are replaced, `&` first (so the replacements do not interact) -/
def escapeData (d : List Nat) : List Nat :=
  d.flatMap (fun c =>
    if c == 38 then [38, 97, 109, 112, 59]            -- &amp;
    else if c == 60 then [38, 108, 116, 59]           -- &lt;
    else if c == 34 then [38, 113, 117, 111, 116, 59] -- &quot;
    else if c == 62 then [38, 103, 116, 59]           -- &gt;
    else [c])

def writeAttrs : List (List Nat × List Nat) → List Nat
  | [] => []
  | (n, v) :: rest => [32] ++ n ++ [61, 34] ++ escapeData v ++ [34] ++ writeAttrs rest

mutual
/-- the text `writexml` writes, ignoring the two `ValueError` guards -/
def DNode.toxml : DNode → List Nat
  | .element name attrs children =>
    [60] ++ name ++ writeAttrs attrs ++
      (match children with
       | [] => [47, 62]                                                    -- "/>"
       | c :: cs => [62] ++ toxmlList (c :: cs) ++ [60, 47] ++ name ++ [62])
  | .text d => escapeData d
  | .cdata d => [60, 33, 91, 67, 68, 65, 84, 65, 91] ++ d ++ [93, 93, 62]   -- <![CDATA[ … ]]>
  | .comment d => [60, 33, 45, 45] ++ d ++ [45, 45, 62]                     -- <!-- … -->
  | .pi t d => [60, 63] ++ t ++ [32] ++ d ++ [63, 62]                       -- <?t d?>
  | .doctype name pub sys subset =>
    -- "<!DOCTYPE " name ["  PUBLIC 'pub'  'sys'" | "  SYSTEM 'sys'"] [" [" subset "]"] ">"
    [60, 33, 68, 79, 67, 84, 89, 80, 69, 32] ++ name ++
    (if !pub.isEmpty then
       [32, 32, 80, 85, 66, 76, 73, 67, 32, 39] ++ pub ++ [39, 32, 32, 39] ++
         (match sys with | some s => s | none => [78, 111, 110, 101]) ++ [39]      -- '%s' % None
     else match sys with
       | some s => if !s.isEmpty then [32, 32, 83, 89, 83, 84, 69, 77, 32, 39] ++ s ++ [39] else []
       | none => []) ++
    (match subset with
     | some s => [32, 91] ++ s ++ [93]
     | none => []) ++ [62]
def toxmlList : List DNode → List Nat
  | [] => []
  | c :: cs => c.toxml ++ toxmlList cs
end

mutual
/-- no `ValueError` while writing: no `]]>` inside a CDATA section, no `--` inside a comment -/
def DNode.printable : DNode → Bool
  | .element _ _ children => printableList children
  | .cdata d => !containsSub [93, 93, 62] d
  | .comment d => !containsSub [45, 45] d
  | _ => true
def printableList : List DNode → Bool
  | [] => true
  | c :: cs => c.printable && printableList cs
end

/-- `node.toxml()`; `none` = it raises ValueError (never for a tree that came out of the XML parser) -/
def DNode.toxml? (n : DNode) : Option (List Nat) := if n.printable then some n.toxml else none

/-- `"".join(c.toxml() for c in nodes)` -/
def toxmlList? (l : List DNode) : Option (List Nat) := if printableList l then some (toxmlList l) else none

/-- `Document.toxml()`: `<?xml version="1.0" ?>` and the children -/
def docToxml? (children : List DNode) : Option (List Nat) :=
  (toxmlList? children).map
    ([60, 63, 120, 109, 108, 32, 118, 101, 114, 115, 105, 111, 110, 61, 34, 49, 46, 48, 34, 32, 63, 62] ++ ·)

/-! ## the entity classes -/

/-- the two literals of a `NodeMixin` object: `(all, value)` -/
structure Lit where
  all : List Nat
  val : List Nat
  deriving Repr, DecidableEq, Inhabited

inductive Entry where
  /-- `DocumentWrapper(key, all)`: `_val_literal = all` -/
  | wrapper (key all : List Nat)
  /-- `XMLWhitespace(all, value)` -/
  | white (w : Lit)
  /-- `XMLComment(all, value)` -/
  | comment (c : Lit)
  /-- `AndroidEntity(ctx, pre_comment, white_space, node, all, key, raw_val, val)` -/
  | entity (pre : Option Lit) (inner : Option Lit) (node : DNode) (allLit key rawVal valLit : List Nat)
  /-- `XMLJunk(all)` -/
  | junk (all : List Nat)
  deriving Repr, Inhabited

def optAll : Option Lit → List Nat
  | some l => l.all
  | none => []

/-- the `all` property of each class (AndroidEntity.all joins pre_comment.all, inner_white.all and the literal) -/
def Entry.all : Entry → List Nat
  | .wrapper _ a => a
  | .white w => w.all
  | .comment c => c.all
  | .entity pre inner _ a _ _ _ => optAll pre ++ optAll inner ++ a
  | .junk a => a

/-- the `key` property: NodeMixin.key = `_all_literal`, XMLComment.key = None, DocumentWrapper.key and
    AndroidEntity.key = the key literal.  A junk's key contains a process-wide counter (`junkKey`). -/
def Entry.key? : Entry → Option (List Nat)
  | .wrapper k _ => some k
  | .white w => some w.all
  | .comment _ => none
  | .entity _ _ _ _ k _ _ => some k
  | .junk _ => none

/-- `raw_val` (NodeMixin: `_val_literal`; AndroidEntity: the `raw_val` literal; Junk.raw_val = all) -/
def Entry.rawVal : Entry → List Nat
  | .wrapper _ a => a
  | .white w => w.val
  | .comment c => c.val
  | .entity _ _ _ _ _ r _ => r
  | .junk a => a

def Entry.isEntity : Entry → Bool
  | .entity .. => true
  | _ => false

def Entry.isJunk : Entry → Bool
  | .junk _ => true
  | _ => false

/-- `position(offset)` and `value_position(offset)` of AndroidEntity, NodeMixin and XMLJunk: all six methods
    are `return (0, offset)`, whatever the sign of the offset -/
def Entry.position (_ : Entry) (offset : Int) : Int × Int := (0, offset)
def Entry.valuePosition (_ : Entry) (offset : Int) : Int × Int := (0, offset)

/-- `Junk.__init__(None, (0, 0))`: `"_junk_%d_%d-%d" % (junkid, 0, 0)` after `junkid += 1`; the decimal
    rendering is left to the adapters, the model gives the counter value -/
def junkCounters (start : Nat) : List Entry → List (Option Nat)
  | [] => []
  | e :: rest => if e.isJunk then some (start + 1) :: junkCounters (start + 1) rest else none :: junkCounters start rest

/-! ## textContent, normalize -/

def toChild : DNode → Android.Child
  | .text d => .text d
  | .cdata d => .cdata d
  | _ => .other

def getAttr? (attrs : List (List Nat × List Nat)) (name : List Nat) : Option (List Nat) :=
  match attrs.find? (fun a => a.1 == name) with
  | some a => some a.2
  | none => none

/-- what the checker model reads of an element: node name, `translatable` attribute, children by type and
    `toxml()` (given, because it can raise) -/
def toNode (name : List Nat) (attrs : List (List Nat × List Nat)) (children : List DNode) (xml : List Nat) :
    Android.Node :=
  { name := name, translatable := getAttr? attrs Gen.Tables.android_translatable_attr,
    children := children.map toChild, xml := xml }

/-- `str.strip(chars)` -/
def stripChars (chars l : List Nat) : List Nat :=
  ((l.dropWhile chars.contains).reverse.dropWhile chars.contains).reverse

/-- `normalize(val)` = `NEWLINE.sub("\n", val.strip(" \t"))` -/
def normalize (v : List Nat) : List Nat :=
  subWith (stripChars Gen.TablesAndroid.strip_chars v).toArray Gen.Pat.parser_android_NEWLINE
    (fun _ _ => Gen.TablesAndroid.newline_repl)

/-- `str.count(needle)`: non-overlapping occurrences, left to right (`len + 1` for the empty needle) -/
def countSub (needle : List Nat) : Nat → List Nat → Nat
  | 0, _ => 0
  | _ + 1, [] => if needle.isEmpty then 1 else 0
  | f + 1, c :: rest =>
    if needle.isEmpty then 1 + countSub needle f rest
    else if needle.isPrefixOf (c :: rest) then 1 + countSub needle f ((c :: rest).drop needle.length)
    else countSub needle f rest

def count (needle hay : List Nat) : Nat := countSub needle (hay.length + 1) hay

/-! ## handleElement -/

/-- `AndroidParser.handleElement(element, current_comment, white_space)`.
    `element.toxml()` is evaluated first; if it does not raise nothing else does.
    `getAttribute` returns "" for a missing attribute (minidom), but here the attribute is present. -/
def handleElement (el : DNode) (cc ws : Option Lit) : Option Entry :=
  match el with
  | .element name attrs children =>
    match el.toxml? with
    | none => none
    | some xml =>
      if name == Gen.TablesAndroid.string_tag && (getAttr? attrs Gen.TablesAndroid.name_attr).isSome then
        let key := match getAttr? attrs Gen.TablesAndroid.name_attr with
          | some v => v
          | none => []
        some (.entity cc ws el xml key (Android.textContent (toNode name attrs children xml)) (toxmlList children))
      else some (.junk xml)
  | _ => none      -- only called for elements

/-! ## handleComment -/

/-- the `while True` loop of `handleComment`.  The list is `root_children[child_num + 1:]` on entry; the result
    is `(all, val, root_children[child_num':])` for the `child_num'` the method returns. -/
def commentLoop (all val : List Nat) : List DNode → Option (List Nat × List Nat × List DNode)
  | [] => some (all, val, [])                                   -- child_num >= len(root_children)
  | .text d :: [] =>
    if count Gen.TablesAndroid.comment_nl d > Gen.TablesAndroid.comment_nl_threshold then some (all, val, [.text d])
    else some (all, val, [])                                    -- white consumed, then the end: it is lost
  | .text d :: .comment c :: rest =>
    if count Gen.TablesAndroid.comment_nl d > Gen.TablesAndroid.comment_nl_threshold then
      some (all, val, .text d :: .comment c :: rest)
    else
      match (DNode.comment c).toxml? with
      | none => none
      | some cx => commentLoop (all ++ (DNode.text d).toxml ++ cx) (val ++ normalize d ++ normalize c) rest
  | .text d :: n :: rest => some (all, val, .text d :: n :: rest)   -- both breaks leave child_num at the text node
  | .comment c :: rest =>
    match (DNode.comment c).toxml? with
    | none => none
    | some cx => commentLoop (all ++ cx) (val ++ normalize c) rest
  | n :: rest => some (all, val, n :: rest)

/-- `handleComment(node, root_children, child_num)` for a comment node with data `c` -/
def handleComment (c : List Nat) (rest : List DNode) : Option (Lit × List DNode) :=
  match (DNode.comment c).toxml? with
  | none => none
  | some cx =>
    match commentLoop cx (normalize c) rest with
    | none => none
    | some (all, val, rem) => some (⟨all, val⟩, rem)

/-! ## walk -/

/-- outcome of one iteration of `while child_num < len(root_children)` -/
inductive Step where
  | stop (out : List Entry)                          -- `break`
  | cont (out : List Entry) (rest : List DNode)      -- next iteration at `root_children[child_num:] = rest`
  deriving Repr, Inhabited

def optEntry (f : Lit → Entry) : Option Lit → List Entry
  | some l => [f l]
  | none => []

/-- unless only_localizable: `yield current_comment` (if any), `yield white_space` (if any) -/
def extras (ol : Bool) (cc ws : Option Lit) : List Entry :=
  if ol then [] else optEntry .comment cc ++ optEntry .white ws

/-- last part of the loop body: `node` is `root_children[child_num]` -/
def stepElem (ol : Bool) (cc ws : Option Lit) (node : DNode) (rest : List DNode) : Option Step :=
  if node.isElement then
    (handleElement node cc ws).map (fun e => .cont [e] rest)
  else
    some (.cont (extras ol cc ws) rest)     -- the node itself is dropped

/-- middle part, `if node.nodeType in (TEXT_NODE, CDATA_SECTION_NODE)`: `node` is a text or CDATA node with data `d` -/
def stepWhiteBody (ol : Bool) (cc : Option Lit) (node : DNode) (d : List Nat) (rest : List DNode) : Option Step :=
  match node.toxml? with
  | none => none
  | some wx =>
    let ws : Lit := ⟨wx, d⟩                        -- XMLWhitespace(node.toxml(), node.nodeValue)
    match cc with
    | none => some (.cont (extras ol none (some ws)) rest)
    | some c =>
      if count Gen.TablesAndroid.walk_nl d > Gen.TablesAndroid.walk_nl_threshold then
        some (.cont (extras ol (some c) (some ws)) rest)
      else
        match rest with
        | [] => some (.stop (extras ol (some c) (some ws)))
        | n2 :: r2 => stepElem ol (some c) (some ws) n2 r2

/-- middle part: the white-space branch or `white_space = None` -/
def stepWhite (ol : Bool) (cc : Option Lit) (node : DNode) (rest : List DNode) : Option Step :=
  match node with
  | .text d => stepWhiteBody ol cc node d rest
  | .cdata d => stepWhiteBody ol cc node d rest
  | _ => stepElem ol cc none node rest

/-- one iteration of the `while` loop of `walk` at `root_children[child_num:] = node :: rest` -/
def walkStep (ol : Bool) (node : DNode) (rest : List DNode) : Option Step :=
  match node with
  | .comment c =>
    match handleComment c rest with
    | none => none
    | some (cc, []) => some (.stop (extras ol (some cc) none))
    | some (cc, n1 :: r1) => stepWhite ol (some cc) n1 r1
  | _ => stepWhite ol none node rest

/-- the `while` loop; `none` = a ValueError of `toxml()` (or the fuel ran out, which `walkLoop_fuel` excludes) -/
def walkLoop (ol : Bool) : Nat → List DNode → Option (List Entry)
  | 0, _ => none
  | _ + 1, [] => some []
  | f + 1, node :: rest =>
    match walkStep ol node rest with
    | none => none
    | some (.stop out) => some out
    | some (.cont out rest') => (walkLoop ol f rest').map (out ++ ·)

/-- result of `minidom.parseString(contents.encode("utf-8"))` -/
inductive Parsed where
  | error                                   -- any exception (not well-formed, encoding error, …)
  | doc (children : List DNode)             -- Document.childNodes
  deriving Repr, Inhabited

/-- `doc.documentElement`: the first element child of the document -/
def documentElement? : List DNode → Option DNode
  | [] => none
  | n :: rest => if n.isElement then some n else documentElement? rest

/-- `xml.sax.saxutils.escape(data, {"\n": "&#10;", "\r": "&#13;", "\t": "&#9;"})` (external, stdlib): `&` first, then
    `>`, `<`, then the three white-space characters; the replacements do not interact -/
def saxEscape (d : List Nat) : List Nat :=
  d.flatMap (fun c =>
    if c == 38 then [38, 97, 109, 112, 59]            -- &amp;
    else if c == 62 then [38, 103, 116, 59]           -- &gt;
    else if c == 60 then [38, 108, 116, 59]           -- &lt;
    else if c == 10 then [38, 35, 49, 48, 59]         -- &#10;
    else if c == 13 then [38, 35, 49, 51, 59]         -- &#13;
    else if c == 9 then [38, 35, 57, 59]              -- &#9;
    else [c])

/-- `xml.sax.saxutils.quoteattr(data)` (external, stdlib): escape, then `"…"` unless the value contains a double quote:
    then `'…'`, or `"…"` with `&quot;` if it contains both kinds of quote -/
def quoteattr (d : List Nat) : List Nat :=
  let e := saxEscape d
  if e.contains 34 then
    if e.contains 39 then [34] ++ e.flatMap (fun c => if c == 34 then [38, 113, 117, 111, 116, 59] else [c]) ++ [34]
    else [39] ++ e ++ [39]
  else [34] ++ e ++ [34]

/-- `DocumentWrapper(attr_name, f" {attr_name}={quoteattr(attr_value)}")` (before /repo bf6a07b:
    `f' {attr_name}="{attr_value}"'`, the value as it is; the translator tells which) -/
def attrWrapper (a : List Nat × List Nat) : Entry :=
  .wrapper a.1 (Gen.TablesAndroid.attr_pre ++ a.1 ++ Gen.TablesAndroid.attr_mid ++
    (if Gen.TablesAndroid.attr_quoteattr then quoteattr a.2 else a.2) ++ Gen.TablesAndroid.attr_post)

/-- `AndroidParser.walk(only_localizable)`.  `ctx = none`: nothing was loaded.  Outer `none`: the generator
    raises (ValueError of `toxml()`, or no document element) — never for a tree produced by the XML parser
    (`walk_total`). -/
def walk (ctx : Option (List Nat × Parsed)) (ol : Bool) : Option (List Entry) :=
  match ctx with
  | none => some []
  | some (contents, .error) => some [.junk contents]
  | some (_, .doc docChildren) =>
    match documentElement? docChildren with
    | some (.element name attrs children) =>
      if name != Gen.TablesAndroid.resources_tag then (docToxml? docChildren).map (fun x => [.junk x])
      else
        let head := if ol then [] else
          [Entry.wrapper Gen.TablesAndroid.open_key Gen.TablesAndroid.open_all] ++ attrs.map attrWrapper ++
          [Entry.wrapper Gen.TablesAndroid.gt_key Gen.TablesAndroid.gt_all]
        let tail := if ol then [] else [Entry.wrapper Gen.TablesAndroid.close_key Gen.TablesAndroid.close_all]
        (walkLoop ol (children.length + 1) children).map (fun body => head ++ body ++ tail)
    | _ => none

/-! ## AndroidEntity.wrap -/

/-- `child.data = raw_val`: text, CDATA, comment and processing-instruction nodes store it as their data; on an
    element it only creates a Python attribute that `toxml()` never looks at -/
def setData (raw : List Nat) : DNode → DNode
  | .text _ => .text raw
  | .cdata _ => .cdata raw
  | .comment _ => .comment raw
  | .pi t _ => .pi t raw
  | n => n

def firstCdataIdx : List DNode → Nat → Option Nat
  | [], _ => none
  | .cdata _ :: _, i => some i
  | _ :: rest, i => firstCdataIdx rest (i + 1)

/-- index of the child `wrap` writes to: the only child; else the first CDATA child; else (no CDATA) the LAST child,
    because the `for` loop leaves its variable there; `none` (no children): the variable was never assigned -/
def wrapTarget (children : List DNode) : Option Nat :=
  if children.length == 1 then some 0
  else match firstCdataIdx children 0 with
    | some i => some i
    | none => if children.length == 0 then none else some (children.length - 1)

inductive WrapErr where
  | unbound      -- UnboundLocalError: no child nodes, the loop variable `child` was never assigned
  | value        -- ValueError of `toxml()`
  | notEntity
  deriving Repr, DecidableEq, Inhabited

/-- `AndroidEntity.wrap(raw_val)` -> `LiteralEntity(key, raw_val, all)` as `(key, val, all)`.
    The child written to: `wrapTarget`. -/
def Entry.wrap (e : Entry) (raw : List Nat) : Except WrapErr (List Nat × List Nat × List Nat) :=
  match e with
  | .entity pre inner (.element name attrs children) _ key _ _ =>
    match wrapTarget children with
    | none => .error .unbound
    | some i =>
      let clone := DNode.element name attrs (children.mapIdx (fun j c => if j == i then setData raw c else c))
      match clone.toxml? with
      | none => .error .value
      | some x => .ok (key, raw, optAll pre ++ optAll inner ++ x)
  | _ => .error .notEntity

/-! ## the parser's entities as the checker model sees them -/

/-- an AndroidEntity as `AndroidChecker.check` reads it: `node`, `val` (= raw_val), `all` -/
def Entry.toEntity? : Entry → Option Android.Entity
  | .entity pre inner (.element name attrs children) allLit _ rawVal _ =>
    some { node := toNode name attrs children allLit, val := rawVal, all := optAll pre ++ optAll inner ++ allLit }
  | _ => none

/-- `Parser.parse()` = `KeyedTuple((e.key, e) for e in walk(only_localizable=True))`; lookup by key gives the LAST
    item with that key -/
def lookupLast (es : List Entry) (k : List Nat) : Option Entry :=
  (es.reverse.find? (fun e => e.isEntity && e.key? == some k))

/-- how `ContentComparer.compare` (and `EntityLinter.lint_value`) turn the position of a check result into line and
    column: `l10nent.position(pos)` for an `EntityPos` (only the encoding warning of `Checker.check`),
    `l10nent.value_position(pos)` otherwise -/
def resolvePos (e : Entry) (r : Android.Result) : Int × Int :=
  if r.msg == .mojibake then e.position r.pos else e.valuePosition r.pos

/-- the Android part of `ContentComparer.compare`: for every localized AndroidEntity whose key the reference has,
    `checker.check(refent, l10nent)` with ONE checker object; result per entity: key and the list of
    results with their resolved `(line, column)`.  `none` inside = the checker raised / left the model. -/
def docCheck (ref l10n : List Entry) : List (List Nat × Option (List (Android.Result × (Int × Int)))) :=
  l10n.filterMap (fun e =>
    match e.toEntity?, e.key? with
    | some le, some k =>
      match lookupLast ref k with
      | some re =>
        match re.toEntity? with
        | some ree => some (k, (Android.check ree le).map (fun rs => rs.map (fun r => (r, resolvePos e r))))
        | none => none
      | none => none
    | _, _ => none)

end AndroidP

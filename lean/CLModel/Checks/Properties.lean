/-
Model of `compare_locales.checks.properties.PropertiesChecker` (check, check_plural,
checkPrintf, getPrintfSpecs), of `Checker.check` (checks/base.py), of
`plurals.get_plural` and of `PropertiesEntityMixin.val` (the unescaping of a raw value).
Transliteration of the Python; regexes and tables come from `Gen.*`.  Core Lean only.

`Option` results: `none` = the Python code would raise (IndexError / ValueError); the proofs show
that this does not happen.
-/
import CLModel.Rx.Basic
import CLModel.Gen.Regexes
import CLModel.Gen.Tables
import CLModel.Checks.Difflib
namespace PropCk
open Rx

abbrev Text := List Nat

/-! ### string constants of the Python source (code points) -/
def sFoundSingle : Text := [70, 111, 117, 110, 100, 32, 115, 105, 110, 103, 108, 101, 32, 37]   -- 'Found single %'
def sMixed : Text := [77, 105, 120, 101, 100, 32, 111, 114, 100, 101, 114, 101, 100, 32, 97, 110, 100, 32, 110, 111, 110, 45, 111, 114, 100, 101, 114, 101, 100, 32, 97, 114, 103, 115]   -- 'Mixed ordered and non-ordered args'
def sOrderedMissing : Text := [79, 114, 100, 101, 114, 101, 100, 32, 97, 114, 103, 117, 109, 101, 110, 116, 32, 109, 105, 115, 115, 105, 110, 103]   -- 'Ordered argument missing'
def sLocPlurals : Text := [76, 111, 99, 97, 108, 105, 122, 97, 116, 105, 111, 110, 95, 97, 110, 100, 95, 80, 108, 117, 114, 97, 108, 115]   -- 'Localization_and_Plurals'
def sPluralRule : Text := [112, 108, 117, 114, 97, 108, 82, 117, 108, 101]   -- 'pluralRule'
def sUnknownEscape : Text := [117, 110, 107, 110, 111, 119, 110, 32, 101, 115, 99, 97, 112, 101, 32, 115, 101, 113, 117, 101, 110, 99, 101, 44, 32, 92]   -- 'unknown escape sequence, \\'
def sInColon : Text := [65533, 32, 105, 110, 58, 32]   -- '� in: '
def sExpecting : Text := [101, 120, 112, 101, 99, 116, 105, 110, 103, 32]   -- 'expecting '
def sPluralsFound : Text := [32, 112, 108, 117, 114, 97, 108, 115, 44, 32, 102, 111, 117, 110, 100, 32]   -- ' plurals, found '
def sNotAllVars : Text := [110, 111, 116, 32, 97, 108, 108, 32, 118, 97, 114, 105, 97, 98, 108, 101, 115, 32, 117, 115, 101, 100, 32, 105, 110, 32, 108, 49, 48, 110]   -- 'not all variables used in l10n'
def sUnreplaced : Text := [117, 110, 114, 101, 112, 108, 97, 99, 101, 100, 32, 118, 97, 114, 105, 97, 98, 108, 101, 115, 32, 105, 110, 32, 108, 49, 48, 110]   -- 'unreplaced variables in l10n'
def sTrailingArg : Text := [116, 114, 97, 105, 108, 105, 110, 103, 32, 97, 114, 103, 117, 109, 101, 110, 116, 32]   -- 'trailing argument '
def sArgument : Text := [97, 114, 103, 117, 109, 101, 110, 116, 32]   -- 'argument '
def sBtMissing : Text := [96, 32, 109, 105, 115, 115, 105, 110, 103]   -- '` missing'
def sBtObsolete : Text := [96, 32, 111, 98, 115, 111, 108, 101, 116, 101]   -- '` obsolete'
def sBtShouldBe : Text := [96, 32, 115, 104, 111, 117, 108, 100, 32, 98, 101, 32, 96]   -- '` should be `'
def sSpBt : Text := [32, 96]   -- ' `'
def sBt : Text := [96]   -- '`'
def sCommaSp : Text := [44, 32]   -- ', '
def sNone : Text := [78, 111, 110, 101]   -- 'None'

/-! ### small string helpers -/

def decimalAux : Nat → Nat → Text → Text
  | 0, _, acc => acc
  | f + 1, n, acc => if n < 10 then (48 + n) :: acc else decimalAux f (n / 10) ((48 + n % 10) :: acc)

/-- `"%d" % n` / `str(n)` for n ≥ 0 -/
def decimal (n : Nat) : Text := decimalAux (n + 1) n []

/-- `int(s)` for a string of ASCII digits; `none` = ValueError -/
def intOf (t : Text) : Option Nat :=
  if t.isEmpty then none else
  t.foldl (fun acc c => match acc with
    | some n => if 48 ≤ c ∧ c ≤ 57 then some (n * 10 + (c - 48)) else none
    | none => none) (some 0)

def hexVal (c : Nat) : Option Nat :=
  if 48 ≤ c ∧ c ≤ 57 then some (c - 48)
  else if 97 ≤ c ∧ c ≤ 102 then some (c - 87)
  else if 65 ≤ c ∧ c ≤ 70 then some (c - 55)
  else none

/-- `int(s, 16)` for a string of hex digits -/
def hexOf (t : Text) : Option Nat :=
  if t.isEmpty then none else
  t.foldl (fun acc c => match acc, hexVal c with
    | some n, some d => some (n * 16 + d)
    | _, _ => none) (some 0)

/-- evaluate a partial function on every element; `none` as soon as one evaluation fails -/
def mapOpt {β γ : Type} (f : β → Option γ) : List β → Option (List γ)
  | [] => some []
  | x :: xs =>
    match f x, mapOpt f xs with
    | some y, some ys => some (y :: ys)
    | _, _ => none

/-- `sep.join(parts)` -/
def join (sep : Text) : List Text → Text
  | [] => []
  | [x] => x
  | x :: y :: rest => x ++ sep ++ join sep (y :: rest)

/-- `needle in hay` -/
def contains (needle : Text) : Text → Bool
  | [] => needle.isPrefixOf []
  | c :: hay => needle.isPrefixOf (c :: hay) || contains needle hay

def slice (s : Array Nat) (sp : Nat × Nat) : Text := (s.extract sp.1 sp.2).toList

/-- `m.group(i)` as text, `None` if the group did not take part -/
def groupText (s : Array Nat) (st : St) (i : Nat) : Option Text := (st.group i).map (slice s)

/-! ### findings -/

inductive Sev | error | warning
  deriving DecidableEq, Repr, Inhabited
inductive Cat | encodings | escape | printf | plural
  deriving DecidableEq, Repr, Inhabited
/-- the position is a plain `int` (offset into the value) or an `EntityPos` (offset into the entity) -/
inductive Pos | val (n : Nat) | ent (n : Nat)
  deriving DecidableEq, Repr, Inhabited

structure Finding where
  sev : Sev
  pos : Pos
  msg : Text
  cat : Cat
  deriving DecidableEq, Repr, Inhabited

/-! ### PropertiesEntityMixin.val -/

/-- the callback `unescape(m)` of `PropertiesEntityMixin.val`; `none` = exception -/
def unescapeOne (s : Array Nat) (st : St) : Option Text :=
  match groupText s st Gen.Pat.PropertiesEntityMixin_escape_g_uni with
  | some (_ :: hex) =>     -- found["uni"] is truthy: chr(int(found["uni"][1:], 16))
    (hexOf hex).map (fun c => [c])
  | _ =>
    match groupText s st Gen.Pat.PropertiesEntityMixin_escape_g_nl with
    | some (_ :: _) => some []
    | _ =>
      match groupText s st Gen.Pat.PropertiesEntityMixin_escape_g_single with
      | some [c] =>
        (match Gen.Tables.knownEscapes.lookup c with
         | some r => some [r]
         | none => some [c])
      | some t => some t      -- a non-single-character key is never in known_escapes
      | none => none          -- known_escapes.get(None, None) would make re.sub raise

/-- `self.escape.sub(unescape, self.raw_val)` -/
def unescape (raw : Text) : Option Text :=
  let s := raw.toArray
  let ms := finditer s Gen.Pat.PropertiesEntityMixin_escape
  let rec go (ms : List (Nat × St)) (last : Nat) : Option Text :=
    match ms with
    | [] => some (s.extract last s.size).toList
    | (q, st) :: rest =>
      match unescapeOne s st, go rest st.pos with
      | some r, some tl => some ((s.extract last q).toList ++ r ++ tl)
      | _, _ => none
  go ms 0

/-! ### plurals.get_plural -/

/-- `plurals.get_plural_rule(locale)` -/
def getPluralRule (locale : Option Text) : Option Nat :=
  match locale with
  | none => none
  | some l =>
    match Gen.Tables.categoriesByLocale.lookup l with
    | some i => some i
    | none => Gen.Tables.categoriesByLocale.lookup (l.takeWhile (· ≠ 45))   -- locale.split("-", 1)[0]

/-- `plurals.get_plural(locale)`: outer `none` = IndexError, inner `none` = Python `None` -/
def getPlural (locale : Option Text) : Option (Option (List Text)) :=
  match getPluralRule locale with
  | none => some none
  | some i =>
    match Gen.Tables.categoriesByIndex[i]? with
    | some cats => some (some cats)
    | none => none

/-! ### getPrintfSpecs -/

structure PState where
  hasNumber : Bool
  specs : List (Option Text)
  deriving DecidableEq, Repr

/-- exception of getPrintfSpecs: `PrintfException(msg, pos)` or another Python exception -/
inductive PErr | printf (msg : Text) (pos : Nat) | other
  deriving DecidableEq, Repr

/-- body of `for m in self.printf.finditer(val)`; `none` = `continue` without change is encoded
    by returning the state unchanged -/
def printfStep (s : Array Nat) (st : PState) (m : Nat × St) : Except PErr PState :=
  let good := groupText s m.2 Gen.Pat.PropertiesChecker_printf_g_good
  let number := groupText s m.2 Gen.Pat.PropertiesChecker_printf_g_number
  let spec := groupText s m.2 Gen.Pat.PropertiesChecker_printf_g_spec
  if good.isNone then .error (.printf sFoundSingle m.1)
  else if good == some [37] then .ok st
  else if (st.hasNumber && number.isNone) || (!st.hasNumber && !st.specs.isEmpty && number.isSome) then
    .error (.printf sMixed m.1)
  else
    match number with
    | some num =>
      match intOf num with
      | none => .error .other
      | some n =>
        let pos := n - 1         -- n ≥ 1: the group is [1-9][0-9]*
        let ls := st.specs.length
        if pos ≥ ls then
          .ok ⟨true, st.specs ++ List.replicate (pos - ls) none ++ [spec]⟩
        else .ok ⟨true, st.specs.set pos spec⟩
    | none => .ok ⟨false, st.specs ++ [spec]⟩

def printfFold (s : Array Nat) : List (Nat × St) → PState → Except PErr PState
  | [], st => .ok st
  | m :: ms, st =>
    match printfStep s st m with
    | .error e => .error e
    | .ok st' => printfFold s ms st'

/-- truthiness of a list element of `specs` (`all(specs)`) -/
def truthy : Option Text → Bool
  | some (_ :: _) => true
  | _ => false

/-- `PropertiesChecker.getPrintfSpecs(val)` -/
def getPrintfSpecs (val : Text) : Except PErr (List (Option Text)) :=
  let s := val.toArray
  match printfFold s (finditer s Gen.Pat.PropertiesChecker_printf) ⟨false, []⟩ with
  | .error e => .error e
  | .ok st =>
    if st.hasNumber && !(st.specs.all truthy) then .error (.printf sOrderedMissing 0)
    else .ok st.specs

/-! ### checkPrintf -/

/-- `"%s" % spec` -/
def showSpec : Option Text → Text
  | some t => t
  | none => sNone

/-- `"<pre>%d `%s` missing" % (i + 1, refSpecs[i])`; `none` = IndexError -/
def missingMsg (pre : Text) (refSpecs : List (Option Text)) (i : Nat) : Option Text :=
  (refSpecs[i]?).map (fun sp => pre ++ decimal (i + 1) ++ sSpBt ++ showSpec sp ++ sBtMissing)

/-- `"argument %d `%s` obsolete" % (i + 1, l10nSpecs[i])` -/
def obsoleteMsg (l10nSpecs : List (Option Text)) (i : Nat) : Option Text :=
  (l10nSpecs[i]?).map (fun sp => sArgument ++ decimal (i + 1) ++ sSpBt ++ showSpec sp ++ sBtObsolete)

/-- `"argument %d `%s` should be `%s`" % (j + 1, l10nSpecs[j], refSpecs[i])` for `p = (i, j)` -/
def replaceMsg (refSpecs l10nSpecs : List (Option Text)) (p : Nat × Nat) : Option Text :=
  match l10nSpecs[p.2]?, refSpecs[p.1]? with
  | some lsp, some rsp =>
    some (sArgument ++ decimal (p.2 + 1) ++ sSpBt ++ showSpec lsp ++ sBtShouldBe ++ showSpec rsp ++ sBt)
  | _, _ => none

open Difflib in
/-- the loop over `sm.get_opcodes()`; state = (msgs, warn); `none` = IndexError -/
def opcodeStep (refSpecs l10nSpecs : List (Option Text)) (st : List Text × Option Text) (op : Opcode) :
    Option (List Text × Option Text) :=
  let (msgs, warn) := st
  match op.tag with
  | .equal => some (msgs, warn)
  | .delete =>
    if op.i2 = refSpecs.length then
      match mapOpt (missingMsg sTrailingArg refSpecs) (List.range' op.i1 (op.i2 - op.i1)) with
      | some parts => some (msgs, some (join sCommaSp parts))
      | none => none
    else
      match mapOpt (missingMsg sArgument refSpecs) (List.range' op.i1 (op.i2 - op.i1)) with
      | some parts => some (msgs ++ parts, warn)
      | none => none
  | .insert =>
    match mapOpt (obsoleteMsg l10nSpecs) (List.range' op.j1 (op.j2 - op.j1)) with
    | some parts => some (msgs ++ parts, warn)
    | none => none
  | .replace =>
    match mapOpt (replaceMsg refSpecs l10nSpecs)
        ((List.range' op.i1 (op.i2 - op.i1)).zip (List.range' op.j1 (op.j2 - op.j1))) with
    | some parts => some (msgs ++ parts, warn)
    | none => none

def opcodeFold (refSpecs l10nSpecs : List (Option Text)) :
    List Difflib.Opcode → List Text × Option Text → Option (List Text × Option Text)
  | [], st => some st
  | op :: ops, st =>
    match opcodeStep refSpecs l10nSpecs st op with
    | none => none
    | some st' => opcodeFold refSpecs l10nSpecs ops st'

/-- `PropertiesChecker.checkPrintf(refSpecs, l10nValue)` -/
def checkPrintf (refSpecs : List (Option Text)) (l10nValue : Text) : Option (List Finding) :=
  match getPrintfSpecs l10nValue with
  | .error (.printf msg pos) => some [⟨.error, .val pos, msg, .printf⟩]
  | .error .other => none
  | .ok l10nSpecs =>
    if refSpecs ≠ l10nSpecs then
      match Difflib.opcodes refSpecs l10nSpecs with
      | none => none
      | some ops =>
        match opcodeFold refSpecs l10nSpecs ops ([], none) with
        | none => none
        | some (msgs, warn) =>
          some ((if !msgs.isEmpty then [⟨.error, .val 0, join sCommaSp msgs, .printf⟩] else []) ++
                (match warn with
                 | some w => [⟨.warning, .val 0, w, .printf⟩]
                 | none => []))
    else some []

/-! ### check_plural -/

/-- `{int(m.group(1)) for m in re.finditer("#([0-9]+)", value)}` as a list (with repetitions) -/
def pluralVars (r : Re) (value : Text) : Option (List Nat) :=
  let s := value.toArray
  mapOpt (fun m => match groupText s m.2 1 with
    | some t => intOf t
    | none => none) (finditer s r)

/-- the first part of `check_plural`: `if known_plurals: … expected_forms > / < found_forms` -/
def formsFindings (known : Option (List Text)) (l10nValue : Text) : List Finding :=
  match known with
  | some (c :: cs) =>
    let expected := (c :: cs).length
    let found := l10nValue.count 59 + 1
    let msg := sExpecting ++ decimal expected ++ sPluralsFound ++ decimal found
    (if expected > found then [⟨.warning, .val 0, msg, .plural⟩] else []) ++
    (if expected < found then [⟨.warning, .val 0, msg, .plural⟩] else [])
  | _ => []

/-- `PropertiesChecker.check_plural(refValue, l10nValue)` with `self.locale = locale` -/
def checkPlural (locale : Option Text) (refValue l10nValue : Text) : Option (List Finding) :=
  match getPlural locale with
  | none => none
  | some known =>
    let forms : List Finding := formsFindings known l10nValue
    match pluralVars Gen.Pat.checks_properties_PropertiesChecker_check_plural_0 refValue with
    | none => none
    | some pats =>
      if pats.length = 0 then some forms
      else
        match pluralVars Gen.Pat.checks_properties_PropertiesChecker_check_plural_1 l10nValue with
        | none => none
        | some lpats =>
          if pats.any (fun x => !lpats.contains x) then
            some (forms ++ [⟨.warning, .val 0, sNotAllVars, .plural⟩])
          else if lpats.any (fun x => !pats.contains x) then
            some (forms ++ [⟨.error, .val 0, sUnreplaced, .plural⟩])
          else some forms

/-! ### Checker.check / PropertiesChecker.check -/

/-- what `check` reads from the two entities -/
structure Ents where
  locale : Option Text          -- checker.locale
  refComment : Option Text      -- refEnt.pre_comment.all, none if there is no pre_comment
  refKey : Text
  refRaw : Text                 -- refEnt.raw_val
  l10nKey : Text
  l10nAll : Text                -- l10nEnt.all
  l10nRaw : Text                -- l10nEnt.raw_val
  deriving Repr

/-- `Checker.check` of checks/base.py -/
def baseCheck (e : Ents) : List Finding :=
  (finditer e.l10nAll.toArray Gen.Pat.checks_base_mochibake).map (fun m =>
    ⟨.warning, .ent m.1, sInColon ++ e.l10nKey, .encodings⟩)

/-- the condition of the plural branch -/
def pluralGate (refComment : Option Text) (refKey refValue : Text) : Bool :=
  (match refComment with
   | some c => contains sLocPlurals c
   | none => false) &&
  refKey != sPluralRule &&
  (matchAt refValue.toArray Gen.Pat.checks_properties_PropertiesChecker_check_0 0).isNone

/-- `single in PropertiesEntity.known_escapes` (the keys are single characters) -/
def isKnownEscape : Text → Bool
  | [c] => (Gen.Tables.knownEscapes.lookup c).isSome
  | _ => false

/-- the "lost escapes" loop over `PropertiesEntity.escape.finditer(raw_val)` -/
def escapeWarnings (raw : Text) : List Finding :=
  let s := raw.toArray
  (finditer s Gen.Pat.PropertiesEntityMixin_escape).filterMap (fun m =>
    match groupText s m.2 Gen.Pat.PropertiesEntityMixin_escape_g_single with
    | some (c :: cs) =>
      if !isKnownEscape (c :: cs) then some ⟨.warning, .val m.1, sUnknownEscape ++ (c :: cs), .escape⟩ else none
    | _ => none)

/-- `PropertiesChecker.check(refEnt, l10nEnt)` as a list -/
def check (e : Ents) : Option (List Finding) :=
  match unescape e.refRaw, unescape e.l10nRaw with
  | some refValue, some l10nValue =>
    let base := baseCheck e
    if pluralGate e.refComment e.refKey refValue then
      (checkPlural e.locale refValue l10nValue).map (base ++ ·)
    else
      let esc := escapeWarnings e.l10nRaw
      let refSpecs : Option (List (Option Text)) :=
        match getPrintfSpecs refValue with
        | .ok sp => some sp
        | .error (.printf _ _) => some []
        | .error .other => none
      match refSpecs with
      | none => none
      | some refSpecs =>
        if !refSpecs.isEmpty then
          (checkPrintf refSpecs l10nValue).map (base ++ esc ++ ·)
        else some (base ++ esc)
  | _, _ => none

end PropCk

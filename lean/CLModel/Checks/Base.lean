/-
Model of `compare_locales.checks.base.Checker.check`: one "encodings" warning per U+FFFD in
`l10nEnt.all` (`mochibake.finditer`).  Core Lean only.
-/
import CLModel.Rx.Basic
import CLModel.Gen.Regexes
namespace Checks

inductive Severity | error | warning
  deriving Repr, DecidableEq, Inhabited

structure Result where
  severity : Severity
  pos : Nat                 -- EntityPos: offset into the entity's text
  category : String
  deriving Repr, DecidableEq, Inhabited

/-- `Checker.check`: `for m in mochibake.finditer(l10nEnt.all): yield ("warning", EntityPos(m.start()), …, "encodings")` -/
def baseCheck (all : Array Nat) : List Result :=
  (Rx.finditer all Gen.Pat.checks_base_mochibake).map (fun (q, _) => { severity := .warning, pos := q, category := "encodings" })

end Checks

/-
The token view of `PropertiesChecker.printf.finditer(val)`: every match is a lone `%`, an escaped `%%` or an
argument `%[n$][width][.prec]c`.  Executable (driver op `c06.toks`), core Lean only.  `atoks` is the object of the
exactness theorem `C06.atoks_iff_lex` (lexer = grammar) and of `C06.specs_of_tokens`.
(Moved here from Proofs/C06Specs.lean in round 4 so that the driver can evaluate it.)
-/
import CLModel.Checks.Properties
namespace PropCk
open Rx

/-- what one match of the `printf` regex means: a lone `%`, an escaped `%%`, or an argument
    `%[n$][width][.prec]c` with its number `n ≥ 1` (if ordered) and its type `c` -/
inductive ATok
  | lone
  | pct
  | arg (num : Option Nat) (spec : Text)
  deriving DecidableEq, Repr

/-- abstraction of one regex match; `none` if the match is not of one of the three shapes
    (never happens for the `printf` regex: `atoks_total`) -/
def atokOf (s : Array Nat) (m : Nat × St) : Option ATok :=
  let good := groupText s m.2 Gen.Pat.PropertiesChecker_printf_g_good
  let number := groupText s m.2 Gen.Pat.PropertiesChecker_printf_g_number
  let spec := groupText s m.2 Gen.Pat.PropertiesChecker_printf_g_spec
  if good.isNone then some .lone
  else if good == some [37] then some .pct
  else
    match spec with
    | some (c :: cs) =>
      match number with
      | none => some (.arg none (c :: cs))
      | some nt =>
        match intOf nt with
        | some n => if n ≥ 1 then some (.arg (some n) (c :: cs)) else none
        | none => none
    | _ => none

/-- the tokens of a value with their start offsets -/
def atoks (val : Text) : Option (List (Nat × ATok)) :=
  let s := val.toArray
  mapOpt (fun m => (atokOf s m).map (fun t => (m.1, t))) (finditer s Gen.Pat.PropertiesChecker_printf)

end PropCk

/-
XmlContent — an executable recogniser for well-formed XML *element content* (XML 1.0, production
`content`), relative to a list of declared general entities.  It is the specification of
"well-formed localized value" used by property C07; it is NOT a model of expat.  It is tied to
expat differentially (monitored contract `expat accepts <elem>v</elem> ↔ wf declared v` on the
generated value family, see harness/props/c07.py).

The recogniser is a one-character-at-a-time automaton with a stack of open element names, run by
structural recursion over the text, so that `run (a ++ b) = run a >>= run b` holds by construction.
Core Lean only.
-/
namespace XmlContent

abbrev Text := List Nat

/-- XML 1.0 `Char` -/
def isXmlChar (c : Nat) : Bool :=
  c == 9 || c == 10 || c == 13 || (32 ≤ c && c ≤ 0xD7FF) || (0xE000 ≤ c && c ≤ 0xFFFD) ||
  (0x10000 ≤ c && c ≤ 0x10FFFF)

/-- XML 1.0 (5th edition) `NameStartChar` -/
def isNameStart (c : Nat) : Bool :=
  c == 58 || (65 ≤ c && c ≤ 90) || c == 95 || (97 ≤ c && c ≤ 122) ||
  (0xC0 ≤ c && c ≤ 0xD6) || (0xD8 ≤ c && c ≤ 0xF6) || (0xF8 ≤ c && c ≤ 0x2FF) ||
  (0x370 ≤ c && c ≤ 0x37D) || (0x37F ≤ c && c ≤ 0x1FFF) || (0x200C ≤ c && c ≤ 0x200D) ||
  (0x2070 ≤ c && c ≤ 0x218F) || (0x2C00 ≤ c && c ≤ 0x2FEF) || (0x3001 ≤ c && c ≤ 0xD7FF) ||
  (0xF900 ≤ c && c ≤ 0xFDCF) || (0xFDF0 ≤ c && c ≤ 0xFFFD) || (0x10000 ≤ c && c ≤ 0xEFFFF)

/-- XML 1.0 (5th edition) `NameChar` -/
def isNameChar (c : Nat) : Bool :=
  isNameStart c || c == 45 || c == 46 || (48 ≤ c && c ≤ 57) || c == 0xB7 ||
  (0x300 ≤ c && c ≤ 0x36F) || (0x203F ≤ c && c ≤ 0x2040)

/-- XML white space `S` -/
def isS (c : Nat) : Bool := c == 32 || c == 9 || c == 10 || c == 13

def isDigit (c : Nat) : Bool := 48 ≤ c && c ≤ 57

def hexVal (c : Nat) : Option Nat :=
  if 48 ≤ c && c ≤ 57 then some (c - 48)
  else if 97 ≤ c && c ≤ 102 then some (c - 87)
  else if 65 ≤ c && c ≤ 70 then some (c - 55)
  else none

/-- the five predefined entities: amp, lt, gt, apos, quot -/
def predefined : List Text :=
  [[97, 109, 112], [108, 116], [103, 116], [97, 112, 111, 115], [113, 117, 111, 116]]

/-- "xml" in any case: reserved processing-instruction target -/
def isXmlTarget (n : Text) : Bool :=
  match n with
  | [a, b, c] => (a == 120 || a == 88) && (b == 109 || b == 77) && (c == 108 || c == 76)
  | _ => false

/-- a start tag being read: element name and the attribute names seen so far -/
structure Tag where
  name : Text
  attrs : List Text
  deriving Repr, DecidableEq, Inhabited

/-- where a reference returns to: element content, or an attribute value delimited by `q` -/
inductive Ret where
  | content
  | attr (t : Tag) (q : Nat)
  deriving Repr, DecidableEq, Inhabited

/-- "CDATA[" -/
def cdataKw : Text := [67, 68, 65, 84, 65, 91]

inductive Mode where
  | content (br : Nat)                   -- `br` = number of immediately preceding `]` (capped at 2)
  | amp (r : Ret)                        -- after `&`
  | entName (r : Ret) (acc : Text)       -- after `&` NameStartChar NameChar*   (acc reversed)
  | crStart (r : Ret)                    -- after `&#`
  | crDec (r : Ret) (n : Nat)            -- after `&#` digit+
  | crHexStart (r : Ret)                 -- after `&#x`
  | crHex (r : Ret) (n : Nat)            -- after `&#x` hexdigit+
  | lt                                   -- after `<`
  | stagName (acc : Text)                -- `<` Name...               (acc reversed)
  | stagWs (t : Tag)                     -- in a start tag after white space
  | stagAfterAttr (t : Tag)              -- in a start tag right after an attribute value
  | attrName (t : Tag) (acc : Text)      -- reading an attribute name (acc reversed)
  | attrAfterName (t : Tag) (a : Text)   -- attribute name complete, white space seen, `=` expected
  | attrEq (t : Tag)                     -- after `=`, opening quote expected (the name is already in t.attrs)
  | attrVal (t : Tag) (q : Nat)          -- inside an attribute value
  | stagSlash (t : Tag)                  -- after `/` in a start tag
  | etagStart                            -- after `</`
  | etagName (acc : Text)                -- `</` Name...              (acc reversed)
  | etagWs (n : Text)                    -- `</` Name S
  | bang                                 -- after `<!`
  | bangDash                             -- after `<!-`
  | comment | commentDash | commentDashDash
  | cdataOpen (k : Nat)                  -- after `<![` and k characters of "CDATA["
  | cdata | cdataBr1 | cdataBr2
  | piStart                              -- after `<?`
  | piTarget (acc : Text)
  | piTargetQ                            -- `<?target?` : only `>` may follow
  | piBody | piQ
  deriving Repr, DecidableEq, Inhabited

structure St where
  mode : Mode
  stack : List Text        -- names of the open elements, innermost first
  deriving Repr, DecidableEq, Inhabited

def back (r : Ret) (stack : List Text) : St :=
  match r with
  | .content => ⟨.content 0, stack⟩
  | .attr t q => ⟨.attrVal t q, stack⟩

/-- legal number of a character reference (`Char`) -/
def crOk (n : Nat) : Bool := isXmlChar n

/-- the attribute `a` of tag `t` is complete: WFC "Unique Att Spec" -/
def addAttr (t : Tag) (a : Text) : Option Tag :=
  if t.attrs.contains a then none else some { t with attrs := a :: t.attrs }

/-- one character -/
def step (declared : List Text) (s : St) (c : Nat) : Option St :=
  let stk := s.stack
  match s.mode with
  | .content br =>
      if c == 38 then some ⟨.amp .content, stk⟩
      else if c == 60 then some ⟨.lt, stk⟩
      else if c == 93 then some ⟨.content (if br ≥ 1 then 2 else 1), stk⟩
      else if c == 62 && br ≥ 2 then none                       -- "]]>" in character data
      else if isXmlChar c then some ⟨.content 0, stk⟩ else none
  | .amp r =>
      if c == 35 then some ⟨.crStart r, stk⟩
      else if isNameStart c then some ⟨.entName r [c], stk⟩ else none
  | .entName r acc =>
      if c == 59 then
        (if declared.contains acc.reverse || predefined.contains acc.reverse then
           -- WFC "No < in Attribute Values": the replacement text of `lt` is the escaped `&#60;`, allowed
           some (back r stk)
         else none)
      else if isNameChar c then some ⟨.entName r (c :: acc), stk⟩ else none
  | .crStart r =>
      if c == 120 then some ⟨.crHexStart r, stk⟩
      else if isDigit c then some ⟨.crDec r (c - 48), stk⟩ else none
  | .crDec r n =>
      if c == 59 then (if crOk n then some (back r stk) else none)
      else if isDigit c then some ⟨.crDec r (min (n * 10 + (c - 48)) 0x110000), stk⟩ else none
  | .crHexStart r =>
      match hexVal c with
      | some d => some ⟨.crHex r d, stk⟩
      | none => none
  | .crHex r n =>
      if c == 59 then (if crOk n then some (back r stk) else none)
      else match hexVal c with
        | some d => some ⟨.crHex r (min (n * 16 + d) 0x110000), stk⟩
        | none => none
  | .lt =>
      if c == 47 then some ⟨.etagStart, stk⟩
      else if c == 33 then some ⟨.bang, stk⟩
      else if c == 63 then some ⟨.piStart, stk⟩
      else if isNameStart c then some ⟨.stagName [c], stk⟩ else none
  | .stagName acc =>
      if c == 62 then some ⟨.content 0, acc.reverse :: stk⟩
      else if c == 47 then some ⟨.stagSlash ⟨acc.reverse, []⟩, stk⟩
      else if isS c then some ⟨.stagWs ⟨acc.reverse, []⟩, stk⟩
      else if isNameChar c then some ⟨.stagName (c :: acc), stk⟩ else none
  | .stagWs t =>
      if c == 62 then some ⟨.content 0, t.name :: stk⟩
      else if c == 47 then some ⟨.stagSlash t, stk⟩
      else if isS c then some ⟨.stagWs t, stk⟩
      else if isNameStart c then some ⟨.attrName t [c], stk⟩ else none
  | .stagAfterAttr t =>
      if c == 62 then some ⟨.content 0, t.name :: stk⟩
      else if c == 47 then some ⟨.stagSlash t, stk⟩
      else if isS c then some ⟨.stagWs t, stk⟩ else none
  | .attrName t acc =>
      if c == 61 then (match addAttr t acc.reverse with | some t' => some ⟨.attrEq t', stk⟩ | none => none)
      else if isS c then some ⟨.attrAfterName t acc.reverse, stk⟩
      else if isNameChar c then some ⟨.attrName t (c :: acc), stk⟩ else none
  | .attrAfterName t a =>
      if c == 61 then (match addAttr t a with | some t' => some ⟨.attrEq t', stk⟩ | none => none)
      else if isS c then some ⟨.attrAfterName t a, stk⟩ else none
  | .attrEq t =>
      if c == 34 || c == 39 then some ⟨.attrVal t c, stk⟩
      else if isS c then some ⟨.attrEq t, stk⟩ else none
  | .attrVal t q =>
      if c == q then some ⟨.stagAfterAttr t, stk⟩
      else if c == 60 then none
      else if c == 38 then some ⟨.amp (.attr t q), stk⟩
      else if isXmlChar c then some ⟨.attrVal t q, stk⟩ else none
  | .stagSlash _ =>
      if c == 62 then some ⟨.content 0, stk⟩ else none
  | .etagStart =>
      if isNameStart c then some ⟨.etagName [c], stk⟩ else none
  | .etagName acc =>
      if c == 62 then
        (match stk with
         | top :: rest => if top == acc.reverse then some ⟨.content 0, rest⟩ else none
         | [] => none)
      else if isS c then some ⟨.etagWs acc.reverse, stk⟩
      else if isNameChar c then some ⟨.etagName (c :: acc), stk⟩ else none
  | .etagWs n =>
      if c == 62 then
        (match stk with
         | top :: rest => if top == n then some ⟨.content 0, rest⟩ else none
         | [] => none)
      else if isS c then some ⟨.etagWs n, stk⟩ else none
  | .bang =>
      if c == 45 then some ⟨.bangDash, stk⟩
      else if c == 91 then some ⟨.cdataOpen 0, stk⟩ else none
  | .bangDash => if c == 45 then some ⟨.comment, stk⟩ else none
  | .comment =>
      if c == 45 then some ⟨.commentDash, stk⟩
      else if isXmlChar c then some ⟨.comment, stk⟩ else none
  | .commentDash =>
      if c == 45 then some ⟨.commentDashDash, stk⟩
      else if isXmlChar c then some ⟨.comment, stk⟩ else none
  | .commentDashDash => if c == 62 then some ⟨.content 0, stk⟩ else none
  | .cdataOpen k =>
      if cdataKw[k]? == some c then
        (if k + 1 == cdataKw.length then some ⟨.cdata, stk⟩ else some ⟨.cdataOpen (k + 1), stk⟩)
      else none
  | .cdata =>
      if c == 93 then some ⟨.cdataBr1, stk⟩
      else if isXmlChar c then some ⟨.cdata, stk⟩ else none
  | .cdataBr1 =>
      if c == 93 then some ⟨.cdataBr2, stk⟩
      else if isXmlChar c then some ⟨.cdata, stk⟩ else none
  | .cdataBr2 =>
      if c == 62 then some ⟨.content 0, stk⟩
      else if c == 93 then some ⟨.cdataBr2, stk⟩
      else if isXmlChar c then some ⟨.cdata, stk⟩ else none
  | .piStart => if isNameStart c then some ⟨.piTarget [c], stk⟩ else none
  | .piTarget acc =>
      if c == 63 then (if isXmlTarget acc.reverse then none else some ⟨.piTargetQ, stk⟩)
      else if isS c then (if isXmlTarget acc.reverse then none else some ⟨.piBody, stk⟩)
      else if isNameChar c then some ⟨.piTarget (c :: acc), stk⟩ else none
  | .piTargetQ => if c == 62 then some ⟨.content 0, stk⟩ else none
  | .piBody =>
      if c == 63 then some ⟨.piQ, stk⟩
      else if isXmlChar c then some ⟨.piBody, stk⟩ else none
  | .piQ =>
      if c == 62 then some ⟨.content 0, stk⟩
      else if c == 63 then some ⟨.piQ, stk⟩
      else if isXmlChar c then some ⟨.piBody, stk⟩ else none

/-- run the automaton over a text -/
def run (declared : List Text) : St → Text → Option St
  | s, [] => some s
  | s, c :: cs =>
    match step declared s c with
    | some s' => run declared s' cs
    | none => none

def init : St := ⟨.content 0, []⟩

def accepting (s : St) : Bool :=
  match s.mode, s.stack with
  | .content _, [] => true
  | _, _ => false

/-- `v` is well-formed element content, all entity references being to `declared` or predefined names -/
def wf (declared : List Text) (v : Text) : Bool :=
  match run declared init v with
  | some s => accepting s
  | none => false

/-! ### the value as an entity declaration's literal (second template document)

`<!ENTITY key "v">` followed by a reference `&key;` in content: the literal may not contain `%`,
every `&` must start a syntactically complete reference (no matter where: the literal is scanned
before any markup in it is known), character references are expanded when the literal is read,
and the replacement text so obtained must itself be well-formed content. -/

/-- scan a reference after `&`; returns (expansion, rest).  Entity references are kept as they are. -/
def litRef : Text → Option (Text × Text)
  | 35 :: 120 :: rest =>
      let ds := rest.takeWhile (fun c => (hexVal c).isSome)
      match rest.dropWhile (fun c => (hexVal c).isSome) with
      | 59 :: rest' =>
          let n := ds.foldl (fun n c => match hexVal c with | some d => min (n * 16 + d) 0x110000 | none => n) 0
          if ds ≠ [] && crOk n then some ([n], rest') else none
      | _ => none
  | 35 :: rest =>
      let ds := rest.takeWhile isDigit
      match rest.dropWhile isDigit with
      | 59 :: rest' =>
          let n := ds.foldl (fun n c => min (n * 10 + (c - 48)) 0x110000) 0
          if ds ≠ [] && crOk n then some ([n], rest') else none
      | _ => none
  | c :: rest =>
      if isNameStart c then
        let nm := rest.takeWhile isNameChar
        match rest.dropWhile isNameChar with
        | 59 :: rest' => some (38 :: c :: nm ++ [59], rest')
        | _ => none
      else none
  | [] => none

/-- replacement text of the literal `v`, or none if the literal is not well-formed -/
def litExpand : Nat → Text → Option Text
  | 0, _ => none
  | _, [] => some []
  | fuel + 1, c :: rest =>
    if c == 37 then none
    else if c == 38 then
      match litRef rest with
      | some (e, rest') => if rest'.length < rest.length + 1 then (litExpand fuel rest').map (e ++ ·) else none
      | none => none
    else if isXmlChar c then (litExpand fuel rest).map (c :: ·) else none

/-- the value is acceptable in both template documents: as content, and as the literal of
    `<!ENTITY key "v">` whose replacement text is included once (a reference to `key` itself in the
    replacement text would be a recursive entity reference) -/
def wfValue (declared : List Text) (key : Text) (v : Text) : Bool :=
  wf declared v &&
  match litExpand (v.length + 1) v with
  | some rt => wf (declared.filter (fun d => !(d == key))) rt
  | none => false

end XmlContent

/-
Model of compare_locales/checks/fluent.py (FluentChecker) together with the parts of
checks/base.py it uses (Checker.check = the U+FFFD scan, CSSCheckMixin) and plurals.get_plural.

The fluent.syntax 0.19 AST is an INPUT of the model (`Ftl.Message`, `Ftl.Term`, …, mirroring
fluent.syntax.ast with the span starts the checker reads).  The three visitors
(ReferenceMessageVisitor, L10nMessageVisitor, TermVisitor) are folds:

* `evPattern deep` lists, in the exact order of `Visitor.generic_visit` (= `vars(node)` order:
  span, then the constructor's fields), the nodes for which a visitor has a `visit_X` method with an
  effect: MessageReference, TermReference and (post-order, after its variants) SelectExpression.
  `deep = false` is the traversal of the two message visitors (`visit_SelectExpression` goes through
  the variants only, `visit_TermReference`/`visit_MessageReference` do not descend), `deep = true`
  that of TermVisitor (everything is visited).
* `refStep`, `l10nStep`, `termStep` are the effects of these `visit_X` methods on the visitor's
  mutable state; `refVisit…`, `l10nVisit…` transliterate `visit_Message` / `visit_Attribute`.

Python dicts are insertion-ordered association lists (`dictSet` keeps the position of an existing
key), sets are duplicate-free lists in insertion order.  The only place where the iteration order of
a Python *set* is observable is the run of `Missing attribute:` messages (all at position 0) — the
model lists them in the reference's attribute order, the harness canonicalises that run.

Texts are lists of code points.  Core Lean only (linked into the native driver).
-/
import CLModel.Rx.Basic
import CLModel.Gen.Regexes
import CLModel.Gen.Tables
namespace Ftl
open Gen.Tables

abbrev Str := List Nat

/-! ### the AST (fluent.syntax.ast) -/

/-- `Variant.key`: Identifier or NumberLiteral, with `span.start` -/
inductive VKey where
  | ident (start : Nat) (name : Str)
  | num (start : Nat) (value : Str)
  deriving Repr, DecidableEq, Inhabited

/-- NamedArgument(name, value : NumberLiteral | StringLiteral) -/
structure NamedArg where
  name : Str
  isNum : Bool
  value : Str
  deriving Repr, DecidableEq, Inhabited

mutual
  inductive Pattern where
    | mk (start : Nat) (elements : List Elem)
  inductive Elem where
    | text (value : Str)
    | placeable (e : Expr)
  inductive Expr where
    | strLit (v : Str)
    | numLit (v : Str)
    | msgRef (start : Nat) (id : Str) (attr : Option Str)
    | termRef (start : Nat) (id : Str) (attr : Option Str) (args : Option CallArgs)
    | varRef (id : Str)
    | funRef (id : Str) (args : CallArgs)
    | select (selector : Expr) (variants : List Variant)
    | placeable (e : Expr)
  inductive Variant where
    | mk (key : VKey) (value : Pattern) (default : Bool)
  inductive CallArgs where
    | mk (positional : List Expr) (named : List NamedArg)
end

instance : Inhabited Pattern := ⟨.mk 0 []⟩

def Pattern.start : Pattern → Nat | .mk s _ => s
def Pattern.elements : Pattern → List Elem | .mk _ e => e
def Variant.key : Variant → VKey | .mk k _ _ => k

structure Attribute where
  start : Nat
  name : Str
  value : Pattern

structure Message where
  start : Nat
  id : Str
  value : Option Pattern
  attributes : List Attribute

structure Term where
  start : Nat
  id : Str
  value : Pattern
  attributes : List Attribute

inductive Entry where
  | message (m : Message)
  | term (t : Term)

/-! ### traversal order -/

/-- the `visit_X` calls that have an effect, in traversal order -/
inductive Ev where
  | msgRef (start : Nat) (id : Str) (attr : Option Str)
  | termRef (start : Nat) (id : Str) (attr : Option Str)
  | select (keys : List VKey)
  deriving Repr, DecidableEq

mutual
  def evPattern (deep : Bool) : Pattern → List Ev
    | .mk _ els => evElems deep els
  def evElems (deep : Bool) : List Elem → List Ev
    | [] => []
    | e :: r => evElem deep e ++ evElems deep r
  def evElem (deep : Bool) : Elem → List Ev
    | .text _ => []
    | .placeable e => evExpr deep e
  def evExpr (deep : Bool) : Expr → List Ev
    | .strLit _ => []
    | .numLit _ => []
    | .varRef _ => []
    | .msgRef s i a => [.msgRef s i a]
    | .termRef s i a args =>
        -- message visitors: visit_TermReference does not descend; TermVisitor: id, attribute, arguments
        .termRef s i a :: (if deep then (match args with | some c => evArgs deep c | none => []) else [])
    | .funRef _ args => evArgs deep args
    | .select sel vs =>
        -- message visitors: `self.visit(node.variants)`; TermVisitor: generic_visit (selector, variants);
        -- `check_variants` runs afterwards
        (if deep then evExpr deep sel else []) ++ evVariants deep vs ++ [.select (vs.map Variant.key)]
    | .placeable e => evExpr deep e
  def evVariants (deep : Bool) : List Variant → List Ev
    | [] => []
    | v :: r => evVariant deep v ++ evVariants deep r
  def evVariant (deep : Bool) : Variant → List Ev
    | .mk _ value _ => evPattern deep value      -- key (Identifier/NumberLiteral): nothing to do
  def evArgs (deep : Bool) : CallArgs → List Ev
    | .mk pos _ => evExprs deep pos              -- NamedArgument: name, literal value: nothing to do
  def evExprs (deep : Bool) : List Expr → List Ev
    | [] => []
    | e :: r => evExpr deep e ++ evExprs deep r
end

/-! ### small helpers: dicts, sets, formatting, sorting -/

/-- `d[k] = v` on an insertion-ordered dict -/
def dictSet {κ ν : Type} [BEq κ] : List (κ × ν) → κ → ν → List (κ × ν)
  | [], k, v => [(k, v)]
  | (k', v') :: r, k, v => if k' == k then (k', v) :: r else (k', v') :: dictSet r k v

def dictGet? {κ ν : Type} [BEq κ] : List (κ × ν) → κ → Option ν
  | [], _ => none
  | (k', v') :: r, k => if k' == k then some v' else dictGet? r k

def dictDel {κ ν : Type} [BEq κ] : List (κ × ν) → κ → List (κ × ν)
  | [], _ => []
  | (k', v') :: r, k => if k' == k then r else (k', v') :: dictDel r k

def dictKeys {κ ν : Type} (d : List (κ × ν)) : List κ := d.map (·.1)

/-- `s.add(x)` on a set kept in insertion order -/
def setAdd {α : Type} [BEq α] (s : List α) (x : α) : List α := if s.contains x then s else s ++ [x]

/-- `set(xs)` in first-occurrence order -/
def dedup {α : Type} [BEq α] : List α → List α
  | [] => []
  | x :: r => x :: (dedup r).filter (fun y => !(y == x))

/-- `"a{x}b{y}c".format(x=…, y=…)` / `"a%sb%sc" % (…)` on the pieces produced by the translator -/
def fmt : List Str → List Str → Str
  | [], _ => []
  | [p], _ => p
  | p :: ps, a :: as => p ++ a ++ fmt ps as
  | p :: ps, [] => p ++ fmt ps []

def join (sep : Str) : List Str → Str
  | [] => []
  | [x] => x
  | x :: r => x ++ sep ++ join sep r

/-- lexicographic `<=` on code point lists (= Python's `str` order) -/
def strLe : Str → Str → Bool
  | [], _ => true
  | _ :: _, [] => false
  | a :: x, b :: y => if a < b then true else if b < a then false else strLe x y

def insBy {α : Type} (le : α → α → Bool) (x : α) : List α → List α
  | [] => [x]
  | y :: r => if le x y then x :: y :: r else y :: insBy le x r

/-- stable sort (`list.sort` / `sorted`): insertion from the right, an element goes before the
    first later element that is not smaller -/
def sortBy {α : Type} (le : α → α → Bool) : List α → List α
  | [] => []
  | x :: r => insBy le x (sortBy le r)

/-! ### messages -/

def sevWarning : Str := [119, 97, 114, 110, 105, 110, 103]
def sevError : Str := [101, 114, 114, 111, 114]
def catFluent : Str := [102, 108, 117, 101, 110, 116]
def sStyle : Str := [115, 116, 121, 108, 101]
def sOther : Str := [111, 116, 104, 101, 114]
def sNone : Str := [78, 111, 110, 101]

/-- an element of `visitor.messages`: (category, position, text) -/
structure Msg where
  sev : Str
  pos : Nat
  text : Str
  deriving Repr, DecidableEq, Inhabited

/-! ### plurals.get_plural -/

def getPluralRule (locale : Option Str) : Option Nat :=
  match locale with
  | none => none
  | some l =>
    match dictGet? categoriesByLocale l with
    | some i => some i
    | none => dictGet? categoriesByLocale (l.takeWhile (fun c => c != 45))   -- locale.split("-", 1)[0]

/-- `error` = IndexError of `CATEGORIES_BY_INDEX[plural_form]` -/
def getPlural (locale : Option Str) : Except Unit (Option (List Str)) :=
  match getPluralRule locale with
  | none => .ok none
  | some i =>
    match categoriesByIndex[i]? with
    | some c => .ok (some c)
    | none => .error ()

/-! ### GenericL10nChecks -/

/-- The two nested `left`/`right` loops of check_duplicate_attributes / check_variants.
    `ks` = the `left` elements that were processed (not skipped) so far: an index is in the Python
    `warned` set iff its element matched one of them, because `warned.add(right)` happens exactly
    for the later elements equal to a processed `left`.  Emits, per processed `left` that has a
    match, `left` itself and then every matching `right`. -/
def dupLoop {α : Type} (eq : α → α → Bool) (ks : List α) : List α → List α
  | [] => []
  | x :: rest =>
    if ks.any (fun k => eq k x) then dupLoop eq ks rest
    else
      let ms := rest.filter (fun y => eq x y)
      (if ms.isEmpty then [] else x :: ms) ++ dupLoop eq (ks ++ [x]) rest

def checkDuplicateAttributes (attrs : List Attribute) : List Msg :=
  (dupLoop (fun a b => a.name == b.name) [] attrs).map
    (fun a => ⟨sevWarning, a.start, fmt fluentMsg_duplicate_attribute [a.name]⟩)

def VKey.start : VKey → Nat | .ident s _ => s | .num s _ => s
/-- serialize_variant_key -/
def VKey.str : VKey → Str | .ident _ n => n | .num _ v => v
/-- `BaseNode.equals` on two variant keys (spans ignored): same node type and same text -/
def VKey.equals : VKey → VKey → Bool
  | .ident _ a, .ident _ b => a == b
  | .num _ a, .num _ b => a == b
  | _, _ => false

/-- the plural-category part of check_variants -/
def checkPlurals (kp : Option (List Str)) (keys : List VKey) : List Msg :=
  match kp with
  | none => []
  | some cats =>
    if cats.isEmpty then [] else
    let known := dedup cats
    let check := known.filter (fun c => !(c == sOther))
    let given := keys.map VKey.str
    if given.any (fun g => check.contains g) then
      let missing := sortBy strLe (known.filter (fun c => !given.contains c))
      if missing.isEmpty then [] else
        match keys with
        | [] => []       -- not reachable: `given` is not empty here
        | k0 :: _ => [⟨sevWarning, k0.start, fmt fluentMsg_missing_plural [join [44, 32] missing]⟩]
    else []

def checkVariants (kp : Option (List Str)) (keys : List VKey) : List Msg :=
  -- the duplicate message carries `serialize_variant_key(left_key)`, equal to the key's own text
  (dupLoop VKey.equals [] keys).map (fun k => ⟨sevWarning, k.start, fmt fluentMsg_duplicate_variant [k.str]⟩)
  ++ checkPlurals kp keys

/-! ### CSSCheckMixin -/

inductive CssErr where
  | badContent (pos : Nat)
  | missingSemicolon (pos : Nat)
  deriving Repr, DecidableEq

/-- prop -> unit (`None` if the unit group did not take part) -/
abbrev CssMap := List (Str × Option Str)

def slice (s : Array Nat) (a b : Nat) : Str := (s.extract a b).toList

def cssLoop (s : Array Nat) : List (Nat × Rx.St) → Nat → Option CssMap → Option (List CssErr) →
    Option CssMap × Option (List CssErr)
  | [], _, refMap, errors => (refMap, errors)
  | (q, st) :: rest, endp, refMap, errors =>
    if endp == 0 && q == st.pos then (none, none) else
    -- `m.group("prop")` as a truth value: matched and not the empty string
    let hasProp := match st.group Gen.Pat.CSSCheckMixin__css_spec_g_prop with
      | some (a, b) => a != b
      | none => false
    let errors :=
      -- also checked between two adjacent declarations (the final `\Z` match has no `prop`)
      if q > endp || (endp > 0 && hasProp) then
        match Rx.matchAt (s.extract 0 q) Gen.Pat.CSSCheckMixin__css_sep endp with
        | none => some ((match errors with | some l => l | none => []) ++ [CssErr.badContent endp])
        | some sp =>
          -- only between declarations, not for trailing white space before the final `\Z` match
          if endp > 0 && hasProp && (sp.group Gen.Pat.CSSCheckMixin__css_sep_g_semi).isNone then
            some ((match errors with | some l => l | none => []) ++ [CssErr.missingSemicolon endp])
          else errors
      else errors
    let refMap :=
      match st.group Gen.Pat.CSSCheckMixin__css_spec_g_prop with
      | some (a, b) =>
        if a == b then refMap else     -- `if m.group("prop")`: the empty string is falsy
        some (dictSet (match refMap with | some d => d | none => []) (slice s a b)
          ((st.group Gen.Pat.CSSCheckMixin__css_spec_g_unit).map (fun u => slice s u.1 u.2)))
      | none => refMap
    cssLoop s rest st.pos refMap errors

def parseCssSpec (val : Str) : Option CssMap × Option (List CssErr) :=
  let s := val.toArray
  cssLoop s (Rx.finditer s Gen.Pat.CSSCheckMixin__css_spec) 0 none none

def unitStr : Option Str → Str
  | some u => u
  | none => sNone

/-- first loop of check_style: over `l10n_map.items()`; returns (ref_map after the pops, msgs) -/
def styleLoop : CssMap → CssMap → List Str → CssMap × List Str
  | [], refMap, msgs => (refMap, msgs)
  | (prop, unit) :: rest, refMap, msgs =>
    match dictGet? refMap prop with
    | none => styleLoop rest refMap (fmt checkStyleStr_6 [prop] :: msgs)
    | some refUnit =>
      let refMap := dictDel refMap prop
      if unit != refUnit then
        styleLoop rest refMap (msgs ++ [fmt checkStyleStr_7 [prop, unitStr unit, unitStr refUnit]])
      else styleLoop rest refMap msgs

/-- check_style(ref_map, l10n_map, errors) -> yielded (category, position, text), ref_map afterwards -/
def checkStyle (refMap : CssMap) (l10nMap : Option CssMap) (errors : Option (List CssErr)) :
    List Msg × CssMap :=
  match l10nMap with
  | none => ([⟨fmt checkStyleStr_0 [], 0, fmt checkStyleStr_1 []⟩], refMap)
  | some [] => ([⟨fmt checkStyleStr_0 [], 0, fmt checkStyleStr_1 []⟩], refMap)
  | some lm =>
    if (match errors with | some (_ :: _) => true | _ => false) then
      ([⟨fmt checkStyleStr_3 [], 0, fmt checkStyleStr_4 []⟩], refMap)
    else
      let (refMap', msgs) := styleLoop lm refMap []
      -- `for prop in ref_map.keys(): msgs.insert(0, …)`
      let msgs := (dictKeys refMap').foldl (fun acc prop => fmt checkStyleStr_8 [prop] :: acc) msgs
      (if msgs.isEmpty then [] else [⟨fmt checkStyleStr_9 [], 0, join (fmt checkStyleStr_10 []) msgs⟩], refMap')

/-- `css_styles`: None | "skip" | dict -/
inductive CssVal where
  | none
  | skip
  | map (m : CssMap)
  deriving Repr, DecidableEq

/-- pattern_variants -/
def patternVariants (p : Pattern) : List Str :=
  match p.elements with
  | [Elem.text v] => [v]
  | _ => []

/-- the `style` part of ReferenceMessageVisitor.visit_Attribute: new (css_styles, css_errors) -/
def styleOf (p : Pattern) : CssVal × Option (List CssErr) → CssVal × Option (List CssErr)
  | (_, ce) =>
    match patternVariants p with
    | [] => (.skip, ce)
    | t :: _ =>
      match parseCssSpec t with
      | (some m, e) => (.map m, e)
      | (none, e) => (.none, e)

/-! ### ReferenceMessageVisitor -/

inductive RefType where
  | msg | term
  deriving Repr, DecidableEq

abbrev Slot := Option Str            -- None = the value, else an attribute name
abbrev RefDict := List (Str × RefType)

structure RefState where
  entryRefs : List (Slot × RefDict)
  hasValue : Bool
  attrPos : List (Str × Nat)
  css : CssVal
  cssErrors : Option (List CssErr)

/-- the text under which a reference is recorded, if it is recorded at all -/
def Ev.refKey : Ev → Option (Str × RefType)
  | .msgRef _ i a => some (i ++ (match a with | some x => 46 :: x | none => []), .msg)
  | .termRef _ i a => if a.isSome then none else some (45 :: i, .term)
  | .select _ => none

/-- visit_MessageReference / visit_TermReference of the reference visitor on `self.refs` -/
def refStep (d : RefDict) (e : Ev) : RefDict :=
  match e.refKey with
  | some (r, t) => dictSet d r t
  | none => d

/-- `self.entry_refs[slot]` of a defaultdict -/
def ddGet {ν : Type} (d : List (Slot × List ν)) (slot : Slot) : List ν :=
  match dictGet? d slot with
  | some v => v
  | none => []

def refVisitAttribute (st : RefState) (a : Attribute) : RefState :=
  let refs := (evPattern false a.value).foldl refStep (ddGet st.entryRefs (some a.name))
  let st := { st with attrPos := dictSet st.attrPos a.name a.start,
                      entryRefs := dictSet st.entryRefs (some a.name) refs }
  if a.name != sStyle then st else
  let (cs, ce) := styleOf a.value (st.css, st.cssErrors)
  { st with css := cs, cssErrors := ce }

def refInit : RefState :=
  { entryRefs := [(none, [])], hasValue := false, attrPos := [], css := .none, cssErrors := none }

/-- ReferenceMessageVisitor().visit(entry).  A Term has no `visit_Term` there: generic_visit. -/
def refVisit (hasValue : Bool) (value : Option Pattern) (attrs : List Attribute) : RefState :=
  let st := { refInit with hasValue := hasValue }
  let st := match value with
    | some p => { st with entryRefs := dictSet st.entryRefs none ((evPattern false p).foldl refStep (ddGet st.entryRefs none)) }
    | none => st
  attrs.foldl refVisitAttribute st

def refVisitEntry : Entry → RefState
  | .message m => refVisit m.value.isSome m.value m.attributes
  | .term t => refVisit false (some t.value) t.attributes

/-! ### L10nMessageVisitor -/

structure L10nState where
  entryRefs : List (Slot × List Str)
  hasValue : Bool
  attrPos : List (Str × Nat)
  css : CssVal
  cssErrors : Option (List CssErr)
  /-- `self.reference.entry_refs` (a defaultdict: reading a new slot creates it) -/
  refEntryRefs : List (Slot × RefDict)
  /-- `self.reference.css_styles` (check_style pops from it) -/
  refCss : CssVal
  messages : List Msg

/-- visit_MessageReference / visit_TermReference / visit_SelectExpression (its check_variants part)
    of the l10n visitor: state = (self.refs, self.messages) -/
def l10nStep (kp : Option (List Str)) (refRefs : List Str) (acc : List Str × List Msg) (e : Ev) :
    List Str × List Msg :=
  match e with
  | .select keys => (acc.1, acc.2 ++ checkVariants kp keys)
  | .msgRef s _ _ =>
    match e.refKey with
    | some (r, _) =>
      (setAdd acc.1 r, if refRefs.contains r then acc.2 else acc.2 ++ [⟨sevWarning, s, fmt fluentMsg_obsolete_msg_ref [r]⟩])
    | none => acc
  | .termRef s _ _ =>
    match e.refKey with
    | some (r, _) =>
      (setAdd acc.1 r, if refRefs.contains r then acc.2 else acc.2 ++ [⟨sevWarning, s, fmt fluentMsg_obsolete_term_ref [r]⟩])
    | none => acc

/-- visit the pattern of a slot -/
def l10nVisitPattern (kp : Option (List Str)) (st : L10nState) (slot : Slot) (p : Pattern) : L10nState :=
  let refRefs := dictKeys (ddGet st.refEntryRefs slot)
  let (refs, msgs) := (evPattern false p).foldl (l10nStep kp refRefs) (ddGet st.entryRefs slot, st.messages)
  { st with entryRefs := dictSet st.entryRefs slot refs, messages := msgs,
            refEntryRefs := dictSet st.refEntryRefs slot (ddGet st.refEntryRefs slot) }

def l10nVisitAttribute (kp : Option (List Str)) (st : L10nState) (a : Attribute) : L10nState :=
  let st := { st with attrPos := dictSet st.attrPos a.name a.start }
  let st := l10nVisitPattern kp st (some a.name) a.value
  if a.name != sStyle then st else
  let (cs, ce) := styleOf a.value (st.css, st.cssErrors)
  let st := { st with css := cs, cssErrors := ce }
  match cs with
  | .skip => st
  | _ =>
    let lm := match cs with | .map m => some m | _ => none
    match st.refCss with
    | .map rm =>
      let (msgs, rm') := checkStyle rm lm ce
      { st with messages := st.messages ++ msgs, refCss := .map rm' }
    | _ =>
      let (msgs, _) := checkStyle [] lm ce
      { st with messages := st.messages ++ msgs }

def l10nInit (ref : RefState) : L10nState :=
  { entryRefs := [(none, [])], hasValue := false, attrPos := [], css := .none, cssErrors := none,
    refEntryRefs := ref.entryRefs, refCss := ref.css, messages := [] }

/-- L10nMessageVisitor(locale, reference).visit(message) -/
def l10nVisitMessage (kp : Option (List Str)) (ref : RefState) (m : Message) : L10nState :=
  let st := l10nInit ref
  let st := { st with messages := checkDuplicateAttributes m.attributes }
  let st := { st with hasValue := m.value.isSome }
  let st := match m.value with
    | some p => l10nVisitPattern kp st none p
    | none => st
  let st := m.attributes.foldl (l10nVisitAttribute kp) st
  let msgs := st.messages
  let msgs := match m.value with
    | some p => if !ref.hasValue then msgs ++ [⟨sevError, p.start, fmt fluentMsg_obsolete_value []⟩] else msgs
    | none => msgs
  let msgs := if !st.hasValue && ref.hasValue then msgs ++ [⟨sevError, 0, fmt fluentMsg_missing_value []⟩] else msgs
  let refAttrs := dictKeys ref.attrPos
  let l10nAttrs := dictKeys st.attrPos
  let msgs := msgs ++ (refAttrs.filter (fun n => !l10nAttrs.contains n)).map
    (fun n => ⟨sevError, 0, fmt fluentMsg_missing_attribute [n]⟩)
  let msgs := msgs ++ (st.attrPos.filter (fun p => !refAttrs.contains p.1)).map
    (fun p => ⟨sevError, p.2, fmt fluentMsg_obsolete_attribute [p.1]⟩)
  { st with messages := msgs }

/-- the loop of check_message after the two visits -/
def missingRefs (refEntryRefs : List (Slot × RefDict)) (l10nEntryRefs : List (Slot × List Str)) : List Msg :=
  refEntryRefs.flatMap (fun (slot, refs) =>
    (refs.filter (fun (r, _) => !(ddGet l10nEntryRefs slot).contains r)).map (fun (r, t) =>
      ⟨sevWarning, 0, match t with
        | .msg => fmt fluentMsg_missing_msg_ref [r]
        | .term => fmt fluentMsg_missing_term_ref [r]⟩))

/-- FluentChecker.check_message -/
def checkMessage (kp : Option (List Str)) (ref : Entry) (l10n : Message) : List Msg :=
  let r := refVisitEntry ref
  let l := l10nVisitMessage kp r l10n
  l.messages ++ missingRefs l.refEntryRefs l.entryRefs

/-! ### TermVisitor -/

def termStep (kp : Option (List Str)) (msgs : List Msg) (e : Ev) : List Msg :=
  match e with
  | .select keys => msgs ++ checkVariants kp keys
  | _ => msgs

/-- FluentChecker.check_term -/
def checkTerm (kp : Option (List Str)) (t : Term) : List Msg :=
  let msgs := checkDuplicateAttributes t.attributes
  let msgs := (evPattern true t.value).foldl (termStep kp) msgs
  t.attributes.foldl (fun msgs a => (evPattern true a.value).foldl (termStep kp) msgs) msgs

/-! ### FluentChecker.check -/

/-- a yielded tuple (category, position, text, check name) -/
structure Out where
  sev : Str
  pos : Int
  text : Str
  cat : Str
  deriving Repr, DecidableEq

/-- Checker.check: one warning per U+FFFD in `l10nEnt.all` -/
def checkEncoding (key all : Str) : List Out :=
  (Rx.finditer all.toArray Gen.Pat.checks_base_mochibake).map
    (fun (q, _) => ⟨fmt baseCheckStr_0 [], (q : Int), fmt baseCheckStr_1 [] ++ key, fmt baseCheckStr_2 []⟩)

def Entry.start : Entry → Nat
  | .message m => m.start
  | .term t => t.start

/-- `messages.sort(key=pos)`, then positions relative to the entry (0 stays 0) -/
def finish (start : Nat) (msgs : List Msg) : List Out :=
  (sortBy (fun a b => a.pos ≤ b.pos) msgs).map
    (fun m => ⟨m.sev, if m.pos != 0 then (m.pos : Int) - (start : Int) else 0, m.text, catFluent⟩)

def checkWith (kp : Option (List Str)) (key all : Str) (ref l10n : Entry) : List Out :=
  checkEncoding key all ++
  finish l10n.start (match l10n with
    | .message m => checkMessage kp ref m
    | .term t => checkTerm kp t)

/-- does check_variants (hence plurals.get_plural) run at all? -/
def hasSelect (l10n : Entry) : Bool :=
  let sel (evs : List Ev) : Bool := evs.any (fun e => match e with | .select _ => true | _ => false)
  match l10n with
  | .message m => (match m.value with | some p => sel (evPattern false p) | none => false)
      || m.attributes.any (fun a => sel (evPattern false a.value))
  | .term t => sel (evPattern true t.value) || t.attributes.any (fun a => sel (evPattern true a.value))

/-- FluentChecker(locale).check(refEnt, l10nEnt) as a list; `error` = the IndexError of a locale
    whose plural rule has no entry in CATEGORIES_BY_INDEX (raised when check_variants first runs) -/
def check (locale : Option Str) (key all : Str) (ref l10n : Entry) : Except Unit (List Out) :=
  match getPlural locale with
  | .ok kp => .ok (checkWith kp key all ref l10n)
  | .error e => if hasSelect l10n then .error e else .ok (checkWith none key all ref l10n)

end Ftl

/-
Executable port of the part of CPython's `difflib.SequenceMatcher` that
`PropertiesChecker.checkPrintf` uses: `SequenceMatcher()` (isjunk = None, autojunk = True),
`set_seqs(a, b)`, `get_opcodes()` — i.e. `__chain_b`, `find_longest_match`,
`get_matching_blocks`, `get_opcodes` (CPython 3.12 `Lib/difflib.py`).

Core Lean only.  Partial Python operations (`a[i]`) are `Option`; `none` also stands for an
exhausted fuel counter (neither happens: `Difflib.opcodes_valid` in Proofs/C06Difflib.lean).
-/
namespace Difflib

variable {α : Type} [DecidableEq α]

/-! ### `__chain_b` -/

/-- `b2j.setdefault(elt, []).append(i)` on an insertion-ordered dict -/
def b2jAdd (d : List (α × List Nat)) (elt : α) (i : Nat) : List (α × List Nat) :=
  match d with
  | [] => [(elt, [i])]
  | (e, l) :: rest => if e = elt then (e, l ++ [i]) :: rest else (e, l) :: b2jAdd rest elt i

/-- the loop `for i, elt in enumerate(b)` started at index `i` -/
def b2jBuild : List α → Nat → List (α × List Nat) → List (α × List Nat)
  | [], _, d => d
  | x :: xs, i, d => b2jBuild xs (i + 1) (b2jAdd d x i)

/-- `__chain_b` with `isjunk = None`, `autojunk = True`: elements occurring more than
    `n // 100 + 1` times are dropped from `b2j` when `n >= 200`. -/
def chainB (b : List α) : List (α × List Nat) :=
  let d := b2jBuild b 0 []
  let n := b.length
  if n ≥ 200 then
    let ntest := n / 100 + 1
    d.filter (fun p => !(decide (p.2.length > ntest)))
  else d

/-- `b2j.get(x, nothing)` -/
def b2jGet (d : List (α × List Nat)) (x : α) : List Nat :=
  match d.find? (fun p => decide (p.1 = x)) with
  | some p => p.2
  | none => []

/-! ### `find_longest_match` -/

structure Block where
  i : Nat
  j : Nat
  k : Nat
  deriving DecidableEq, Repr, Inhabited

/-- `j2len.get(j-1, 0)` for `j ≥ 0` (a dict never has the key -1) -/
def j2lenGet (d : List (Nat × Nat)) (j : Nat) : Nat :=
  if j = 0 then 0 else
  match d.find? (fun p => p.1 == j - 1) with
  | some p => p.2
  | none => 0

/-- `for j in b2j.get(a[i], nothing): …` ; state = (newj2len, best).
    `i-k+1` is written `i+1-k` (no negative intermediate value in ℕ; `k ≤ i+1` always). -/
def innerLoop (i blo bhi : Nat) (j2len : List (Nat × Nat)) :
    List Nat → List (Nat × Nat) × Block → List (Nat × Nat) × Block
  | [], st => st
  | j :: js, (nj, best) =>
    if j < blo then innerLoop i blo bhi j2len js (nj, best)
    else if j ≥ bhi then (nj, best)
    else
      let k := j2lenGet j2len j + 1
      let best' := if k > best.k then ⟨i + 1 - k, j + 1 - k, k⟩ else best
      innerLoop i blo bhi j2len js ((j, k) :: nj, best')

/-- `for i in range(alo, ahi)`; `n` = number of remaining iterations -/
def outerLoop (a : List α) (b2j : List (α × List Nat)) (blo bhi : Nat) :
    Nat → Nat → List (Nat × Nat) → Block → Option Block
  | 0, _, _, best => some best
  | n + 1, i, j2len, best =>
    match a[i]? with
    | none => none
    | some x =>
      let r := innerLoop i blo bhi j2len (b2jGet b2j x) ([], best)
      outerLoop a b2j blo bhi n (i + 1) r.1 r.2

/-- `while besti > alo and bestj > blo and not isbjunk(b[bestj-1]) and a[besti-1] == b[bestj-1]` -/
def extendBack (a b : List α) (alo blo : Nat) : Nat → Nat → Nat → Option Block
  | 0, bj, k => some ⟨0, bj, k⟩
  | bi + 1, bj, k =>
    if bi + 1 > alo ∧ bj > blo then
      match b[bj - 1]?, a[bi]? with
      | some y, some x => if x = y then extendBack a b alo blo bi (bj - 1) (k + 1) else some ⟨bi + 1, bj, k⟩
      | _, _ => none
    else some ⟨bi + 1, bj, k⟩

/-- `while besti+bestsize < ahi and bestj+bestsize < bhi and not isbjunk(…) and a[…] == b[…]` -/
def extendFwd (a b : List α) (ahi bhi : Nat) (bi bj : Nat) : Nat → Nat → Option Block
  | 0, k => some ⟨bi, bj, k⟩
  | fuel + 1, k =>
    if bi + k < ahi ∧ bj + k < bhi then
      match b[bj + k]?, a[bi + k]? with
      | some y, some x => if x = y then extendFwd a b ahi bhi bi bj fuel (k + 1) else some ⟨bi, bj, k⟩
      | _, _ => none
    else some ⟨bi, bj, k⟩

/-- `find_longest_match(alo, ahi, blo, bhi)`.  The two final loops of the Python function
    require `isbjunk(...)`, which is constantly false without a junk predicate; they only
    evaluate `b[bestj-1]` / `b[bestj+bestsize]` at indices inside `b`. -/
def findLongestMatch (a b : List α) (b2j : List (α × List Nat)) (alo ahi blo bhi : Nat) : Option Block :=
  match outerLoop a b2j blo bhi (ahi - alo) alo [] ⟨alo, blo, 0⟩ with
  | none => none
  | some best =>
    match extendBack a b alo blo best.i best.j best.k with
    | none => none
    | some b1 => extendFwd a b ahi bhi b1.i b1.j (ahi - (b1.i + b1.k)) b1.k

/-! ### `get_matching_blocks` -/

structure Box where
  alo : Nat
  ahi : Nat
  blo : Nat
  bhi : Nat
  deriving DecidableEq, Repr

/-- the `while queue:` loop.  The Python list `queue` is used as a stack (`append`/`pop()`):
    its last element is the head here. -/
def mbLoop (a b : List α) (b2j : List (α × List Nat)) :
    Nat → List Box → List Block → Option (List Block)
  | _, [], acc => some acc
  | 0, _ :: _, _ => none
  | fuel + 1, q :: queue, acc =>
    match findLongestMatch a b b2j q.alo q.ahi q.blo q.bhi with
    | none => none
    | some x =>
      if x.k ≠ 0 then
        let queue1 := if q.alo < x.i ∧ q.blo < x.j then ⟨q.alo, x.i, q.blo, x.j⟩ :: queue else queue
        let queue2 := if x.i + x.k < q.ahi ∧ x.j + x.k < q.bhi then ⟨x.i + x.k, q.ahi, x.j + x.k, q.bhi⟩ :: queue1 else queue1
        mbLoop a b b2j fuel queue2 (acc ++ [x])
      else mbLoop a b b2j fuel queue acc

/-- tuple order of `Match(a, b, size)` used by `matching_blocks.sort()` -/
def Block.le (x y : Block) : Bool :=
  x.i < y.i || (x.i == y.i && (x.j < y.j || (x.j == y.j && x.k ≤ y.k)))

/-- the collapsing loop: `(i1, j1, k1)` is the block compared against; emits `non_adjacent` in order -/
def collapse : Nat → Nat → Nat → List Block → List Block
  | i1, j1, k1, [] => if k1 ≠ 0 then [⟨i1, j1, k1⟩] else []
  | i1, j1, k1, x :: rest =>
    if i1 + k1 = x.i ∧ j1 + k1 = x.j then collapse i1 j1 (k1 + x.k) rest
    else (if k1 ≠ 0 then [⟨i1, j1, k1⟩] else []) ++ collapse x.i x.j x.k rest

/-- `get_matching_blocks()` -/
def matchingBlocks (a b : List α) : Option (List Block) :=
  let la := a.length
  let lb := b.length
  match mbLoop a b (chainB b) (2 * la + 2) [⟨0, la, 0, lb⟩] [] with
  | none => none
  | some mbs =>
    let sorted := mbs.mergeSort Block.le
    some (collapse 0 0 0 sorted ++ [⟨la, lb, 0⟩])

/-! ### `get_opcodes` -/

inductive Tag | replace | delete | insert | equal
  deriving DecidableEq, Repr, Inhabited

structure Opcode where
  tag : Tag
  i1 : Nat
  i2 : Nat
  j1 : Nat
  j2 : Nat
  deriving DecidableEq, Repr, Inhabited

/-- the loop of `get_opcodes` over the matching blocks, `(i, j)` = current position -/
def opcodesGo : Nat → Nat → List Block → List Opcode
  | _, _, [] => []
  | i, j, x :: rest =>
    let tag : Option Tag :=
      if i < x.i ∧ j < x.j then some .replace
      else if i < x.i then some .delete
      else if j < x.j then some .insert
      else none
    (match tag with
      | some t => [⟨t, i, x.i, j, x.j⟩]
      | none => []) ++
    (if x.k ≠ 0 then [⟨.equal, x.i, x.i + x.k, x.j, x.j + x.k⟩] else []) ++
    opcodesGo (x.i + x.k) (x.j + x.k) rest

/-- `SequenceMatcher(); set_seqs(a, b); get_opcodes()` -/
def opcodes (a b : List α) : Option (List Opcode) :=
  match matchingBlocks a b with
  | none => none
  | some mbs => some (opcodesGo 0 0 mbs)

end Difflib
